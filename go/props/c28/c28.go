// Package c28: the client handshake log records what was actually exchanged.
//
// T3 (lines `c28 hs …`): a real zcrypto client handshakes with a real zcrypto server over the tlsrig tap; the
// captured byte streams are parsed by the independent parser in wire.go and every populated part of
// GetHandshakeLog() is compared with the wire / with the secrets the connection used.
// T2 (lines `c28 ch|sh|cert|fin|skx …`): single handshake messages taken from real handshakes (and mutations of
// them) go through the real parsers + MakeLog builders via tls/zv_c28_verif.go and through the Lean model.
package c28

import (
	"bytes"
	"crypto/elliptic"
	"encoding/json"
	"fmt"
	"math/big"
	"strconv"
	"strings"

	"github.com/zmap/zcrypto/tls"
	"github.com/zmap/zcrypto/x509"

	"zv/internal/tlsrig"
	"zv/internal/zv"
)

func hx(b []byte) string { return zv.Hex(b) }

func joinInts[T ~uint16 | ~uint8 | ~int](l []T) string {
	if len(l) == 0 {
		return "-"
	}
	var s []string
	for _, x := range l {
		s = append(s, strconv.Itoa(int(x)))
	}
	return strings.Join(s, ",")
}

func joinHex(l [][]byte) string {
	if len(l) == 0 {
		return "-"
	}
	var s []string
	for _, x := range l {
		s = append(s, hx(x))
	}
	return strings.Join(s, ",")
}

func b2i(b bool) int {
	if b {
		return 1
	}
	return 0
}

func bigHex(x *big.Int) string {
	if x == nil {
		return "-"
	}
	return hx(x.Bytes())
}

// ---- canonical rendering of real log records (T2 output) ----------------------------------------------

func fmtSH(l *tls.ServerHello) string {
	sv, ks := 0, 0
	if l.SupportedVersions != nil {
		sv = int(l.SupportedVersions.SelectedVersion)
	}
	if l.KeyShare != nil && l.KeyShare.KeyExchange != nil {
		ks = int(*l.KeyShare.KeyExchange)
	}
	var scts [][]byte
	for _, s := range l.SignedCertificateTimestamps {
		scts = append(scts, s.Raw)
	}
	return fmt.Sprintf("v=%d r=%s sid=%s cs=%d cm=%d ocsp=%d tick=%d reneg=%d ems=%d alpn=%s sv=%d ks=%d ids=%s scts=%s unk=%s",
		l.Version, hx(l.Random), hx(l.SessionID), l.CipherSuite, l.CompressionMethod, b2i(l.OcspStapling), b2i(l.TicketSupported),
		b2i(l.SecureRenegotiation), b2i(l.ExtendedMasterSecret), hx([]byte(l.AlpnProtocol)), sv, ks,
		joinInts(l.ExtensionIdentifiers), joinHex(scts), joinHex(l.UnknownExtensions))
}

func fmtCH(l *tls.ClientHello) string {
	st := "-"
	if l.SessionTicket != nil {
		st = fmt.Sprintf("%d:%s", l.SessionTicket.Length, hx(l.SessionTicket.Value))
	}
	var sah []string
	for _, s := range l.SignatureAndHashes {
		sah = append(sah, fmt.Sprintf("%d:%d", s.Signature, s.Hash))
	}
	sahs := "-"
	if len(sah) > 0 {
		sahs = strings.Join(sah, ",")
	}
	var alpn [][]byte
	for _, a := range l.AlpnProtocols {
		alpn = append(alpn, []byte(a))
	}
	return fmt.Sprintf("v=%d r=%s sid=%s cs=%s cm=%s ocsp=%d tick=%d reneg=%d ems=%d hb=%d sni=%s scts=%d curves=%s points=%s sv=%s st=%s sah=%s alpn=%s unk=%s",
		l.Version, hx(l.Random), hx(l.SessionID), joinInts(l.CipherSuites), joinInts(l.CompressionMethods), b2i(l.OcspStapling),
		b2i(l.TicketSupported), b2i(l.SecureRenegotiation), b2i(l.ExtendedMasterSecret), b2i(l.HeartbeatSupported), hx([]byte(l.ServerName)),
		b2i(l.Scts), joinInts(l.SupportedCurves), joinInts(l.SupportedPoints), joinInts(l.SupportedVersions), st, sahs,
		joinHex(alpn), joinHex(l.UnknownExtensions))
}

func fmtCerts(l *tls.Certificates) string {
	var chain [][]byte
	for _, c := range l.Chain {
		chain = append(chain, c.Raw)
	}
	return fmt.Sprintf("leaf=%s chain=%s", hx(l.Certificate.Raw), joinHex(chain))
}

func fmtSKX(l *tls.ServerKeyExchange) string {
	var b strings.Builder
	if l.ECDHParams != nil {
		e := l.ECDHParams
		x, y := "-", "-"
		if e.ServerPublic != nil {
			x, y = bigHex(e.ServerPublic.X), bigHex(e.ServerPublic.Y)
		}
		fmt.Fprintf(&b, "curve=%d x=%s y=%s", e.TLSCurveID, x, y)
	}
	if l.DHParams != nil {
		d := l.DHParams
		fmt.Fprintf(&b, "p=%s g=%s ys=%s", bigHex(d.Prime), bigHex(d.Generator), bigHex(d.ServerPublic))
	}
	if s := l.Signature; s != nil {
		she, sg, h := 0, 0, 0
		if s.SigHashExtension != nil {
			she, sg, h = 1, int(s.SigHashExtension.Signature), int(s.SigHashExtension.Hash)
		}
		fmt.Fprintf(&b, " type=%s she=%d sig=%d hash=%d raw=%s ver=%d", s.Type, she, sg, h, hx(s.Raw), s.Version)
	}
	fmt.Fprintf(&b, " digest=%s", hx(l.Digest))
	return b.String()
}

// ---- T2 exec ---------------------------------------------------------------------------------------------

func parseU16List(s string) []uint16 {
	if s == "-" {
		return nil
	}
	var out []uint16
	for _, f := range strings.Split(s, ",") {
		n, _ := strconv.Atoi(f)
		out = append(out, uint16(n))
	}
	return out
}

func execMsg(f []string) zv.Out {
	switch f[1] {
	case "sh":
		l, ok := tls.ZVC28ServerHelloLog(zv.UnHex(f[2]))
		if !ok {
			return zv.Out{Go: "err", Tags: []string{"sh:err"}}
		}
		return zv.Out{Go: fmtSH(l), Tags: []string{"sh:ok"}}
	case "ch":
		l, ok := tls.ZVC28ClientHelloLog(zv.UnHex(f[2]))
		if !ok {
			return zv.Out{Go: "err", Tags: []string{"ch:err"}}
		}
		return zv.Out{Go: fmtCH(l), Tags: []string{"ch:ok"}}
	case "cert":
		l, ok := tls.ZVC28CertificateLog(zv.UnHex(f[2]))
		if !ok {
			return zv.Out{Go: "err", Tags: []string{"cert:err"}}
		}
		return zv.Out{Go: fmtCerts(l), Tags: []string{"cert:ok", fmt.Sprintf("cert:chain=%d", len(l.Chain))}}
	case "cert13":
		msg := zv.UnHex(f[2])
		l, ocsp, scts, ok := tls.ZVC28Certificate13Log(msg)
		if !ok {
			return zv.Out{Go: "err", Tags: []string{"cert13:err"}}
		}
		out := zv.Out{Go: fmtCerts(l) + fmt.Sprintf(" ocsp=%d scts=%d", b2i(ocsp), b2i(scts)),
			Tags: []string{"cert13:ok", fmt.Sprintf("cert13:chain=%d", len(l.Chain)), fmt.Sprintf("cert13:ocsp=%d,scts=%d", b2i(ocsp), b2i(scts))}}
		// T3 on the single message: leaf ‖ chain are the cert_data fields of the entries, in order (independent parse)
		if len(msg) >= 4 {
			if certs, err := parseCertList13(msg[4:]); err != nil {
				out.Viol = "accepted by certificateMsgTLS13.unmarshal, rejected by the independent parser"
			} else {
				logged := [][]byte{}
				if len(certs) > 0 {
					logged = append(logged, l.Certificate.Raw)
				} else if len(l.Certificate.Raw) != 0 {
					out.Viol = "leaf logged for an empty certificate list"
				}
				for _, e := range l.Chain {
					logged = append(logged, e.Raw)
				}
				if len(logged) != len(certs) {
					out.Viol = fmt.Sprintf("%d certificates in the message, %d in the logged leaf and chain", len(certs), len(logged))
				} else {
					for i := range certs {
						if !bytes.Equal(certs[i], logged[i]) {
							out.Viol = fmt.Sprintf("logged certificate #%d is not cert_data #%d of the message", i, i)
							break
						}
					}
				}
			}
		}
		return out
	case "fin":
		l, ok := tls.ZVC28FinishedLog(zv.UnHex(f[2]))
		if !ok {
			return zv.Out{Go: "err", Tags: []string{"fin:err"}}
		}
		return zv.Out{Go: "vd=" + hx(l.VerifyData), Tags: []string{"fin:ok"}}
	case "skx":
		// c28 skx <kex> <vers> <keytype> <sigalgs> <ptok> <cr> <sr> <certDER> <msg>
		kex := f[2]
		vers, _ := strconv.Atoi(f[3])
		msg := zv.UnHex(f[10])
		l, parsed, verr := tls.ZVC28SKXLog(kex, uint16(vers), zv.UnHex(f[7]), zv.UnHex(f[8]), parseU16List(f[5]), zv.UnHex(f[9]), msg)
		if !parsed {
			return zv.Out{Go: "err", Tags: []string{"skx:" + kex + ":err"}}
		}
		out := zv.Out{Go: fmtSKX(l), Tags: []string{"skx:" + kex + ":ok", fmt.Sprintf("skx:ver=%04x", vers)}}
		if l.Signature != nil {
			// T3 on the single message: valid flag agrees with the verification outcome; raw signature complete
			if l.Signature.Valid != (verr == "") {
				out.Viol = fmt.Sprintf("signature.valid=%v but verification error=%q", l.Signature.Valid, verr)
			}
			if verr != "" {
				out.Tags = append(out.Tags, "skx:sig-invalid")
			}
			if w, err := parseSKX(msg[4:], kex != "dhe-rsa", vers >= 0x0303); err == nil {
				if !bytes.Equal(w.sig, l.Signature.Raw) && (kex != "dhe-rsa" || l.Signature.Raw != nil) {
					out.Viol = fmt.Sprintf("logged signature has %d bytes, wire signature has %d", len(l.Signature.Raw), len(w.sig))
				}
				if w.hasAlg && l.Signature.SigHashExtension != nil {
					if v := sigHashViolation(l, w); v != "" {
						out.Viol = v
					}
				}
			}
		}
		return out
	}
	return zv.Out{Go: "bad-op"}
}

// sigHashViolation: the JSON names of the logged signature_and_hash_type must be those named by the two wire bytes.
func sigHashViolation(l *tls.ServerKeyExchange, w *wSKX) string {
	js, err := json.Marshal(l.Signature)
	if err != nil {
		return "json: " + err.Error()
	}
	var m struct {
		SH struct {
			Sig  string `json:"signature_algorithm"`
			Hash string `json:"hash_algorithm"`
		} `json:"signature_and_hash_type"`
	}
	if err := json.Unmarshal(js, &m); err != nil {
		return "json: " + err.Error()
	}
	wantH := wireHashName(w.hashB, w.sigB)
	if wantH == "?" {
		return ""
	}
	// byte 0 = 8 is literally "intrinsic" in the TLS HashAlgorithm registry; the RSA-PSS schemes 08 04..06 also name a hash
	if m.SH.Hash != wantH && !(w.hashB == 8 && m.SH.Hash == "intrinsic") {
		return fmt.Sprintf("ServerKeyExchange names SignatureAndHashAlgorithm %02x %02x (hash %s) on the wire, log says hash_algorithm=%s", w.hashB, w.sigB, wantH, m.SH.Hash)
	}
	// "unknown.<n>" with the wire value is a faithful rendering of an id zcrypto has no name for
	ok := wireSigNames(w.hashB, w.sigB)[0] == "?" || m.SH.Sig == fmt.Sprintf("unknown.%d", w.sigB)
	for _, n := range wireSigNames(w.hashB, w.sigB) {
		if n == m.SH.Sig {
			ok = true
		}
	}
	if !ok {
		return fmt.Sprintf("ServerKeyExchange names SignatureAndHashAlgorithm %02x %02x (%v) on the wire, log says signature_algorithm=%s", w.hashB, w.sigB, wireSigNames(w.hashB, w.sigB), m.SH.Sig)
	}
	return ""
}

// ---- T3: whole handshake ------------------------------------------------------------------------------------

type checker struct {
	viol []string
	tags []string
}

func (c *checker) bad(f string, a ...any) { c.viol = append(c.viol, fmt.Sprintf(f, a...)) }
func (c *checker) tag(t string)           { c.tags = append(c.tags, t) }
func (c *checker) eqBytes(what string, log, wire []byte) {
	if !bytes.Equal(log, wire) {
		c.bad("%s: log has %d bytes %s, wire has %d bytes %s", what, len(log), short(log), len(wire), short(wire))
	}
}
func (c *checker) eqInt(what string, log, wire int) {
	if log != wire {
		c.bad("%s: log %d, wire %d", what, log, wire)
	}
}
func (c *checker) eqBool(what string, log, wire bool) {
	if log != wire {
		c.bad("%s: log %v, wire %v", what, log, wire)
	}
}

func short(b []byte) string {
	s := hx(b)
	if len(s) > 24 {
		return s[:24] + "…"
	}
	return s
}

func u16list(b []byte) []int {
	var out []int
	for i := 0; i+1 < len(b); i += 2 {
		out = append(out, int(b[i])<<8|int(b[i+1]))
	}
	return out
}

func eqIntList[T ~uint16 | ~uint8](a []T, b []int) bool {
	if len(a) != len(b) {
		return false
	}
	for i := range a {
		if int(a[i]) != b[i] {
			return false
		}
	}
	return true
}

func checkRun(r *run) *checker {
	c := &checker{}
	res := r.res
	if res.Client.Panic != nil || res.Server.Panic != nil {
		c.bad("panic: client %v server %v", res.Client.Panic, res.Server.Panic)
		return c
	}
	if res.Client.Err != nil || res.Server.Err != nil {
		c.tag("hs:failed")
		c.bad("handshake of a valid configuration failed: client %v, server %v", res.Client.Err, res.Server.Err)
		return c
	}
	log := res.Client.Conn.GetHandshakeLog()
	if log == nil {
		c.bad("no handshake log")
		return c
	}
	if _, err := json.Marshal(log); err != nil {
		c.bad("json.Marshal(log): %v", err)
	}
	out, _ := plaintextHandshake(res.ClientOut)
	in, _ := plaintextHandshake(res.ClientIn)
	ver := r.s.ver
	st := res.Client.State
	c.tag(fmt.Sprintf("hs:ver=%04x", st.Version))
	c.tag(fmt.Sprintf("hs:suite=%04x", st.CipherSuite))
	if r.resumed {
		c.tag("hs:resumed")
	}

	// ---- ClientHello
	chm := findMsg(out, 1)
	var ch *wHello
	if chm == nil {
		c.bad("no ClientHello on the wire")
		return c
	}
	ch, err := parseClientHello(chm.body)
	if err != nil || log.ClientHello == nil {
		c.bad("ClientHello unparsable or not logged")
		return c
	}
	{
		l := log.ClientHello
		c.eqInt("client_hello.version", int(l.Version), ch.vers)
		c.eqBytes("client_hello.random", l.Random, ch.random)
		c.eqBytes("client_hello.session_id", l.SessionID, ch.sid)
		if !eqIntList(l.CipherSuites, ch.suites) {
			c.bad("client_hello.cipher_suites: log %v wire %v", l.CipherSuites, ch.suites)
		}
		var comps []int
		for _, x := range ch.comps {
			comps = append(comps, int(x))
		}
		if !eqIntList(l.CompressionMethods, comps) {
			c.bad("client_hello.compression_methods differ")
		}
		d, has := ch.ext(5)
		c.eqBool("client_hello.ocsp_stapling", l.OcspStapling, has && len(d) > 0 && d[0] == 1)
		tk, has := ch.ext(35)
		c.eqBool("client_hello.ticket", l.TicketSupported, has)
		if len(tk) > 0 {
			c.tag("ch:ticket-sent")
			if l.SessionTicket == nil {
				c.bad("client_hello.session_ticket: %d-byte ticket on the wire, none logged", len(tk))
			} else {
				c.eqInt("client_hello.session_ticket.length", l.SessionTicket.Length, len(tk))
				c.eqBytes("client_hello.session_ticket.value", l.SessionTicket.Value, tk)
			}
		} else if l.SessionTicket != nil {
			c.bad("client_hello.session_ticket logged, none on the wire")
		}
		_, has = ch.ext(23)
		c.eqBool("client_hello.extended_master_secret", l.ExtendedMasterSecret, has)
		_, has = ch.ext(15)
		c.eqBool("client_hello.heartbeat", l.HeartbeatSupported, has)
		_, has = ch.ext(18)
		c.eqBool("client_hello.scts", l.Scts, has)
		if d, has := ch.ext(0xff01); has && len(d) > 1 != l.SecureRenegotiation {
			c.bad("client_hello.secure_renegotiation: log %v, renegotiated_connection on the wire has %d bytes", l.SecureRenegotiation, len(d)-1)
		} else if !has && l.SecureRenegotiation {
			c.bad("client_hello.secure_renegotiation logged, no renegotiation_info on the wire")
		}
		// extended_random (0x0028): logged bytes are the extension's vector
		if d, has := ch.ext(0x28); has {
			if len(d) < 2 || !bytes.Equal(l.ExtendedRandom, d[2:]) {
				c.bad("client_hello.extended_random: log %s, wire extension data %s", short(l.ExtendedRandom), short(d))
			}
			c.tag("ch:extended-random")
		} else if len(l.ExtendedRandom) != 0 {
			c.bad("client_hello.extended_random logged, no extension 0x0028 on the wire")
		}
		if _, has := ch.ext(18); l.SctEnabled && !has {
			c.bad("client_hello.sct_enabled logged, no signed_certificate_timestamp extension on the wire")
		}
		// whatever is logged as an unknown extension must be an extension that was sent
		for i, u := range l.UnknownExtensions {
			found := false
			for _, e := range ch.exts {
				if len(u) >= 4 && int(u[0])<<8|int(u[1]) == e.id && bytes.Equal(u[4:], e.data) {
					found = true
				}
			}
			if !found {
				c.bad("client_hello.unknown_extensions[%d] = %s is not an extension of the ClientHello on the wire", i, short(u))
			}
		}
		// no extension twice (a log field could then describe only one of them)
		seen := map[int]bool{}
		for _, e := range ch.exts {
			if seen[e.id] {
				c.bad("ClientHello on the wire carries extension %d twice", e.id)
			}
			seen[e.id] = true
		}
		sni := ""
		if d, has := ch.ext(0); has && len(d) >= 5 {
			sni = string(d[5:])
		}
		if l.ServerName != sni {
			c.bad("client_hello.server_name: log %q wire %q", l.ServerName, sni)
		}
		if d, has := ch.ext(10); has && len(d) >= 2 {
			if !eqIntList(l.SupportedCurves, u16list(d[2:])) {
				c.bad("client_hello.supported_curves: log %v wire %v", l.SupportedCurves, u16list(d[2:]))
			}
		} else if len(l.SupportedCurves) != 0 {
			c.bad("client_hello.supported_curves logged, none on the wire")
		}
		if d, has := ch.ext(11); has && len(d) >= 1 {
			var pts []int
			for _, x := range d[1:] {
				pts = append(pts, int(x))
			}
			if !eqIntList(l.SupportedPoints, pts) {
				c.bad("client_hello.supported_point_formats: log %v wire %v", l.SupportedPoints, pts)
			}
		} else if len(l.SupportedPoints) != 0 {
			c.bad("client_hello.supported_point_formats logged, none on the wire")
		}
		if d, has := ch.ext(43); has && len(d) >= 1 {
			if !eqIntList(l.SupportedVersions, u16list(d[1:])) {
				c.bad("client_hello.supported_versions: log %v wire %v", l.SupportedVersions, u16list(d[1:]))
			}
		} else if len(l.SupportedVersions) != 0 {
			c.bad("client_hello.supported_versions logged, none on the wire")
		}
		if d, has := ch.ext(16); has && len(d) >= 2 {
			var protos []string
			p := &rd{b: d[2:]}
			for !p.empty() && !p.bad {
				protos = append(protos, string(p.vec8()))
			}
			if strings.Join(protos, ",") != strings.Join(l.AlpnProtocols, ",") {
				c.bad("client_hello.alpn_protocols: log %v wire %v", l.AlpnProtocols, protos)
			}
			c.tag("ch:alpn")
		} else if len(l.AlpnProtocols) != 0 {
			c.bad("client_hello.alpn_protocols logged, none on the wire")
		}
		if d, has := ch.ext(13); has && len(d) >= 2 {
			schemes := u16list(d[2:])
			js, _ := json.Marshal(l.SignatureAndHashes)
			var names []struct {
				Sig  string `json:"signature_algorithm"`
				Hash string `json:"hash_algorithm"`
			}
			json.Unmarshal(js, &names)
			if len(names) != len(schemes) {
				c.bad("client_hello.signature_and_hashes: %d logged, %d schemes on the wire", len(names), len(schemes))
			} else {
				for i, s := range schemes {
					wh := wireHashName(s>>8, s&0xff)
					if s == 0x0807 {
						// Ed25519 names no separate hash; zcrypto's table logs sha256 ("TODO: is it correct") — reported, not failed
						if names[i].Hash != "intrinsic" {
							c.tag("note:ch-ed25519-logged-with-hash-" + names[i].Hash)
						}
						continue
					}
					if wh != "?" && names[i].Hash != wh {
						c.bad("client_hello.signature_and_hashes[%d]: wire scheme %04x names hash %s, log says %s", i, s, wh, names[i].Hash)
					}
					ws := wireSigNames(s>>8, s&0xff)
					okSig := ws[0] == "?"
					if ws[0] == "rsapss" && names[i].Sig == "rsa" {
						// zcrypto's ClientHello table (common.go signatureAlgorithms) files the rsa_pss_rsae schemes under the
						// RSA key family; coarse but not wrong — reported as a note, not failed
						okSig = true
						c.tag("note:ch-rsapss-logged-as-rsa")
					}
					for _, n := range ws {
						if n == names[i].Sig {
							okSig = true
						}
					}
					if !okSig {
						c.bad("client_hello.signature_and_hashes[%d]: wire scheme %04x names signature %v, log says %s", i, s, ws, names[i].Sig)
					}
				}
			}
		} else if len(l.SignatureAndHashes) != 0 {
			c.bad("client_hello.signature_and_hashes logged, no signature_algorithms on the wire")
		}
	}

	c.checkCHReparse(log.ClientHello, chm.raw)
	c.checkCHOptions(r.s, r, ch, log.ClientHello)

	// ---- ServerHello
	shm := findMsg(in, 2)
	if shm == nil || log.ServerHello == nil {
		c.bad("ServerHello missing on the wire or not logged")
		return c
	}
	sh, err := parseServerHello(shm.body)
	if err != nil {
		c.bad("ServerHello unparsable")
		return c
	}
	{
		l := log.ServerHello
		c.eqInt("server_hello.version", int(l.Version), sh.vers)
		c.eqBytes("server_hello.random", l.Random, sh.random)
		c.eqBytes("server_hello.session_id", l.SessionID, sh.sid)
		c.eqInt("server_hello.cipher_suite", int(l.CipherSuite), sh.suite)
		c.eqInt("server_hello.compression_method", int(l.CompressionMethod), sh.comp)
		_, has := sh.ext(5)
		c.eqBool("server_hello.ocsp_stapling", l.OcspStapling, has)
		_, has = sh.ext(35)
		c.eqBool("server_hello.ticket", l.TicketSupported, has)
		_, has = sh.ext(23)
		c.eqBool("server_hello.extended_master_secret", l.ExtendedMasterSecret, has)
		_, has = sh.ext(15)
		c.eqBool("server_hello.heartbeat", l.HeartbeatSupported, has)
		if d, has := sh.ext(0xff01); has && len(d) > 1 != l.SecureRenegotiation {
			c.bad("server_hello.secure_renegotiation: log %v, wire data %d bytes", l.SecureRenegotiation, len(d)-1)
		}
		var ids []int
		for _, e := range sh.exts {
			ids = append(ids, e.id)
		}
		if !eqIntList(l.ExtensionIdentifiers, ids) {
			c.bad("server_hello.extension_identifiers: log %v wire %v", l.ExtensionIdentifiers, ids)
		}
		if d, has := sh.ext(43); has && len(d) == 2 {
			if l.SupportedVersions == nil || int(l.SupportedVersions.SelectedVersion) != int(d[0])<<8|int(d[1]) {
				c.bad("server_hello.supported_versions: wire %x, log %+v", d, l.SupportedVersions)
			}
		} else if l.SupportedVersions != nil {
			c.bad("server_hello.supported_versions logged, none on the wire")
		}
		if d, has := sh.ext(51); has && len(d) >= 2 {
			if l.KeyShare == nil || l.KeyShare.KeyExchange == nil || int(*l.KeyShare.KeyExchange) != int(d[0])<<8|int(d[1]) {
				c.bad("server_hello.key_share group: wire %x, log %+v", d[:2], l.KeyShare)
			}
			c.tag(fmt.Sprintf("sh:keyshare=%d", int(d[0])<<8|int(d[1])))
		} else if l.KeyShare != nil {
			c.bad("server_hello.key_share logged, none on the wire")
		}
		wireALPN := ""
		if d, has := sh.ext(16); has && len(d) >= 3 {
			wireALPN = string(d[3:])
		}
		if st.Version == tls.VersionTLS13 {
			// sent in EncryptedExtensions (not visible): compare with what the server negotiated
			wireALPN = res.Server.State.NegotiatedProtocol
		}
		if l.AlpnProtocol != wireALPN {
			c.bad("server_hello.alpn_protocol: log %q, sent %q", l.AlpnProtocol, wireALPN)
		}
		if wireALPN != "" {
			c.tag("sh:alpn")
		}
	}
	if int(st.Version) != int(verNum[ver]) {
		c.bad("negotiated version %04x, configured %04x", st.Version, verNum[ver])
	}

	// ---- certificates
	if st.Version == tls.VersionTLS13 {
		if r.resumed {
			if log.ServerCertificates != nil {
				c.bad("server_certificates logged on a PSK resumption (no Certificate message was exchanged)")
			}
		} else if log.ServerCertificates == nil {
			c.bad("server_certificates not logged")
		} else {
			// the Certificate message is encrypted: compare with the chain the server was configured to send
			c.checkCerts(log.ServerCertificates, r.chain, st.PeerCertificates, "chain the server sent (TLS 1.3)")
		}
		c.tag("hs:tls13")
		// nothing else of a TLS 1.3 handshake is logged or visible
		if log.ServerKeyExchange != nil || log.ClientKeyExchange != nil {
			c.bad("key exchange records logged for TLS 1.3")
		}
		return c
	}
	certm := findMsg(in, 11)
	if certm != nil {
		certs, err := parseCertList(certm.body)
		if err != nil || len(certs) == 0 {
			c.bad("Certificate message unparsable")
		} else if log.ServerCertificates == nil {
			c.bad("server_certificates not logged")
		} else {
			c.checkCerts(log.ServerCertificates, certs, st.PeerCertificates, "Certificate message on the wire")
			if len(certs) != len(r.chain) {
				c.bad("Certificate message carries %d certificates, the server was configured with %d", len(certs), len(r.chain))
			}
		}
	} else if log.ServerCertificates != nil {
		c.bad("server_certificates logged, no Certificate message on the wire")
	}

	// ---- ServerKeyExchange
	si := suiteByID(uint16(sh.suite))
	sha384 := si != nil && si.sha384
	skxm := findMsg(in, 12)
	if skxm != nil {
		if si == nil {
			c.tag("skx:unknown-suite")
		} else if log.ServerKeyExchange == nil {
			c.bad("server_key_exchange on the wire but not logged")
		} else {
			c.checkSKX(log.ServerKeyExchange, skxm.body, si, ver, ch, sh)
		}
	} else if log.ServerKeyExchange != nil {
		c.bad("server_key_exchange logged, none on the wire")
	}

	// ---- ClientKeyExchange
	ckxm := findMsg(out, 16)
	if ckxm != nil && si != nil {
		l := log.ClientKeyExchange
		if l == nil {
			c.bad("client_key_exchange on the wire but not logged")
		} else {
			b := ckxm.body
			switch si.kex {
			case "rsa":
				if l.RSAParams == nil || len(b) < 2 {
					c.bad("client_key_exchange.rsa_params missing")
				} else {
					c.eqBytes("client_key_exchange.rsa_params.encrypted_pre_master_secret", l.RSAParams.EncryptedPMS, b[2:])
					c.eqInt("client_key_exchange.rsa_params.length", int(l.RSAParams.Length), len(b)-2)
				}
			case "dhe-rsa":
				if l.DHParams == nil || l.DHParams.ClientPublic == nil || len(b) < 2 {
					c.bad("client_key_exchange.dh_params missing")
				} else if l.DHParams.ClientPublic.Cmp(new(big.Int).SetBytes(b[2:])) != 0 {
					c.bad("client_key_exchange.dh_params.client_public differs from the wire")
				}
			default:
				if l.ECDHParams == nil || l.ECDHParams.ClientPublic == nil || len(b) < 1 {
					c.bad("client_key_exchange.ecdh_params missing")
				} else {
					c.checkPoint("client_key_exchange.ecdh_params.client_public", int(l.ECDHParams.TLSCurveID), l.ECDHParams.ClientPublic.X, l.ECDHParams.ClientPublic.Y, b[1:])
				}
			}
		}
	} else if ckxm == nil && log.ClientKeyExchange != nil {
		c.bad("client_key_exchange logged, none on the wire")
	}

	// ---- session ticket
	nstm := findMsg(in, 4)
	if nstm != nil {
		t, err := parseNewSessionTicket(nstm.body)
		if err != nil {
			c.bad("NewSessionTicket unparsable")
		} else if log.SessionTicket == nil {
			c.bad("session_ticket on the wire (%d bytes) but not logged", len(t.ticket))
		} else {
			c.eqBytes("session_ticket.value", log.SessionTicket.Value, t.ticket)
			c.eqInt("session_ticket.length", log.SessionTicket.Length, len(t.ticket))
			c.eqInt("session_ticket.lifetime_hint", int(log.SessionTicket.LifetimeHint), int(t.lifetime))
			c.tag("hs:new-ticket")
		}
	} else if log.SessionTicket != nil {
		// no NewSessionTicket in this handshake: the only ticket exchanged is the one the client presented
		tk, _ := ch.ext(35)
		if !r.resumed || !bytes.Equal(log.SessionTicket.Value, tk) {
			c.bad("session_ticket logged (%d bytes) but no NewSessionTicket on the wire and it is not the ticket the client presented", len(log.SessionTicket.Value))
		}
	}

	// ---- key material and Finished
	km := log.KeyMaterial
	master := r.keylog.master(ch.random)
	rnd := append(append([]byte{}, ch.random...), sh.random...)
	if km == nil || km.MasterSecret == nil {
		c.bad("key_material.master_secret not logged")
		return c
	}
	ms := km.MasterSecret.Value
	c.eqInt("key_material.master_secret.length", km.MasterSecret.Length, len(ms))
	if !r.resumed {
		if master == nil {
			c.bad("no CLIENT_RANDOM line in the key log")
		} else {
			c.eqBytes("key_material.master_secret vs key log", ms, master)
		}
		if km.PreMasterSecret == nil || len(km.PreMasterSecret.Value) == 0 {
			c.bad("key_material.pre_master_secret not logged on a full handshake")
		} else {
			pre := km.PreMasterSecret.Value
			c.eqInt("key_material.pre_master_secret.length", km.PreMasterSecret.Length, len(pre))
			c.eqBytes("master secret derived from the logged pre_master_secret", prf(ver, sha384, pre, "master secret", rnd, 48), ms)
			if si != nil && si.kex == "rsa" {
				if len(pre) != 48 || int(pre[0])<<8|int(pre[1]) != ch.vers {
					c.bad("RSA pre_master_secret: length %d, version bytes %x, ClientHello version %04x", len(pre), pre[:2], ch.vers)
				}
			}
		}
	}
	// the connection really used this master secret: exporter value
	ekmSeed := append(append([]byte{}, rnd...), 0, 3, 'c', 't', 'x')
	c.eqBytes("ExportKeyingMaterial vs PRF(logged master secret)", res.Client.EKM, prf(ver, sha384, ms, "zv exporter", ekmSeed, 32))
	c.eqBytes("client and server exporter values", res.Client.EKM, res.Server.EKM)

	// Finished: recompute from the wire transcript and the logged master secret
	var tr [][]byte
	tr = append(tr, chm.raw)
	if log.ClientFinished == nil || log.ServerFinished == nil {
		c.bad("finished messages not logged")
		return c
	}
	cf := append([]byte{20, 0, 0, byte(len(log.ClientFinished.VerifyData))}, log.ClientFinished.VerifyData...)
	sf := append([]byte{20, 0, 0, byte(len(log.ServerFinished.VerifyData))}, log.ServerFinished.VerifyData...)
	if r.resumed {
		for _, m := range in {
			tr = append(tr, m.raw)
		}
		c.eqBytes("server_finished.verify_data vs PRF over the wire transcript", log.ServerFinished.VerifyData, prf(ver, sha384, ms, "server finished", transcriptHash(ver, sha384, tr), 12))
		tr = append(tr, sf)
		c.eqBytes("client_finished.verify_data vs PRF over the wire transcript", log.ClientFinished.VerifyData, prf(ver, sha384, ms, "client finished", transcriptHash(ver, sha384, tr), 12))
	} else {
		for _, m := range in {
			if m.typ != 4 {
				tr = append(tr, m.raw)
			}
		}
		for _, m := range out[1:] {
			tr = append(tr, m.raw)
		}
		c.eqBytes("client_finished.verify_data vs PRF over the wire transcript", log.ClientFinished.VerifyData, prf(ver, sha384, ms, "client finished", transcriptHash(ver, sha384, tr), 12))
		tr = append(tr, cf)
		if nstm != nil {
			tr = append(tr, nstm.raw)
		}
		c.eqBytes("server_finished.verify_data vs PRF over the wire transcript", log.ServerFinished.VerifyData, prf(ver, sha384, ms, "server finished", transcriptHash(ver, sha384, tr), 12))
	}
	// and with what the server decrypted / sent
	if sl := res.Server.Conn.GetHandshakeLog(); sl != nil && sl.ClientFinished != nil && sl.ServerFinished != nil {
		c.eqBytes("client_finished vs the Finished the server received", log.ClientFinished.VerifyData, sl.ClientFinished.VerifyData)
		c.eqBytes("server_finished vs the Finished the server sent", log.ServerFinished.VerifyData, sl.ServerFinished.VerifyData)
	}
	return c
}

// checkCerts: leaf and chain of the log (raw bytes and the parsed certificate attached to each entry) are, entry by
// entry and in order, the certificates the server sent; so are the peer certificates of the connection state.
func (c *checker) checkCerts(l *tls.Certificates, sent [][]byte, peer []*x509.Certificate, what string) {
	c.tag(fmt.Sprintf("cert:sent=%d", len(sent)))
	if len(sent) == 0 {
		c.bad("no certificates sent")
		return
	}
	c.eqBytes("server_certificates.certificate.raw vs "+what, l.Certificate.Raw, sent[0])
	if l.Certificate.Parsed == nil {
		c.bad("server_certificates.certificate.parsed missing")
	} else if !bytes.Equal(l.Certificate.Parsed.Raw, sent[0]) {
		c.bad("server_certificates.certificate.parsed is not the parse of certificate #0 of the %s", what)
	}
	c.eqInt("server_certificates.chain length", len(l.Chain), len(sent)-1)
	for i := range l.Chain {
		e := l.Chain[i]
		if i+1 < len(sent) {
			c.eqBytes(fmt.Sprintf("server_certificates.chain[%d].raw vs certificate #%d of the %s", i, i+1, what), e.Raw, sent[i+1])
		}
		if e.Parsed == nil {
			c.bad("server_certificates.chain[%d].parsed missing", i)
			continue
		}
		if !bytes.Equal(e.Parsed.Raw, e.Raw) {
			c.bad("server_certificates.chain[%d]: raw and parsed are different certificates (parsed subject %q)", i, e.Parsed.Subject.String())
		}
		if i+1 < len(sent) && !bytes.Equal(e.Parsed.Raw, sent[i+1]) {
			c.bad("server_certificates.chain[%d].parsed is not the parse of certificate #%d of the %s", i, i+1, what)
		}
	}
	// every certificate sent appears exactly once in leaf ‖ chain (nothing dropped, nothing duplicated)
	logged := [][]byte{l.Certificate.Raw}
	for _, e := range l.Chain {
		logged = append(logged, e.Raw)
	}
	for i, s := range sent {
		n := 0
		for _, x := range logged {
			if bytes.Equal(x, s) {
				n++
			}
		}
		if n != 1 {
			c.bad("certificate #%d of the %s appears %d times in the logged leaf and chain", i, what, n)
		}
	}
	// ConnectionState().PeerCertificates
	c.eqInt("ConnectionState().PeerCertificates length", len(peer), len(sent))
	for i := 0; i < len(peer) && i < len(sent); i++ {
		if peer[i] == nil || !bytes.Equal(peer[i].Raw, sent[i]) {
			c.bad("ConnectionState().PeerCertificates[%d] is not certificate #%d of the %s", i, i, what)
		}
	}
	if js, err := json.Marshal(l); err != nil {
		c.bad("json.Marshal(server_certificates): %v", err)
	} else {
		// the JSON form carries the same raw bytes, in the same order
		var m struct {
			Certificate struct{ Raw []byte `json:"raw"` } `json:"certificate"`
			Chain       []struct{ Raw []byte `json:"raw"` } `json:"chain"`
		}
		if err := json.Unmarshal(js, &m); err != nil {
			c.bad("server_certificates JSON does not parse: %v", err)
		} else {
			c.eqBytes("server_certificates JSON certificate.raw", m.Certificate.Raw, sent[0])
			c.eqInt("server_certificates JSON chain length", len(m.Chain), len(sent)-1)
			for i := 0; i < len(m.Chain) && i+1 < len(sent); i++ {
				c.eqBytes(fmt.Sprintf("server_certificates JSON chain[%d].raw", i), m.Chain[i].Raw, sent[i+1])
			}
		}
	}
}

// checkCHReparse: the logged ClientHello is the log record of the ClientHello that was sent, i.e. feeding the bytes
// on the wire to the real parser + MakeLog (the function the Lean model mirrors, see the T2 lines `c28 ch`) gives the
// same record, field for field.
func (c *checker) checkCHReparse(l *tls.ClientHello, raw []byte) {
	w, ok := tls.ZVC28ClientHelloLog(append([]byte(nil), raw...))
	if !ok {
		c.bad("the ClientHello on the wire is rejected by clientHelloMsg.unmarshal")
		return
	}
	if a, b := fmtCH(l), fmtCH(w); a != b {
		c.bad("client_hello log differs from the log record of the ClientHello bytes on the wire: %s", diffFields(a, b))
		return
	}
	ja, _ := json.Marshal(l)
	jb, _ := json.Marshal(w)
	if !bytes.Equal(ja, jb) {
		c.bad("client_hello JSON differs from the JSON of the log record of the wire bytes: log %s wire %s", ja, jb)
	}
}

func diffFields(a, b string) string {
	fa, fb := strings.Fields(a), strings.Fields(b)
	var d []string
	for i := 0; i < len(fa) && i < len(fb); i++ {
		if fa[i] != fb[i] {
			x, y := fa[i], fb[i]
			if len(x) > 60 {
				x = x[:60] + "…"
			}
			if len(y) > 60 {
				y = y[:60] + "…"
			}
			d = append(d, fmt.Sprintf("log %s / wire %s", x, y))
		}
	}
	return strings.Join(d, "; ")
}

// checkCHOptions: what the scenario's configuration is documented to put into the ClientHello is on the wire (so the
// scenario really exercises the option), and log and wire agree on it. Only effects the configuration promises
// unconditionally are asserted here; everything else is covered by the log-vs-wire comparison.
func (c *checker) checkCHOptions(s scen, r *run, ch *wHello, l *tls.ClientHello) {
	for i := 0; i < optCount; i++ {
		if s.opts&(1<<i) != 0 {
			c.tag("opt:" + optNames[i])
		}
	}
	_, wireTicket := ch.ext(35)
	if wireTicket {
		c.tag("ch:ticket-ext")
	}
	if s.has(optExternal) {
		c.tag("opt:external-hello")
		for i := 0; i < extCount; i++ {
			if s.vari&(1<<i) != 0 {
				c.tag("ext-hello:" + extNames[i])
			}
		}
		for _, e := range []struct{ bit, id int }{{extEMS, 23}, {extExtRandom, 0x28}, {extHeartbeat, 15}, {extUnknown, 0x1234}, {extTicket, 35}} {
			if _, has := ch.ext(e.id); has && s.vari&e.bit != 0 {
				c.tag(fmt.Sprintf("ext-hello:sent-%d", e.id))
			}
		}
		return
	}
	if s.has(optForceTicket) {
		if !wireTicket {
			c.bad("ForceSessionTicketExt set but no session_ticket extension on the wire")
		}
		if !l.TicketSupported {
			c.bad("ForceSessionTicketExt set, session_ticket extension sent, log says ticket=false")
		}
	}
	if s.has(optCurves) || s.has(optEmptyCurves) {
		var want []int
		if !s.has(optEmptyCurves) {
			for _, x := range curveVariants[s.vari%len(curveVariants)] {
				want = append(want, int(x))
			}
		}
		d, _ := ch.ext(10)
		var got []int
		if len(d) >= 2 {
			got = u16list(d[2:])
		}
		if fmt.Sprint(got) != fmt.Sprint(want) {
			c.bad("CurvePreferences %v configured, supported_groups on the wire %v", want, got)
		}
		if !eqIntList(l.SupportedCurves, want) {
			c.bad("client_hello.supported_curves: log %v, configured and sent %v", l.SupportedCurves, want)
		}
	}
	// explicit client random: if it is honoured it is both on the wire and in the log (compared above); tag which
	if s.has(optRandom) {
		if bytes.Equal(ch.random, clientRandomFor(s)) {
			c.tag("ch:client-random-honoured")
		} else {
			c.tag("ch:client-random-ignored")
		}
	}
}

func curveOf(id int) elliptic.Curve {
	switch id {
	case 23:
		return elliptic.P256()
	case 24:
		return elliptic.P384()
	case 25:
		return elliptic.P521()
	}
	return nil
}

func (c *checker) checkPoint(what string, curve int, x, y *big.Int, wire []byte) {
	if curve == 29 {
		if x == nil || x.Cmp(new(big.Int).SetBytes(wire)) != 0 || y != nil {
			c.bad("%s: x25519 share differs from the wire", what)
		}
		return
	}
	cv := curveOf(curve)
	if cv == nil {
		c.tag("skx:unknown-curve")
		return
	}
	n := (cv.Params().BitSize + 7) / 8
	if len(wire) != 1+2*n || wire[0] != 4 {
		c.bad("%s: wire point is not an uncompressed point of curve %d", what, curve)
		return
	}
	if x == nil || y == nil || x.Cmp(new(big.Int).SetBytes(wire[1:1+n])) != 0 || y.Cmp(new(big.Int).SetBytes(wire[1+n:])) != 0 {
		c.bad("%s: coordinates differ from the wire point", what)
	}
}

func (c *checker) checkSKX(l *tls.ServerKeyExchange, body []byte, si *suiteInfo, ver int, ch, sh *wHello) {
	ecdhe := si.kex != "dhe-rsa"
	w, err := parseSKX(body, ecdhe, ver >= 12)
	if err != nil {
		c.bad("ServerKeyExchange unparsable")
		return
	}
	c.eqBytes("server_key_exchange raw", l.Raw, body)
	if ecdhe {
		if l.ECDHParams == nil || l.ECDHParams.ServerPublic == nil {
			c.bad("server_key_exchange.ecdh_params missing")
			return
		}
		c.eqInt("server_key_exchange.ecdh_params.curve_id", int(l.ECDHParams.TLSCurveID), w.curve)
		c.checkPoint("server_key_exchange.ecdh_params.server_public", w.curve, l.ECDHParams.ServerPublic.X, l.ECDHParams.ServerPublic.Y, w.point)
		c.tag(fmt.Sprintf("skx:curve=%d", w.curve))
	} else {
		d := l.DHParams
		if d == nil || d.Prime == nil || d.Generator == nil || d.ServerPublic == nil {
			c.bad("server_key_exchange.dh_params missing")
			return
		}
		if d.Prime.Cmp(new(big.Int).SetBytes(w.p)) != 0 || d.Generator.Cmp(new(big.Int).SetBytes(w.g)) != 0 || d.ServerPublic.Cmp(new(big.Int).SetBytes(w.ys)) != 0 {
			c.bad("server_key_exchange.dh_params differ from the wire")
		}
		c.tag("skx:dhe")
	}
	s := l.Signature
	if s == nil {
		c.bad("server_key_exchange.signature not logged")
		return
	}
	c.eqBytes("server_key_exchange.signature.raw", s.Raw, w.sig)
	c.eqBool("server_key_exchange.signature.valid", s.Valid, true)
	c.eqInt("server_key_exchange.signature.tls_version", int(s.Version), int(verNum[ver]))
	wantType := "rsa"
	if si.kex == "ecdhe-ecdsa" {
		wantType = "ecdsa"
	}
	if s.Type != wantType {
		c.bad("server_key_exchange.signature.type %q, suite is %s", s.Type, si.kex)
	}
	if w.hasAlg != (s.SigHashExtension != nil) {
		c.bad("server_key_exchange.signature.signature_and_hash_type present=%v, on the wire=%v", s.SigHashExtension != nil, w.hasAlg)
	} else if w.hasAlg {
		c.tag(fmt.Sprintf("skx:scheme=%02x%02x", w.hashB, w.sigB))
		if v := sigHashViolation(l, w); v != "" {
			c.bad("%s", v)
		}
	}
	// digest = hash named on the wire (or the protocol default) over randoms and parameters
	signed := append(append(append([]byte{}, ch.random...), sh.random...), w.params...)
	want := digestFor(w, ver, si.kex == "ecdhe-ecdsa", signed)
	if want != nil {
		c.eqBytes("server_key_exchange.digest", l.Digest, want)
	}
}

func execHS(f []string) zv.Out {
	s := parseScen(f[2:])
	r := runScen(s)
	defer r.close()
	c := checkRun(r)
	seen := map[string]bool{}
	var tags []string
	for _, t := range c.tags {
		if !seen[t] {
			seen[t] = true
			tags = append(tags, t)
		}
	}
	o := zv.Out{Tags: tags}
	if len(c.viol) > 0 {
		o.Viol = strings.Join(c.viol, "; ")
	}
	return o
}

func exec(line string) zv.Out {
	f := strings.Fields(line)
	if len(f) < 3 {
		return zv.Out{Go: "bad-op"}
	}
	if f[1] == "hs" {
		return execHS(f)
	}
	if f[1] == "hsj" {
		return execJunk(f)
	}
	if f[1] == "sched" {
		return execSched(f)
	}
	return execMsg(f)
}

var _ = tlsrig.Host
