package c28

// Independent (harness-side) parser of a captured TLS byte stream: record layer -> plaintext handshake
// messages -> fields. Deliberately shares no code with zcrypto/tls.

import (
	"errors"
)

type record struct {
	typ  byte
	ver  uint16
	body []byte
}

func splitRecords(b []byte) (recs []record, rest []byte) {
	for len(b) >= 5 {
		n := int(b[3])<<8 | int(b[4])
		if len(b) < 5+n {
			break
		}
		recs = append(recs, record{b[0], uint16(b[1])<<8 | uint16(b[2]), b[5 : 5+n]})
		b = b[5+n:]
	}
	return recs, b
}

type hsMsg struct {
	typ  byte
	body []byte // without the 4-byte header
	raw  []byte // with header
}

// plaintextHandshake returns the handshake messages carried in handshake records before the first
// ChangeCipherSpec / application-data record (everything after that is encrypted).
func plaintextHandshake(stream []byte) (msgs []hsMsg, recVersions []uint16) {
	recs, _ := splitRecords(stream)
	var buf []byte
	for _, r := range recs {
		if r.typ == 21 { // plaintext alert: skip
			continue
		}
		if r.typ != 22 {
			break
		}
		recVersions = append(recVersions, r.ver)
		buf = append(buf, r.body...)
	}
	for len(buf) >= 4 {
		n := int(buf[1])<<16 | int(buf[2])<<8 | int(buf[3])
		if len(buf) < 4+n {
			break
		}
		msgs = append(msgs, hsMsg{buf[0], buf[4 : 4+n], buf[:4+n]})
		buf = buf[4+n:]
	}
	return
}

func findMsg(msgs []hsMsg, typ byte) *hsMsg {
	for i := range msgs {
		if msgs[i].typ == typ {
			return &msgs[i]
		}
	}
	return nil
}

type rd struct {
	b   []byte
	bad bool
}

func (r *rd) take(n int) []byte {
	if r.bad || n < 0 || len(r.b) < n {
		r.bad = true
		return nil
	}
	x := r.b[:n]
	r.b = r.b[n:]
	return x
}
func (r *rd) u8() int {
	x := r.take(1)
	if x == nil {
		return 0
	}
	return int(x[0])
}
func (r *rd) u16() int {
	x := r.take(2)
	if x == nil {
		return 0
	}
	return int(x[0])<<8 | int(x[1])
}
func (r *rd) u24() int {
	x := r.take(3)
	if x == nil {
		return 0
	}
	return int(x[0])<<16 | int(x[1])<<8 | int(x[2])
}
func (r *rd) vec8() []byte  { return r.take(r.u8()) }
func (r *rd) vec16() []byte { return r.take(r.u16()) }
func (r *rd) vec24() []byte { return r.take(r.u24()) }
func (r *rd) empty() bool   { return len(r.b) == 0 }

type wExt struct {
	id   int
	data []byte
}

type wHello struct {
	vers      int
	random    []byte
	sid       []byte
	suites    []int // ClientHello
	comps     []byte
	suite     int // ServerHello
	comp      int
	exts      []wExt
	hasExtBlk bool
}

func (h *wHello) ext(id int) ([]byte, bool) {
	for _, e := range h.exts {
		if e.id == id {
			return e.data, true
		}
	}
	return nil, false
}

var errWire = errors.New("wire parse")

func parseExts(r *rd, h *wHello) error {
	if r.empty() {
		return nil
	}
	h.hasExtBlk = true
	blk := &rd{b: r.vec16()}
	if r.bad || !r.empty() {
		return errWire
	}
	for !blk.empty() {
		id := blk.u16()
		d := blk.vec16()
		if blk.bad {
			return errWire
		}
		h.exts = append(h.exts, wExt{id, d})
	}
	return nil
}

func parseClientHello(body []byte) (*wHello, error) {
	r := &rd{b: body}
	h := &wHello{}
	h.vers = r.u16()
	h.random = r.take(32)
	h.sid = r.vec8()
	cs := &rd{b: r.vec16()}
	for !cs.empty() {
		h.suites = append(h.suites, cs.u16())
	}
	h.comps = r.vec8()
	if r.bad || cs.bad {
		return nil, errWire
	}
	return h, parseExts(r, h)
}

func parseServerHello(body []byte) (*wHello, error) {
	r := &rd{b: body}
	h := &wHello{}
	h.vers = r.u16()
	h.random = r.take(32)
	h.sid = r.vec8()
	h.suite = r.u16()
	h.comp = r.u8()
	if r.bad {
		return nil, errWire
	}
	return h, parseExts(r, h)
}

func parseCertList(body []byte) ([][]byte, error) {
	r := &rd{b: body}
	l := &rd{b: r.vec24()}
	if r.bad || !r.empty() {
		return nil, errWire
	}
	var out [][]byte
	for !l.empty() {
		c := l.vec24()
		if l.bad {
			return nil, errWire
		}
		out = append(out, c)
	}
	return out, nil
}

// parseCertList13: body of a TLS 1.3 Certificate message -> the cert_data of its entries (extensions skipped).
func parseCertList13(body []byte) ([][]byte, error) {
	r := &rd{b: body}
	ctx := r.vec8()
	l := &rd{b: r.vec24()}
	if r.bad || !r.empty() || len(ctx) != 0 {
		return nil, errWire
	}
	var out [][]byte
	for !l.empty() {
		c := l.vec24()
		l.vec16()
		if l.bad {
			return nil, errWire
		}
		out = append(out, c)
	}
	return out, nil
}

type wSKX struct {
	// ECDHE
	curveType, curve int
	point            []byte
	// DHE
	p, g, ys []byte
	params   []byte // the signed parameter bytes
	hasAlg   bool
	hashB    int // wire byte 0 of SignatureAndHashAlgorithm / SignatureScheme
	sigB     int // wire byte 1
	sig      []byte
}

func parseSKX(body []byte, ecdhe bool, tls12 bool) (*wSKX, error) {
	r := &rd{b: body}
	s := &wSKX{}
	if ecdhe {
		s.curveType = r.u8()
		s.curve = r.u16()
		s.point = r.vec8()
	} else {
		s.p = r.vec16()
		s.g = r.vec16()
		s.ys = r.vec16()
	}
	if r.bad {
		return nil, errWire
	}
	s.params = body[:len(body)-len(r.b)]
	if tls12 {
		s.hasAlg = true
		s.hashB = r.u8()
		s.sigB = r.u8()
	}
	s.sig = r.vec16()
	if r.bad || !r.empty() {
		return nil, errWire
	}
	return s, nil
}

type wTicket struct {
	lifetime uint32
	ticket   []byte
}

func parseNewSessionTicket(body []byte) (*wTicket, error) {
	r := &rd{b: body}
	x := r.take(4)
	t := r.vec16()
	if r.bad || !r.empty() {
		return nil, errWire
	}
	return &wTicket{uint32(x[0])<<24 | uint32(x[1])<<16 | uint32(x[2])<<8 | uint32(x[3]), t}, nil
}

// names of the hash named by a TLS 1.2 SignatureAndHashAlgorithm / TLS 1.3 SignatureScheme on the wire
// (RFC 5246 7.4.1.4.1, RFC 8446 4.2.3), written independently of zcrypto's tables.
func wireHashName(b0, b1 int) string {
	legacy := map[int]string{0: "none", 1: "md5", 2: "sha1", 3: "sha224", 4: "sha256", 5: "sha384", 6: "sha512"}
	if b0 <= 6 {
		return legacy[b0]
	}
	if b0 == 8 {
		switch b1 {
		case 4, 9:
			return "sha256"
		case 5, 10:
			return "sha384"
		case 6, 11:
			return "sha512"
		case 7, 8:
			return "intrinsic"
		}
	}
	return "?"
}

// signature family named on the wire, in the vocabulary of zcrypto's log
func wireSigNames(b0, b1 int) []string {
	if b0 <= 6 {
		switch b1 {
		case 1:
			return []string{"rsa", "pkcs1v15"}
		case 2:
			return []string{"dsa"}
		case 3:
			return []string{"ecdsa"}
		}
		return []string{"?"}
	}
	if b0 == 8 {
		switch b1 {
		case 4, 5, 6, 9, 10, 11:
			return []string{"rsapss"}
		case 7:
			return []string{"ed25519"}
		}
	}
	return []string{"?"}
}
