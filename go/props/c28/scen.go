package c28

import (
	"bytes"
	"crypto/hmac"
	"crypto/md5"
	"crypto/sha1"
	"crypto/sha256"
	"crypto/sha512"
	"encoding/hex"
	"fmt"
	"hash"
	"strconv"
	"strings"
	"sync"

	"github.com/zmap/zcrypto/tls"

	"zv/internal/tlsrig"
)

// ---- scenarios -----------------------------------------------------------------------------------

type scen struct {
	ver   int    // 10,11,12,13
	suite uint16 // 0 = defaults
	key   string
	alpn  int // 0 none, 1 both sides (h2,http/1.1), 2 client only
	tick  int // 0 no cache, 1 cache (ticket issued), 2 resumption (second handshake examined)
	curve int // 0 default or a CurveID forced on the server
	chain int // number of certificates the server sends (0/1 = the bare leaf; see chains.go)
	opts  int // bit set of zcrypto-specific client options (opt* below)
	vari  int // variant selector for the explicit lists / client random of opts
}

// zcrypto-specific client options that (may) change the ClientHello after / outside makeClientHello.
const (
	optForceTicket = 1 << iota // ForceSessionTicketExt
	optSCTExt                  // SignedCertificateTimestampExt
	optEMS                     // ExtendedMasterSecret
	optExtRandom               // ExtendedRandom
	optHeartbeat               // HeartbeatEnabled
	optNoOCSP                  // NoOcspStapling
	optDSA                     // ClientDSAEnabled
	optCurves                  // explicit CurvePreferences (+ ExplicitCurvePreferences)
	optPoints                  // explicit SupportedPoints
	optSigHashes               // explicit SignatureAndHashes
	optRandom                  // explicit ClientRandom
	optNoTickets               // SessionTicketsDisabled on the client (a cache, if any, is then unusable)
	optNoBuffer                // DontBufferHandshakes
	optSkipVerify              // InsecureSkipVerify (the scanner configuration)
	optEmptyCurves             // ExplicitCurvePreferences with an empty list (TLS <= 1.2, RSA key exchange only)
	optCount       = iota
)

// optExternal: the ClientHello is supplied through Config.ExternalClientHello (TLS <= 1.2): a hello captured from a
// handshake of the same scenario, plus the extensions selected by the bits of scen.vari (ext*). zcrypto parses it,
// overwrites the SNI with Config.ServerName and re-marshals it — the log must describe what that put on the wire.
const optExternal = 1 << 15

const (
	extEMS       = 1 << iota // extended_master_secret (23), empty
	extExtRandom             // extended_random (0x0028)
	extHeartbeat             // heartbeat (15)
	extUnknown               // an extension zcrypto does not know (0x1234)
	extTicket                // empty session_ticket (35), if the captured hello has none
	extSNI                   // the supplied hello names another host (zcrypto replaces it by Config.ServerName)
	extCount     = iota
)

var extNames = []string{"ems", "extended-random", "heartbeat", "unknown", "ticket", "sni"}

var optNames = []string{"force-ticket", "sct-ext", "ems", "ext-random", "heartbeat", "no-ocsp", "dsa", "curves", "points",
	"sighashes", "client-random", "no-tickets", "no-buffer", "skip-verify", "empty-curves"}

var curveVariants = [][]tls.CurveID{{23}, {29, 23}, {24, 25, 23}, {25, 29}, {23, 24}, {29}}
var pointVariants = [][]uint8{{0}, {0, 1}, {1, 0, 2}, {2, 0}}

// supersets / permutations of what a zcrypto server may choose for the ServerKeyExchange signature
var sigHashVariants = [][]tls.SigAndHash{
	{{Signature: 1, Hash: 4}, {Signature: 3, Hash: 4}, {Signature: 1, Hash: 2}, {Signature: 3, Hash: 2}, {Signature: 1, Hash: 5}, {Signature: 3, Hash: 5}, {Signature: 1, Hash: 6}, {Signature: 3, Hash: 6}},
	{{Signature: 3, Hash: 6}, {Signature: 1, Hash: 6}, {Signature: 3, Hash: 5}, {Signature: 1, Hash: 5}, {Signature: 3, Hash: 4}, {Signature: 1, Hash: 4}, {Signature: 3, Hash: 2}, {Signature: 1, Hash: 2}, {Signature: 2, Hash: 2}},
	{{Signature: 1, Hash: 2}, {Signature: 1, Hash: 4}, {Signature: 1, Hash: 5}, {Signature: 1, Hash: 6}, {Signature: 3, Hash: 2}, {Signature: 3, Hash: 4}, {Signature: 3, Hash: 5}, {Signature: 3, Hash: 6}, {Signature: 2, Hash: 4}, {Signature: 1, Hash: 1}},
}

func (s scen) String() string {
	return fmt.Sprintf("%d %04x %s %d %d %d %d %x %d", s.ver, s.suite, s.key, s.alpn, s.tick, s.curve, s.chain, s.opts, s.vari)
}

func parseScen(f []string) scen {
	v, _ := strconv.Atoi(f[0])
	su, _ := strconv.ParseUint(f[1], 16, 16)
	a, _ := strconv.Atoi(f[3])
	t, _ := strconv.Atoi(f[4])
	c, _ := strconv.Atoi(f[5])
	s := scen{ver: v, suite: uint16(su), key: f[2], alpn: a, tick: t, curve: c}
	if len(f) >= 9 {
		s.chain, _ = strconv.Atoi(f[6])
		o, _ := strconv.ParseUint(f[7], 16, 32)
		s.opts = int(o)
		s.vari, _ = strconv.Atoi(f[8])
	}
	return s
}

var verNum = map[int]uint16{10: tls.VersionTLS10, 11: tls.VersionTLS11, 12: tls.VersionTLS12, 13: tls.VersionTLS13}

type suiteInfo struct {
	id     uint16
	kex    string // rsa, ecdhe-rsa, ecdhe-ecdsa, dhe-rsa
	tls12  bool   // needs TLS 1.2
	sha384 bool
}

var suites = []suiteInfo{
	{0x002f, "rsa", false, false}, {0x0035, "rsa", false, false}, {0x000a, "rsa", false, false},
	{0x009c, "rsa", true, false}, {0x009d, "rsa", true, true}, {0x003c, "rsa", true, false},
	{0xc013, "ecdhe-rsa", false, false}, {0xc014, "ecdhe-rsa", false, false}, {0xc012, "ecdhe-rsa", false, false},
	{0xc02f, "ecdhe-rsa", true, false}, {0xc030, "ecdhe-rsa", true, true}, {0xcca8, "ecdhe-rsa", true, false}, {0xc027, "ecdhe-rsa", true, false},
	{0xc009, "ecdhe-ecdsa", false, false}, {0xc00a, "ecdhe-ecdsa", false, false},
	{0xc02b, "ecdhe-ecdsa", true, false}, {0xc02c, "ecdhe-ecdsa", true, true}, {0xcca9, "ecdhe-ecdsa", true, false}, {0xc023, "ecdhe-ecdsa", true, false},
	{0x0033, "dhe-rsa", false, false}, {0x0039, "dhe-rsa", false, false}, {0x0016, "dhe-rsa", false, false},
	{0x009e, "dhe-rsa", true, false}, {0x009f, "dhe-rsa", true, true}, {0x0067, "dhe-rsa", true, false},
}

func suiteByID(id uint16) *suiteInfo {
	for i := range suites {
		if suites[i].id == id {
			return &suites[i]
		}
	}
	return nil
}

type keyLog struct {
	mu sync.Mutex
	b  bytes.Buffer
}

func (k *keyLog) Write(p []byte) (int, error) {
	k.mu.Lock()
	defer k.mu.Unlock()
	return k.b.Write(p)
}

// master returns the CLIENT_RANDOM master secret logged for the given client random.
func (k *keyLog) master(cr []byte) []byte {
	k.mu.Lock()
	defer k.mu.Unlock()
	for _, l := range strings.Split(k.b.String(), "\n") {
		f := strings.Fields(l)
		if len(f) == 3 && f[0] == "CLIENT_RANDOM" && f[1] == hex.EncodeToString(cr) {
			m, _ := hex.DecodeString(f[2])
			return m
		}
	}
	return nil
}

type run struct {
	s       scen
	res     *tlsrig.Result
	keylog  *keyLog
	chain   [][]byte // what the server was configured to send
	resumed bool
}

func configs(s scen) (*tls.Config, *tls.Config, *keyLog) {
	p := tlsrig.GetPKI()
	kl := &keyLog{}
	v := verNum[s.ver]
	ccfg := &tls.Config{RootCAs: p.Roots, ServerName: tlsrig.Host, MinVersion: v, MaxVersion: v, KeyLogWriter: kl}
	scfg := &tls.Config{Certificates: []tls.Certificate{serverCert(s.key, s.chain)}, MinVersion: tls.VersionTLS10, MaxVersion: tls.VersionTLS13}
	if s.suite != 0 {
		ccfg.CipherSuites = []uint16{s.suite}
		ccfg.ForceSuites = true
		scfg.CipherSuites = []uint16{s.suite}
		scfg.ForceSuites = true
	}
	if s.alpn >= 1 {
		ccfg.NextProtos = []string{"h2", "http/1.1"}
	}
	if s.alpn == 1 {
		scfg.NextProtos = []string{"http/1.1", "h2"}
	}
	if s.tick >= 1 {
		ccfg.ClientSessionCache = tls.NewLRUClientSessionCache(4)
	} else {
		scfg.SessionTicketsDisabled = true
	}
	if s.curve != 0 {
		scfg.CurvePreferences = []tls.CurveID{tls.CurveID(s.curve)}
	}
	applyOpts(ccfg, s)
	return ccfg, scfg, kl
}

func (s scen) has(o int) bool { return s.opts&o != 0 }

// clientRandomFor: the explicit ClientRandom of a scenario (a recognisable, scenario dependent pattern).
func clientRandomFor(s scen) []byte {
	b := make([]byte, 32)
	for i := range b {
		b[i] = byte(0xc0 ^ (s.vari*7 + i*13 + s.ver))
	}
	return b
}

func applyOpts(c *tls.Config, s scen) {
	c.ForceSessionTicketExt = s.has(optForceTicket)
	c.SignedCertificateTimestampExt = s.has(optSCTExt)
	c.ExtendedMasterSecret = s.has(optEMS)
	c.ExtendedRandom = s.has(optExtRandom)
	c.HeartbeatEnabled = s.has(optHeartbeat)
	c.NoOcspStapling = s.has(optNoOCSP)
	c.ClientDSAEnabled = s.has(optDSA)
	if s.has(optCurves) {
		c.CurvePreferences = curveVariants[s.vari%len(curveVariants)]
		c.ExplicitCurvePreferences = s.vari%2 == 1
	}
	if s.has(optEmptyCurves) {
		c.CurvePreferences = nil
		c.ExplicitCurvePreferences = true
	}
	if s.has(optPoints) {
		c.SupportedPoints = pointVariants[s.vari%len(pointVariants)]
	}
	if s.has(optSigHashes) {
		c.SignatureAndHashes = sigHashVariants[s.vari%len(sigHashVariants)]
	}
	if s.has(optRandom) {
		c.ClientRandom = clientRandomFor(s)
	}
	if s.has(optNoTickets) {
		c.SessionTicketsDisabled = true
	}
	c.DontBufferHandshakes = s.has(optNoBuffer)
	if s.has(optSkipVerify) {
		c.InsecureSkipVerify = true
	}
}

func runScen(s scen) *run {
	ccfg, scfg, kl := configs(s)
	r := &run{s: s, keylog: kl, chain: scfg.Certificates[0].Certificate}
	if s.tick == 2 {
		first := tlsrig.Handshake(ccfg, scfg, tlsrig.Opts{KeepOpen: true})
		if first.Client.Err == nil && first.Server.Err == nil && s.ver == 13 {
			// TLS 1.3 tickets arrive after the handshake: read them
			go first.Server.Conn.Write([]byte("x"))
			buf := make([]byte, 1)
			first.Client.Conn.Read(buf)
		}
		first.Client.Conn.Close()
		first.Server.Conn.Close()
	}
	if s.has(optExternal) {
		base := s
		base.opts &^= optExternal
		base.tick = 0
		if m := collect(base); m != nil && m.ch != nil {
			ccfg.ExternalClientHello = externalHello(m.ch, s.vari)
		}
	}
	r.res = tlsrig.Handshake(ccfg, scfg, tlsrig.Opts{KeepOpen: true})
	if r.res.Client.Err == nil {
		r.resumed = r.res.Client.State.DidResume
	}
	return r
}

// externalHello: the captured ClientHello handshake message with the selected extensions appended (lengths fixed up)
// and, for extSNI, another host name of the same length.
func externalHello(raw []byte, sel int) []byte {
	out := append([]byte(nil), raw...)
	p := 4 + 2 + 32
	if len(out) < p+1 {
		return out
	}
	p += 1 + int(out[p])
	if len(out) < p+2 {
		return out
	}
	p += 2 + (int(out[p])<<8 | int(out[p+1]))
	if len(out) < p+1 {
		return out
	}
	p += 1 + int(out[p])
	if len(out) < p+2 {
		return out
	}
	h, err := parseClientHello(raw[4:])
	if err != nil {
		return out
	}
	if sel&extSNI != 0 {
		if i := bytes.Index(out, []byte(tlsrig.Host)); i >= 0 {
			out[i+1] ^= 3 // "example.com" -> another name of the same length
		}
	}
	if sel&extEMS != 0 {
		out = append(out, 0, 23, 0, 0)
	}
	if sel&extExtRandom != 0 {
		out = append(out, 0, 0x28, 0, 6, 0, 4, 0xde, 0xad, 0xbe, 0xef)
	}
	if sel&extHeartbeat != 0 {
		out = append(out, 0, 15, 0, 1, 1)
	}
	if sel&extUnknown != 0 {
		out = append(out, 0x12, 0x34, 0, 3, 7, 8, 9)
	}
	if _, has := h.ext(35); sel&extTicket != 0 && !has {
		out = append(out, 0, 35, 0, 0)
	}
	n := len(out) - p - 2
	out[p], out[p+1] = byte(n>>8), byte(n)
	l := len(out) - 4
	out[1], out[2], out[3] = byte(l>>16), byte(l>>8), byte(l)
	return out
}

func (r *run) close() {
	r.res.Client.Conn.Close()
	r.res.Server.Conn.Close()
}

// ---- independent TLS PRF (RFC 2246 / 5246) ---------------------------------------------------------

func pHash(h func() hash.Hash, secret, seed []byte, n int) []byte {
	var out []byte
	mac := hmac.New(h, secret)
	mac.Write(seed)
	a := mac.Sum(nil)
	for len(out) < n {
		mac.Reset()
		mac.Write(a)
		mac.Write(seed)
		out = append(out, mac.Sum(nil)...)
		mac.Reset()
		mac.Write(a)
		a = mac.Sum(nil)
	}
	return out[:n]
}

func prf(ver int, sha384 bool, secret []byte, label string, seed []byte, n int) []byte {
	ls := append([]byte(label), seed...)
	if ver >= 12 {
		if sha384 {
			return pHash(sha512.New384, secret, ls, n)
		}
		return pHash(sha256.New, secret, ls, n)
	}
	half := (len(secret) + 1) / 2
	a := pHash(md5.New, secret[:half], ls, n)
	b := pHash(sha1.New, secret[len(secret)-half:], ls, n)
	for i := range a {
		a[i] ^= b[i]
	}
	return a
}

func transcriptHash(ver int, sha384 bool, msgs [][]byte) []byte {
	var all []byte
	for _, m := range msgs {
		all = append(all, m...)
	}
	if ver >= 12 {
		if sha384 {
			s := sha512.Sum384(all)
			return s[:]
		}
		s := sha256.Sum256(all)
		return s[:]
	}
	m := md5.Sum(all)
	s := sha1.Sum(all)
	return append(m[:], s[:]...)
}
