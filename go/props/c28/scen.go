package c28

import (
	"bytes"
	"crypto/hmac"
	"crypto/md5"
	"crypto/sha1"
	"crypto/sha256"
	"crypto/sha512"
	"encoding/hex"
	"fmt"
	"hash"
	"strconv"
	"strings"
	"sync"

	"github.com/zmap/zcrypto/tls"

	"zv/internal/tlsrig"
)

// ---- scenarios -----------------------------------------------------------------------------------

type scen struct {
	ver   int    // 10,11,12,13
	suite uint16 // 0 = defaults
	key   string
	alpn  int // 0 none, 1 both sides (h2,http/1.1), 2 client only
	tick  int // 0 no cache, 1 cache (ticket issued), 2 resumption (second handshake examined)
	curve int // 0 default or a CurveID forced on the server
}

func (s scen) String() string {
	return fmt.Sprintf("%d %04x %s %d %d %d", s.ver, s.suite, s.key, s.alpn, s.tick, s.curve)
}

func parseScen(f []string) scen {
	v, _ := strconv.Atoi(f[0])
	su, _ := strconv.ParseUint(f[1], 16, 16)
	a, _ := strconv.Atoi(f[3])
	t, _ := strconv.Atoi(f[4])
	c, _ := strconv.Atoi(f[5])
	return scen{v, uint16(su), f[2], a, t, c}
}

var verNum = map[int]uint16{10: tls.VersionTLS10, 11: tls.VersionTLS11, 12: tls.VersionTLS12, 13: tls.VersionTLS13}

type suiteInfo struct {
	id     uint16
	kex    string // rsa, ecdhe-rsa, ecdhe-ecdsa, dhe-rsa
	tls12  bool   // needs TLS 1.2
	sha384 bool
}

var suites = []suiteInfo{
	{0x002f, "rsa", false, false}, {0x0035, "rsa", false, false}, {0x000a, "rsa", false, false},
	{0x009c, "rsa", true, false}, {0x009d, "rsa", true, true}, {0x003c, "rsa", true, false},
	{0xc013, "ecdhe-rsa", false, false}, {0xc014, "ecdhe-rsa", false, false}, {0xc012, "ecdhe-rsa", false, false},
	{0xc02f, "ecdhe-rsa", true, false}, {0xc030, "ecdhe-rsa", true, true}, {0xcca8, "ecdhe-rsa", true, false}, {0xc027, "ecdhe-rsa", true, false},
	{0xc009, "ecdhe-ecdsa", false, false}, {0xc00a, "ecdhe-ecdsa", false, false},
	{0xc02b, "ecdhe-ecdsa", true, false}, {0xc02c, "ecdhe-ecdsa", true, true}, {0xcca9, "ecdhe-ecdsa", true, false}, {0xc023, "ecdhe-ecdsa", true, false},
	{0x0033, "dhe-rsa", false, false}, {0x0039, "dhe-rsa", false, false}, {0x0016, "dhe-rsa", false, false},
	{0x009e, "dhe-rsa", true, false}, {0x009f, "dhe-rsa", true, true}, {0x0067, "dhe-rsa", true, false},
}

func suiteByID(id uint16) *suiteInfo {
	for i := range suites {
		if suites[i].id == id {
			return &suites[i]
		}
	}
	return nil
}

type keyLog struct {
	mu sync.Mutex
	b  bytes.Buffer
}

func (k *keyLog) Write(p []byte) (int, error) {
	k.mu.Lock()
	defer k.mu.Unlock()
	return k.b.Write(p)
}

// master returns the CLIENT_RANDOM master secret logged for the given client random.
func (k *keyLog) master(cr []byte) []byte {
	k.mu.Lock()
	defer k.mu.Unlock()
	for _, l := range strings.Split(k.b.String(), "\n") {
		f := strings.Fields(l)
		if len(f) == 3 && f[0] == "CLIENT_RANDOM" && f[1] == hex.EncodeToString(cr) {
			m, _ := hex.DecodeString(f[2])
			return m
		}
	}
	return nil
}

type run struct {
	s       scen
	res     *tlsrig.Result
	keylog  *keyLog
	chain   [][]byte // what the server was configured to send
	resumed bool
}

func configs(s scen) (*tls.Config, *tls.Config, *keyLog) {
	p := tlsrig.GetPKI()
	kl := &keyLog{}
	v := verNum[s.ver]
	ccfg := &tls.Config{RootCAs: p.Roots, ServerName: tlsrig.Host, MinVersion: v, MaxVersion: v, KeyLogWriter: kl}
	scfg := &tls.Config{Certificates: []tls.Certificate{p.Leaf[s.key]}, MinVersion: tls.VersionTLS10, MaxVersion: tls.VersionTLS13}
	if s.suite != 0 {
		ccfg.CipherSuites = []uint16{s.suite}
		ccfg.ForceSuites = true
		scfg.CipherSuites = []uint16{s.suite}
		scfg.ForceSuites = true
	}
	if s.alpn >= 1 {
		ccfg.NextProtos = []string{"h2", "http/1.1"}
	}
	if s.alpn == 1 {
		scfg.NextProtos = []string{"http/1.1", "h2"}
	}
	if s.tick >= 1 {
		ccfg.ClientSessionCache = tls.NewLRUClientSessionCache(4)
	} else {
		scfg.SessionTicketsDisabled = true
	}
	if s.curve != 0 {
		scfg.CurvePreferences = []tls.CurveID{tls.CurveID(s.curve)}
	}
	return ccfg, scfg, kl
}

func runScen(s scen) *run {
	ccfg, scfg, kl := configs(s)
	r := &run{s: s, keylog: kl, chain: scfg.Certificates[0].Certificate}
	if s.tick == 2 {
		first := tlsrig.Handshake(ccfg, scfg, tlsrig.Opts{KeepOpen: true})
		if first.Client.Err == nil && first.Server.Err == nil && s.ver == 13 {
			// TLS 1.3 tickets arrive after the handshake: read them
			go first.Server.Conn.Write([]byte("x"))
			buf := make([]byte, 1)
			first.Client.Conn.Read(buf)
		}
		first.Client.Conn.Close()
		first.Server.Conn.Close()
	}
	r.res = tlsrig.Handshake(ccfg, scfg, tlsrig.Opts{KeepOpen: true})
	if r.res.Client.Err == nil {
		r.resumed = r.res.Client.State.DidResume
	}
	return r
}

func (r *run) close() {
	r.res.Client.Conn.Close()
	r.res.Server.Conn.Close()
}

// ---- independent TLS PRF (RFC 2246 / 5246) ---------------------------------------------------------

func pHash(h func() hash.Hash, secret, seed []byte, n int) []byte {
	var out []byte
	mac := hmac.New(h, secret)
	mac.Write(seed)
	a := mac.Sum(nil)
	for len(out) < n {
		mac.Reset()
		mac.Write(a)
		mac.Write(seed)
		out = append(out, mac.Sum(nil)...)
		mac.Reset()
		mac.Write(a)
		a = mac.Sum(nil)
	}
	return out[:n]
}

func prf(ver int, sha384 bool, secret []byte, label string, seed []byte, n int) []byte {
	ls := append([]byte(label), seed...)
	if ver >= 12 {
		if sha384 {
			return pHash(sha512.New384, secret, ls, n)
		}
		return pHash(sha256.New, secret, ls, n)
	}
	half := (len(secret) + 1) / 2
	a := pHash(md5.New, secret[:half], ls, n)
	b := pHash(sha1.New, secret[len(secret)-half:], ls, n)
	for i := range a {
		a[i] ^= b[i]
	}
	return a
}

func transcriptHash(ver int, sha384 bool, msgs [][]byte) []byte {
	var all []byte
	for _, m := range msgs {
		all = append(all, m...)
	}
	if ver >= 12 {
		if sha384 {
			s := sha512.Sum384(all)
			return s[:]
		}
		s := sha256.Sum256(all)
		return s[:]
	}
	m := md5.Sum(all)
	s := sha1.Sum(all)
	return append(m[:], s[:]...)
}
