// Package c19: strict DER decoding is canonical in both ASN.1 codecs.
//
// Every case line is `c19 <op> <hex>`; <op> selects one layer-0 decoder of
// encoding/asn1 (through the verif hook file encoding/asn1/zv_c19_verif.go) or
// of cryptobyte (public API). The canonical output carries the accept/reject
// decision, the decoded value, the consumed length and the re-encoding of the
// decoded value by the SAME library; T3 = "re-encoding == consumed bytes".
//
// Batch lines `c19 <op>* <prefix-hex> <k>` enumerate all 256^k suffixes appended
// to the prefix and report the number of accepted inputs and a digest of all
// single outputs (so that exhaustive spaces stay cheap to diff).
package c19

import (
	"bytes"
	"fmt"
	"math/big"
	"strconv"
	"strings"
	"time"

	"github.com/zmap/zcrypto/cryptobyte"
	cbasn1 "github.com/zmap/zcrypto/cryptobyte/asn1"
	"github.com/zmap/zcrypto/encoding/asn1"

	"zv/internal/zv"
)

func hx(b []byte) string { return zv.Hex(b) }

type one struct {
	out  string // canonical output (single token sequence)
	viol string
	acc  bool
}

func oidStr(o []int) string {
	ss := make([]string, len(o))
	for i, v := range o {
		ss[i] = strconv.Itoa(v)
	}
	return strings.Join(ss, ".")
}

func canon(what string, in, re []byte, extra string) string {
	if bytes.Equal(in, re) {
		return ""
	}
	return fmt.Sprintf("%s accepted %s%s but the same library re-encodes the decoded value as %s (decoding is not canonical)", what, hx(in), extra, hx(re))
}

// ---------- encoding/asn1 (hooks) ----------

func eaInt(c []byte) one {
	var parts []string
	viol := ""
	acc := false
	if v, err := asn1.ZVParseInt64(c); err != nil {
		parts = append(parts, "i64=err")
	} else {
		re := asn1.ZVEncodeInt64(v)
		parts = append(parts, fmt.Sprintf("i64=ok:%d:%s", v, hx(re)))
		acc = true
		if w := canon("encoding/asn1 parseInt64", c, re, fmt.Sprintf(" as %d", v)); w != "" {
			viol = w
		}
	}
	if v, err := asn1.ZVParseInt32(c); err != nil {
		parts = append(parts, "i32=err")
	} else {
		re := asn1.ZVEncodeInt64(int64(v))
		parts = append(parts, fmt.Sprintf("i32=ok:%d:%s", v, hx(re)))
		acc = true
		if w := canon("encoding/asn1 parseInt32", c, re, fmt.Sprintf(" as %d", v)); w != "" && viol == "" {
			viol = w
		}
	}
	if v, err := asn1.ZVParseBigInt(c); err != nil {
		parts = append(parts, "big=err")
	} else {
		re, err2 := asn1.ZVEncodeBigInt(v)
		if err2 != nil {
			parts = append(parts, fmt.Sprintf("big=ok:%s:encerr", v.String()))
			viol = "encoding/asn1 makeBigInt fails on a value returned by parseBigInt"
		} else {
			parts = append(parts, fmt.Sprintf("big=ok:%s:%s", v.String(), hx(re)))
			if w := canon("encoding/asn1 parseBigInt", c, re, " as "+v.String()); w != "" && viol == "" {
				viol = w
			}
		}
		acc = true
	}
	return one{strings.Join(parts, " "), viol, acc}
}

func eaBool(c []byte) one {
	v, err := asn1.ZVParseBool(c)
	if err != nil {
		return one{"err", "", false}
	}
	full, err := asn1.Marshal(v)
	if err != nil || len(full) < 2 {
		return one{"ok:encerr", "encoding/asn1 Marshal(bool) failed", true}
	}
	re := full[2:]
	t := "f"
	if v {
		t = "t"
	}
	return one{"ok:" + t + ":" + hx(re), canon("encoding/asn1 parseBool", c, re, ""), true}
}

func eaOID(c []byte) one {
	v, err := asn1.ZVParseObjectIdentifier(c)
	if err != nil {
		return one{"err", "", false}
	}
	re, err := asn1.ZVEncodeObjectIdentifier(v)
	if err != nil {
		return one{"ok:" + oidStr(v) + ":encerr", "encoding/asn1 makeObjectIdentifier rejects an OID returned by parseObjectIdentifier: " + oidStr(v), true}
	}
	return one{"ok:" + oidStr(v) + ":" + hx(re), canon("encoding/asn1 parseObjectIdentifier", c, re, " as "+oidStr(v)), true}
}

func eaB128(c []byte) one {
	v, off, err := asn1.ZVParseBase128Int(c, 0)
	if err != nil {
		return one{"err", "", false}
	}
	re := asn1.ZVAppendBase128Int(nil, int64(v))
	return one{fmt.Sprintf("ok:%d:%d:%s", v, off, hx(re)), canon("encoding/asn1 parseBase128Int", c[:off], re, fmt.Sprintf(" as %d", v)), true}
}

func eaBits(c []byte) one {
	v, err := asn1.ZVParseBitString(c)
	if err != nil {
		return one{"err", "", false}
	}
	re := asn1.ZVEncodeBitString(v)
	w := canon("encoding/asn1 parseBitString", c, re, "")
	if w == "" {
		w = padViol("encoding/asn1 parseBitString", c, v)
	}
	return one{fmt.Sprintf("ok:%d:%s:%s", v.BitLength, hx(v.Bytes), hx(re)), w, true}
}

// padViol: the unused bits of an accepted BIT STRING must be zero and BitLength must fit the bytes.
func padViol(what string, in []byte, v asn1.BitString) string {
	if v.BitLength < 0 || v.BitLength > 8*len(v.Bytes) || v.BitLength <= 8*len(v.Bytes)-8 {
		return fmt.Sprintf("%s accepted %s with BitLength %d for %d bytes", what, hx(in), v.BitLength, len(v.Bytes))
	}
	if pad := 8*len(v.Bytes) - v.BitLength; pad > 0 && v.Bytes[len(v.Bytes)-1]&(1<<uint(pad)-1) != 0 {
		return fmt.Sprintf("%s accepted %s whose %d padding bits are not zero", what, hx(in), pad)
	}
	return ""
}

func eaHdr(c []byte) one {
	class, tag, length, comp, off, err := asn1.ZVParseTagAndLength(c, 0)
	if err != nil {
		return one{"err", "", false}
	}
	re := asn1.ZVAppendTagAndLength(nil, class, tag, length, comp)
	ci := 0
	if comp {
		ci = 1
	}
	return one{fmt.Sprintf("ok:%d:%d:%d:%d:%d:%s", class, ci, tag, length, off, hx(re)),
		canon("encoding/asn1 parseTagAndLength", c[:off], re, fmt.Sprintf(" as class %d tag %d length %d", class, tag, length)), true}
}

// ---------- cryptobyte (public API) ----------

func build(f func(b *cryptobyte.Builder)) ([]byte, bool) {
	var b cryptobyte.Builder
	f(&b)
	out, err := b.Bytes()
	if err != nil {
		return nil, false
	}
	return out, true
}

func cbRes(name string, in cryptobyte.String, rest cryptobyte.String, val string, re []byte, reOK bool) (string, string) {
	consumed := in[:len(in)-len(rest)]
	if !reOK {
		return fmt.Sprintf("ok:%s:%d:encerr", val, len(rest)), "cryptobyte " + name + " accepted " + hx(consumed) + " as " + val + " but the Builder cannot encode that value"
	}
	return fmt.Sprintf("ok:%s:%d:%s", val, len(rest), hx(re)), canon("cryptobyte "+name, consumed, re, " as "+val)
}

func cbInt(in []byte) one {
	var parts []string
	viol := ""
	acc := false
	{
		s := cryptobyte.String(in)
		var v int64
		if !s.ReadASN1Integer(&v) {
			parts = append(parts, "i64=err")
		} else {
			re, ok := build(func(b *cryptobyte.Builder) { b.AddASN1Int64(v) })
			o, w := cbRes("ReadASN1Integer(*int64)", in, s, strconv.FormatInt(v, 10), re, ok)
			parts = append(parts, "i64="+o)
			acc = true
			if w != "" {
				viol = w
			}
		}
	}
	{
		s := cryptobyte.String(in)
		var v uint64
		if !s.ReadASN1Integer(&v) {
			parts = append(parts, "u64=err")
		} else {
			re, ok := build(func(b *cryptobyte.Builder) { b.AddASN1Uint64(v) })
			o, w := cbRes("ReadASN1Integer(*uint64)", in, s, strconv.FormatUint(v, 10), re, ok)
			parts = append(parts, "u64="+o)
			acc = true
			if w != "" && viol == "" {
				viol = w
			}
		}
	}
	{
		s := cryptobyte.String(in)
		v := new(big.Int)
		if !s.ReadASN1Integer(v) {
			parts = append(parts, "big=err")
		} else {
			re, ok := build(func(b *cryptobyte.Builder) { b.AddASN1BigInt(v) })
			o, w := cbRes("ReadASN1Integer(*big.Int)", in, s, v.String(), re, ok)
			parts = append(parts, "big="+o)
			acc = true
			if w != "" && viol == "" {
				viol = w
			}
		}
	}
	return one{strings.Join(parts, " "), viol, acc}
}

func cbBool(in []byte) one {
	s := cryptobyte.String(in)
	var v bool
	if !s.ReadASN1Boolean(&v) {
		return one{"err", "", false}
	}
	re, ok := build(func(b *cryptobyte.Builder) { b.AddASN1Boolean(v) })
	t := "f"
	if v {
		t = "t"
	}
	o, w := cbRes("ReadASN1Boolean", in, s, t, re, ok)
	return one{o, w, true}
}

func cbOID(in []byte) one {
	s := cryptobyte.String(in)
	var v asn1.ObjectIdentifier
	if !s.ReadASN1ObjectIdentifier(&v) {
		return one{"err", "", false}
	}
	re, ok := build(func(b *cryptobyte.Builder) { b.AddASN1ObjectIdentifier(v) })
	o, w := cbRes("ReadASN1ObjectIdentifier", in, s, oidStr(v), re, ok)
	return one{o, w, true}
}

func cbBits(in []byte) one {
	s := cryptobyte.String(in)
	var v asn1.BitString
	if !s.ReadASN1BitString(&v) {
		return one{"err", "", false}
	}
	// The Builder has AddASN1BitString for whole bytes only; the general
	// re-encoding is the element [BIT STRING, pad, bytes] with pad derived from BitLength.
	pad := byte((8 - v.BitLength%8) % 8)
	re, ok := build(func(b *cryptobyte.Builder) {
		if pad == 0 {
			b.AddASN1BitString(v.Bytes)
		} else {
			b.AddASN1(cbasn1.BIT_STRING, func(c *cryptobyte.Builder) { c.AddUint8(pad); c.AddBytes(v.Bytes) })
		}
	})
	o, w := cbRes("ReadASN1BitString", in, s, fmt.Sprintf("%d/%s", v.BitLength, hx(v.Bytes)), re, ok)
	if w == "" {
		w = padViol("cryptobyte ReadASN1BitString", in, v)
	}
	return one{o, w, true}
}

func cbAny(in []byte) one {
	s := cryptobyte.String(in)
	var body cryptobyte.String
	var tag cbasn1.Tag
	if !s.ReadAnyASN1(&body, &tag) {
		return one{"err", "", false}
	}
	// ReadAnyASN1Element must agree
	s2 := cryptobyte.String(in)
	var el cryptobyte.String
	var tag2 cbasn1.Tag
	okEl := s2.ReadAnyASN1Element(&el, &tag2)
	re, ok := build(func(b *cryptobyte.Builder) { b.AddASN1(tag, func(c *cryptobyte.Builder) { c.AddBytes(body) }) })
	o, w := cbRes("ReadAnyASN1", in, s, fmt.Sprintf("%d/%d", tag, len(body)), re, ok)
	if w == "" && (!okEl || tag2 != tag || !bytes.Equal(el, in[:len(in)-len(s)]) || len(s2) != len(s)) {
		w = "cryptobyte ReadAnyASN1Element disagrees with ReadAnyASN1 on " + hx(in)
	}
	return one{o, w, true}
}

func cbGTime(in []byte) one {
	s := cryptobyte.String(in)
	var t time.Time
	if !s.ReadASN1GeneralizedTime(&t) {
		return one{"err", "", false}
	}
	_, off := t.Zone()
	re, ok := build(func(b *cryptobyte.Builder) { b.AddASN1GeneralizedTime(t) })
	o, w := cbRes("ReadASN1GeneralizedTime", in, s, fmt.Sprintf("%d.%d@%d", t.Unix(), t.Nanosecond(), off), re, ok)
	return one{o, w, true}
}

// cbUTime: ReadASN1UTCTime has no Builder counterpart in zcrypto; the value and the consumed length are compared with
// the model, and the same-content oracle uses encoding/asn1's appendUTCTime (hook) for the forms with seconds.
func cbUTime(in []byte) one {
	s := cryptobyte.String(in)
	var t time.Time
	if !s.ReadASN1UTCTime(&t) {
		return one{"err", "", false}
	}
	_, off := t.Zone()
	consumed := in[:len(in)-len(s)]
	viol := ""
	if body := consumed[2:]; len(consumed) >= 2 && consumed[1] < 0x80 && (len(body) == 13 || len(body) == 17) {
		re, err := asn1.ZVAppendUTCTime(t)
		if err != nil {
			viol = fmt.Sprintf("cryptobyte ReadASN1UTCTime accepted %q as a time that encoding/asn1 cannot write as UTCTime", body)
		} else {
			viol = canon("cryptobyte ReadASN1UTCTime", body, re, "")
		}
	}
	return one{fmt.Sprintf("ok:%d.%d@%d:%d", t.Unix(), t.Nanosecond(), off, len(s)), viol, true}
}

var ops = map[string]func([]byte) one{
	"ea-int": eaInt, "ea-bool": eaBool, "ea-oid": eaOID, "ea-b128": eaB128, "ea-bits": eaBits, "ea-hdr": eaHdr,
	"cb-int": cbInt, "cb-bool": cbBool, "cb-oid": cbOID, "cb-bits": cbBits, "cb-any": cbAny, "cb-gtime": cbGTime, "cb-utime": cbUTime,
}

// t3only lists the ops that are not (yet) modelled in Lean (none: GeneralizedTime / UTCTime are modelled by lean/ZV/Model/Time.lean).
var t3only = map[string]bool{}

// ---------- fourth wave: string types, ENUMERATED / OCTET STRING / NULL, cross-codec agreement ----------

func eaStr(name string, dec func([]byte) (string, error), enc func(string) ([]byte, error)) func([]byte) one {
	return func(c []byte) one {
		v, err := dec(c)
		if err != nil {
			return one{"err", "", false}
		}
		viol := ""
		if v != string(c) {
			viol = "encoding/asn1 parse" + name + " returned a string different from the content octets of " + hx(c)
		}
		re, err := enc(v)
		if err != nil {
			// PrintableString: the decoder admits '&' (allowAmpersand), the encoder refuses it (rejectAmpersand) -
			// an upstream, documented asymmetry; the model carries it (T2) and the theorem excludes it by hypothesis.
			if name == "PrintableString" && bytes.IndexByte(c, '&') >= 0 {
				return one{"ok:" + hx([]byte(v)) + ":encerr", viol, true}
			}
			return one{"ok:" + hx([]byte(v)) + ":encerr", "encoding/asn1 make" + name + " refuses a string that parse" + name + " accepted: " + hx(c), true}
		}
		if viol == "" {
			viol = canon("encoding/asn1 parse"+name, c, re, "")
		}
		return one{"ok:" + hx([]byte(v)) + ":" + hx(re), viol, true}
	}
}

func cbEnum(in []byte) one {
	s := cryptobyte.String(in)
	var v int
	if !s.ReadASN1Enum(&v) {
		return one{"err", "", false}
	}
	re, ok := build(func(b *cryptobyte.Builder) { b.AddASN1Enum(int64(v)) })
	out, viol := cbRes("ReadASN1Enum", in, s, strconv.Itoa(v), re, ok)
	return one{out, viol, true}
}

func cbOct(in []byte) one {
	s := cryptobyte.String(in)
	var v []byte
	if !s.ReadASN1Bytes(&v, cbasn1.OCTET_STRING) {
		return one{"err", "", false}
	}
	re, ok := build(func(b *cryptobyte.Builder) { b.AddASN1OctetString(v) })
	out, viol := cbRes("ReadASN1Bytes(OCTET STRING)", in, s, hx(v), re, ok)
	return one{out, viol, true}
}

func cbNull(in []byte) one {
	s := cryptobyte.String(in)
	var v cryptobyte.String
	if !s.ReadASN1(&v, cbasn1.NULL) {
		return one{"err", "", false}
	}
	if len(v) != 0 {
		return one{fmt.Sprintf("ok:%d:%d:encerr", len(v), len(s)), "", true}
	}
	re, ok := build(func(b *cryptobyte.Builder) { b.AddASN1NULL() })
	out, viol := cbRes("ReadASN1(NULL)", in, s, "0", re, ok)
	return one{out, viol, true}
}

// xBoth: the same content through encoding/asn1 and (wrapped in a minimal element) through cryptobyte;
// T3 = the two codecs agree (accept/reject and value) on the common fragment.
func xBoth(what string, ea func([]byte) (string, bool), tag byte, cb func(cryptobyte.String) (string, bool), limit func([]byte) bool) func([]byte) one {
	return func(c []byte) one {
		e := "err"
		if v, ok := ea(c); ok {
			e = "ok:" + v
		}
		b := "err"
		if v, ok := cb(cryptobyte.String(cbEl(tag, c))); ok {
			b = "ok:" + v
		}
		viol := ""
		if e != b && (limit == nil || limit(c)) {
			viol = fmt.Sprintf("the two codecs disagree on %s content %s: encoding/asn1 %s, cryptobyte %s", what, hx(c), e, b)
		}
		return one{"ea=" + e + " cb=" + b, viol, e != "err" || b != "err"}
	}
}

func bitsStr(v asn1.BitString) string { return fmt.Sprintf("%d/%s", v.BitLength, hx(v.Bytes)) }
func tf(v bool) string {
	if v {
		return "t"
	}
	return "f"
}

var xInt = xBoth("INTEGER(int64)", func(c []byte) (string, bool) { v, err := asn1.ZVParseInt64(c); return strconv.FormatInt(v, 10), err == nil }, 2,
	func(s cryptobyte.String) (string, bool) { var v int64; ok := s.ReadASN1Integer(&v); return strconv.FormatInt(v, 10), ok }, nil)
var xBig = xBoth("INTEGER(big)", func(c []byte) (string, bool) {
	v, err := asn1.ZVParseBigInt(c)
	if err != nil {
		return "", false
	}
	return v.String(), true
}, 2, func(s cryptobyte.String) (string, bool) { v := new(big.Int); ok := s.ReadASN1Integer(v); return v.String(), ok }, nil)
var xOID = xBoth("OBJECT IDENTIFIER", func(c []byte) (string, bool) { v, err := asn1.ZVParseObjectIdentifier(c); return oidStr(v), err == nil }, 6,
	func(s cryptobyte.String) (string, bool) { var v asn1.ObjectIdentifier; ok := s.ReadASN1ObjectIdentifier(&v); return oidStr(v), ok }, nil)
var xBits = xBoth("BIT STRING", func(c []byte) (string, bool) { v, err := asn1.ZVParseBitString(c); return bitsStr(v), err == nil }, 3,
	func(s cryptobyte.String) (string, bool) { var v asn1.BitString; ok := s.ReadASN1BitString(&v); return bitsStr(v), ok }, nil)
var xBool = xBoth("BOOLEAN", func(c []byte) (string, bool) { v, err := asn1.ZVParseBool(c); return tf(v), err == nil }, 1,
	func(s cryptobyte.String) (string, bool) { var v bool; ok := s.ReadASN1Boolean(&v); return tf(v), ok }, nil)

// xHdr: one header through parseTagAndLength and readASN1. T3 (agreement on the common fragment): whatever
// cryptobyte accepts, encoding/asn1 parses to the same identifier octet, content length and header length;
// conversely a low-tag header that encoding/asn1 accepts and whose content is present is accepted by cryptobyte.
func xHdr(in []byte) one {
	e, b := "err", "err"
	class, tag, length, comp, off, err := asn1.ZVParseTagAndLength(in, 0)
	if err == nil {
		id := class*64 + tag
		if comp {
			id += 32
		}
		e = fmt.Sprintf("ok:%d:%d:%d", id, length, off)
	}
	s := cryptobyte.String(in)
	var body cryptobyte.String
	var t cbasn1.Tag
	if s.ReadAnyASN1(&body, &t) {
		b = fmt.Sprintf("ok:%d:%d:%d", int(t), len(body), len(in)-len(s)-len(body))
	}
	viol := ""
	if b != "err" && e != b {
		viol = fmt.Sprintf("cryptobyte accepts the header of %s as %s but encoding/asn1 says %s", hx(in), b, e)
	}
	if b == "err" && err == nil && tag < 31 && off+length <= len(in) {
		viol = fmt.Sprintf("encoding/asn1 accepts the low-tag header of %s (%s, content present) but cryptobyte rejects it", hx(in), e)
	}
	return one{"ea=" + e + " cb=" + b, viol, e != "err" || b != "err"}
}

func init() {
	ops["ea-num"] = eaStr("NumericString", asn1.ZVParseNumericString, asn1.ZVMakeNumericString)
	ops["ea-prt"] = eaStr("PrintableString", asn1.ZVParsePrintableString, asn1.ZVMakePrintableString)
	ops["ea-ia5"] = eaStr("IA5String", asn1.ZVParseIA5String, asn1.ZVMakeIA5String)
	ops["ea-t61"] = eaStr("T61String", asn1.ZVParseT61String, func(s string) ([]byte, error) { return []byte(s), nil })
	ops["cb-enum"], ops["cb-oct"], ops["cb-null"] = cbEnum, cbOct, cbNull
	ops["x-int"], ops["x-big"], ops["x-oid"], ops["x-bits"], ops["x-bool"], ops["x-hdr"] = xInt, xBig, xOID, xBits, xBool, xHdr
}

const digestMod = 1000000007

func digest(s string) uint64 {
	var h uint64
	for i := 0; i < len(s); i++ {
		h = (h*131 + uint64(s[i])) % digestMod
	}
	return h
}

func exec(line string) zv.Out {
	f := strings.Fields(line)
	op := f[1]
	if strings.HasSuffix(op, "*") {
		base := strings.TrimSuffix(op, "*")
		fn := ops[base]
		prefix := zv.UnHex(f[2])
		k, _ := strconv.Atoi(f[3])
		total := 1
		for i := 0; i < k; i++ {
			total *= 256
		}
		buf := make([]byte, len(prefix)+k)
		copy(buf, prefix)
		n, h := 0, uint64(0)
		viol := ""
		for i := 0; i < total; i++ {
			x := i
			for j := k - 1; j >= 0; j-- {
				buf[len(prefix)+j] = byte(x)
				x >>= 8
			}
			r := fn(append([]byte{}, buf...))
			if r.acc {
				n++
			}
			h = (h + digest(r.out)) % digestMod
			if r.viol != "" && viol == "" {
				viol = r.viol
			}
		}
		out := fmt.Sprintf("n=%d h=%d", n, h)
		if t3only[base] {
			out = ""
		}
		return zv.Out{Go: out, Viol: viol, Tags: []string{base + "/batch", fmt.Sprintf("%s/batch-accepted=%d", base, n)}[:1]}
	}
	fn := ops[op]
	in := zv.UnHex(f[2])
	if in == nil {
		in = []byte{}
	}
	r := fn(in)
	tag := op + "/reject"
	if r.acc {
		tag = op + "/accept"
	}
	lb := 2
	for lb < len(in) {
		lb *= 4
	}
	out := r.out
	if t3only[op] {
		out = ""
	}
	return zv.Out{Go: out, Viol: r.viol, Tags: []string{tag, fmt.Sprintf("%s/len<=%d", op, lb)}}
}

// ---------- generators ----------

func emit(g *zv.Gen, op string, b []byte) { g.Emitf("c19 %s %s", op, hx(b)) }

// all byte strings of exactly n bytes
func allOf(n int, f func([]byte)) {
	buf := make([]byte, n)
	var rec func(i int)
	rec = func(i int) {
		if i == n {
			f(append([]byte{}, buf...))
			return
		}
		for v := 0; v < 256; v++ {
			buf[i] = byte(v)
			rec(i + 1)
		}
	}
	rec(0)
}

// cbEl wraps content in a minimal-length DER element with a one-byte tag.
func cbEl(tag byte, content []byte) []byte {
	out := []byte{tag}
	l := len(content)
	switch {
	case l < 0x80:
		out = append(out, byte(l))
	case l <= 0xff:
		out = append(out, 0x81, byte(l))
	case l <= 0xffff:
		out = append(out, 0x82, byte(l>>8), byte(l))
	case l <= 0xffffff:
		out = append(out, 0x83, byte(l>>16), byte(l>>8), byte(l))
	default:
		out = append(out, 0x84, byte(l>>24), byte(l>>16), byte(l>>8), byte(l))
	}
	return append(out, content...)
}

var interesting = []byte{0x00, 0x01, 0x7f, 0x80, 0x81, 0xfe, 0xff, 0x1f, 0x20, 0x28, 0x4f, 0x50}

func ibyte(r *zv.Rng) byte {
	if r.Chance(60) {
		return interesting[r.Intn(len(interesting))]
	}
	return byte(r.U64())
}

func ibytes(r *zv.Rng, n int) []byte {
	b := make([]byte, n)
	for i := range b {
		b[i] = ibyte(r)
	}
	return b
}

func batch(g *zv.Gen, op string, prefix []byte, k int) { g.Emitf("c19 %s* %s %d", op, hx(prefix), k) }

func cat(a []byte, b ...byte) []byte { return append(append([]byte{}, a...), b...) }

func gen(g *zv.Gen) {
	r := g.Rng
	thorough := !g.Quick
	// bytes that sit on a decision boundary of some decoder, plus two seed-dependent ones
	edge := []byte{0x00, 0x01, 0x7f, 0x80, 0x81, 0xfe, 0xff, byte(r.U64()), byte(r.U64())}

	// corpus: the predicted / textbook non-canonical encodings
	for _, l := range []string{
		"c19 cb-oid 06032a8001",       // D2: leading 0x80 in a sub-identifier
		"c19 ea-oid 2a8001",           // same body through encoding/asn1
		"c19 cb-oid 06062a8180808000", // arc 2^28 written in 5 bytes (D28)
		"c19 cb-oid 06062a8fffffff7f", // arc 2^32-1 (too large in both)
		"c19 cb-oid 06062a87ffffff7f", // arc 2^31-1
		"c19 cb-oid 06062a8880808000", // arc 2^31
		"c19 ea-oid 2a87ffffff7f", "c19 ea-oid 2a8880808000", "c19 ea-oid 2a8180808000",
		"c19 cb-int 02020001", "c19 cb-int 0202ff80", "c19 cb-int 0200", "c19 cb-int 028101ff",
		"c19 cb-int 0209008000000000000000", "c19 cb-int 020900ffffffffffffffff", "c19 cb-int 020901ffffffffffffffff",
		"c19 cb-int 02087fffffffffffffff", "c19 cb-int 02088000000000000000", "c19 cb-int 0209ff7fffffffffffffff",
		"c19 ea-int 0001", "c19 ea-int ff80", "c19 ea-int -", "c19 ea-int 7fffffff", "c19 ea-int 80000000", "c19 ea-int 0080000000", "c19 ea-int ff7fffffff",
		"c19 ea-int 7fffffffffffffff", "c19 ea-int 8000000000000000", "c19 ea-int 008000000000000000",
		"c19 ea-hdr 3080", "c19 ea-hdr 308100", "c19 ea-hdr 30817f", "c19 ea-hdr 308180", "c19 ea-hdr 30820080", "c19 ea-hdr 1f1e00", "c19 ea-hdr 1f1f00", "c19 ea-hdr 1f8000",
		"c19 ea-hdr 308400800000", "c19 ea-hdr 30847fffffff", "c19 ea-hdr 308480000000", "c19 ea-hdr 3083800000", "c19 ea-hdr 30837fffff", "c19 ea-hdr 1f87ffffff7f00", "c19 ea-hdr 1f888080800000",
		"c19 cb-any 0480", "c19 cb-any 048100", "c19 cb-any 0484ffffffff0000000000", "c19 cb-any 0484fffffffa0000000000", "c19 cb-any 0484fffffff90000000000", "c19 cb-any 1f00", "c19 cb-any 048500000000010000",
		"c19 ea-bits 0100", "c19 ea-bits 0780", "c19 ea-bits 07c0", "c19 ea-bits 08ff", "c19 ea-bits 01", "c19 cb-bits 03020780", "c19 cb-bits 030207c0", "c19 cb-bits 030101",
		"c19 ea-bool 01", "c19 cb-bool 010101", "c19 cb-bool 0101ff", "c19 cb-gtime 180f32303234303130313030303030305a", "c19 cb-gtime 181332303234303130313030303030302b30303030",
	} {
		g.Emit(l)
	}

	// ---- integers: every content of <= 3 bytes (2- and 3-byte contents in batches) ----
	for n := 0; n <= 1; n++ {
		allOf(n, func(c []byte) {
			emit(g, "ea-int", c)
			emit(g, "cb-int", cbEl(0x02, c))
		})
	}
	allOf(1, func(p []byte) {
		batch(g, "ea-int", p, 1)
		batch(g, "cb-int", cat([]byte{0x02, 0x02}, p...), 1)
		if thorough {
			batch(g, "ea-int", p, 2)
			batch(g, "cb-int", cat([]byte{0x02, 0x03}, p...), 2)
		} else {
			for _, b1 := range edge { // 3-byte contents: every b0, boundary b1, every b2
				batch(g, "ea-int", []byte{p[0], b1}, 1)
				batch(g, "cb-int", []byte{0x02, 0x03, p[0], b1}, 1)
			}
		}
		batch(g, "cb-int", []byte{p[0], 0x01}, 1) // every tag
	})
	batch(g, "cb-int", []byte{0x02}, 2) // every length octet x first content octet
	// longer contents around the int32 / int64 / uint64 limits, tails, odd headers
	for i, n := 0, g.N(10000, 400000); i < n; i++ {
		l := 2 + r.Intn(9)
		c := ibytes(r, l)
		if r.Chance(30) {
			c[0] = []byte{0x00, 0xff, 0x7f, 0x80}[r.Intn(4)]
		}
		if r.Chance(5) {
			c = ibytes(r, 11+r.Intn(130))
		}
		emit(g, "ea-int", c)
		el := cbEl(0x02, c)
		if r.Chance(10) {
			el[0] = ibyte(r) // wrong tag
		}
		if r.Chance(10) && len(el) > 2 {
			el = el[:len(el)-1-r.Intn(2)] // truncated
		}
		if r.Chance(30) {
			el = append(el, ibytes(r, 1+r.Intn(3))...) // trailing data
		}
		emit(g, "cb-int", el)
	}

	// ---- booleans: every content <= 2 bytes, every tag / length octet ----
	for n := 0; n <= 1; n++ {
		allOf(n, func(c []byte) {
			emit(g, "ea-bool", c)
			emit(g, "cb-bool", cbEl(0x01, c))
			emit(g, "cb-bool", cat(cbEl(0x01, c), 0x01, 0x01, 0x00))
		})
	}
	batch(g, "ea-bool", nil, 2)
	batch(g, "cb-bool", []byte{0x01, 0x02}, 2)
	batch(g, "cb-bool", []byte{0x01}, 2)
	batch(g, "cb-bool", []byte{0x01, 0x81}, 2)
	allOf(1, func(p []byte) {
		emit(g, "cb-bool", []byte{p[0], 0x01, 0xff})
		emit(g, "cb-bool", []byte{p[0], 0x01, 0x00, 0x05})
	})

	// ---- base-128 / OIDs: every body <= 2 bytes, 3-byte bodies (all in thorough), 4 bytes sampled ----
	for n := 0; n <= 1; n++ {
		allOf(n, func(c []byte) {
			emit(g, "ea-oid", c)
			emit(g, "ea-b128", c)
			emit(g, "cb-oid", cbEl(0x06, c))
		})
	}
	allOf(1, func(p []byte) {
		batch(g, "ea-oid", p, 1)
		batch(g, "ea-b128", p, 1)
		batch(g, "cb-oid", []byte{0x06, 0x02, p[0]}, 1)
		if thorough {
			batch(g, "ea-oid", p, 2)
			batch(g, "ea-b128", p, 2)
			batch(g, "cb-oid", []byte{0x06, 0x03, p[0]}, 2)
		}
	})
	firsts := []byte{0x2a, 0x50, 0x80, 0x81, 0x88, 0xff, byte(r.U64()), byte(r.U64()) | 0x80}
	for _, b0 := range firsts {
		if !thorough {
			batch(g, "ea-oid", []byte{b0}, 2)
			batch(g, "cb-oid", []byte{0x06, 0x03, b0}, 2)
		}
		for _, b1 := range edge[:g.N(3, 9)] { // 4-byte bodies
			batch(g, "ea-oid", []byte{b0, b1 | 0x80}, 2)
			batch(g, "cb-oid", []byte{0x06, 0x04, b0, b1 | 0x80}, 2)
		}
		batch(g, "ea-b128", []byte{b0 | 0x80}, 2)
		batch(g, "ea-b128", []byte{b0 | 0x80, 0x80 | byte(r.U64())}, 2)
	}
	for i, n := 0, g.N(10000, 600000); i < n; i++ {
		// structured: a sequence of base-128 groups with chosen continuation patterns
		var c []byte
		for k, groups := 0, 1+r.Intn(5); k < groups; k++ {
			gl := 1 + r.Intn(6)
			for j := 0; j < gl; j++ {
				b := ibyte(r)
				if j < gl-1 {
					b |= 0x80
				} else {
					b &= 0x7f
				}
				if j == 0 && gl > 1 && r.Chance(15) {
					b = 0x80
				}
				if j == 0 && gl >= 5 && r.Chance(70) {
					b = 0x80 | byte(r.Intn(0x11)) // around 2^28 .. 2^32
				}
				c = append(c, b)
			}
		}
		if r.Chance(8) {
			c[len(c)-1] |= 0x80 // truncated last group
		}
		if r.Chance(5) {
			c = ibytes(r, 1+r.Intn(12))
		}
		emit(g, "ea-oid", c)
		if r.Chance(40) {
			emit(g, "ea-b128", c)
		}
		el := cbEl(0x06, c)
		if r.Chance(20) {
			el = append(el, ibytes(r, 1+r.Intn(3))...)
		}
		emit(g, "cb-oid", el)
	}

	// ---- bit strings: every content <= 3 bytes (pad byte x <= 2 data bytes) ----
	for n := 0; n <= 1; n++ {
		allOf(n, func(c []byte) {
			emit(g, "ea-bits", c)
			emit(g, "cb-bits", cbEl(0x03, c))
		})
	}
	allOf(1, func(p []byte) {
		batch(g, "ea-bits", p, 1)
		batch(g, "cb-bits", []byte{0x03, 0x02, p[0]}, 1)
		if thorough || p[0] <= 9 || p[0] == 0x80 || p[0] == 0xff {
			batch(g, "ea-bits", p, 2)
			batch(g, "cb-bits", []byte{0x03, 0x03, p[0]}, 2)
		}
	})
	for i, n := 0, g.N(5000, 200000); i < n; i++ {
		l := 1 + r.Intn(12)
		if r.Chance(3) {
			l = 120 + r.Intn(20)
		}
		c := ibytes(r, l)
		c[0] = byte(r.Intn(9))
		if r.Chance(50) && l > 1 && c[0] < 8 {
			c[l-1] &^= byte(1<<c[0] - 1)
			if r.Chance(30) && c[0] > 0 {
				c[l-1] |= 1 << uint(r.Intn(int(c[0])))
			}
		}
		emit(g, "ea-bits", c)
		el := cbEl(0x03, c)
		if r.Chance(20) {
			el = append(el, ibytes(r, 1+r.Intn(3))...)
		}
		emit(g, "cb-bits", el)
	}

	// ---- headers, encoding/asn1: every string <= 3 bytes for a low and a high first octet; 3..6-byte headers ----
	for n := 0; n <= 1; n++ {
		allOf(n, func(c []byte) { emit(g, "ea-hdr", c) })
	}
	allOf(1, func(p []byte) { batch(g, "ea-hdr", p, 1) })
	lowTags := []byte{0x30, 0x02, 0xa0, 0xde}
	highTags := []byte{0x1f, 0x3f, 0xdf, 0xff}
	if !thorough {
		lowTags, highTags = lowTags[:1], highTags[:1]
	}
	for _, t := range lowTags { // low-tag form: t, length octets
		batch(g, "ea-hdr", []byte{t}, 2)       // every 3-byte string
		batch(g, "ea-hdr", []byte{t, 0x82}, 2) // every 2-byte long form
		batch(g, "ea-hdr", []byte{t, 0x81}, 1)
		allOf(1, func(p []byte) {
			if thorough {
				batch(g, "ea-hdr", []byte{t, 0x83, p[0]}, 2) // every 3-byte long form
				batch(g, "ea-hdr", []byte{t, 0x84, p[0], ibyte(r)}, 2)
			}
			for _, q := range edge {
				batch(g, "ea-hdr", []byte{t, 0x83, p[0], q}, 1)
				batch(g, "ea-hdr", []byte{t, 0x84, p[0], q, ibyte(r)}, 1)
			}
			batch(g, "ea-hdr", []byte{t, 0x85, 0x00, p[0], 0x00, 0x00}, 1)
			batch(g, "ea-hdr", []byte{t, p[0] | 0x80}, 1)
		})
		for _, q := range []byte{0x00, 0x01, 0x7f, 0x80} {
			batch(g, "ea-hdr", []byte{t, 0x83, q}, 2)
			batch(g, "ea-hdr", []byte{t, 0x84, 0x00, q}, 2)
		}
	}
	for _, t := range highTags { // high-tag form: t, base-128 tag, length
		batch(g, "ea-hdr", []byte{t}, 2)
		allOf(1, func(p []byte) {
			if thorough {
				batch(g, "ea-hdr", []byte{t, p[0]}, 2) // every 4-byte string starting with t
			}
			for _, q := range edge {
				batch(g, "ea-hdr", []byte{t, p[0], q}, 1)
				batch(g, "ea-hdr", []byte{t, p[0] | 0x80, q | 0x80, ibyte(r) & 0x7f}, 1)
			}
		})
		for _, q := range []byte{0x80, 0x81, 0xff, 0x1e, 0x1f} {
			batch(g, "ea-hdr", []byte{t, q}, 2)
		}
	}
	for i, n := 0, g.N(10000, 400000); i < n; i++ {
		var c []byte
		t := ibyte(r)
		c = append(c, t)
		if t&0x1f == 0x1f || r.Chance(10) {
			gl := 1 + r.Intn(6)
			for j := 0; j < gl; j++ {
				b := ibyte(r)
				if j < gl-1 {
					b |= 0x80
				} else {
					b &= 0x7f
				}
				if j == 0 && gl >= 5 {
					b = 0x80 | byte(r.Intn(0x11))
				}
				c = append(c, b)
			}
		}
		switch r.Intn(4) {
		case 0:
			c = append(c, byte(r.Intn(0x80)))
		case 1:
			nb := r.Intn(7)
			c = append(c, 0x80|byte(nb))
			c = append(c, ibytes(r, nb)...)
		case 2:
			nb := 1 + r.Intn(4)
			c = append(c, 0x80|byte(nb))
			lb := ibytes(r, nb)
			lb[0] = []byte{0x00, 0x01, 0x7f, 0x80, 0xff}[r.Intn(5)]
			c = append(c, lb...)
		case 3:
			c = append(c, ibytes(r, r.Intn(4))...)
		}
		if r.Chance(30) {
			c = append(c, ibytes(r, r.Intn(3))...)
		}
		emit(g, "ea-hdr", c)
	}

	// ---- headers, cryptobyte: every 2-byte header with its content present ----
	fill := func(h []byte, l int) []byte {
		if l > 700 {
			l = 16 // declared length not supplied: rejected as truncated on both sides
		}
		return append(append([]byte{}, h...), make([]byte, l)...)
	}
	allOf(2, func(h []byte) {
		if !thorough && !(h[0] == 0x04 || h[0] == 0x30 || h[0]&0x1f >= 0x1e || bytes.IndexByte(edge, h[1]) >= 0 || h[1]&0x7f <= 5) {
			return
		}
		if h[1] < 0x80 {
			emit(g, "cb-any", fill(h, int(h[1])))
			if h[1] > 0 && (thorough || h[0] == 0x04) {
				emit(g, "cb-any", fill(h, int(h[1])-1)) // one byte short
			}
		} else {
			emit(g, "cb-any", fill(h, 4))
		}
	})
	batch(g, "cb-any", nil, 2)
	tags := []byte{0x04, 0x30, 0x1f, 0xa0}
	if !thorough {
		tags = tags[:1]
	}
	for _, t := range tags {
		batch(g, "cb-any", []byte{t}, 2)
		allOf(1, func(p []byte) { // 0x81 L
			emit(g, "cb-any", fill([]byte{t, 0x81, p[0]}, int(p[0])))
			emit(g, "cb-any", fill([]byte{t, 0x81, p[0]}, int(p[0])+1))
		})
		allOf(2, func(p []byte) { // 0x82 L1 L2
			l := int(p[0])<<8 | int(p[1])
			if thorough || l < 0x180 || (p[0] < 3 && (p[1] == 0 || p[1] == 0xff)) || r.Chance(1) {
				emit(g, "cb-any", fill([]byte{t, 0x82, p[0], p[1]}, l))
			}
		})
		allOf(1, func(p []byte) { // 0x83 / 0x84 / 0x85 prefixes
			for _, q := range []byte{0x00, 0x01, 0x80} {
				emit(g, "cb-any", fill([]byte{t, 0x83, p[0], q, 0x10}, int(p[0])<<16|int(q)<<8|0x10))
				emit(g, "cb-any", fill([]byte{t, 0x84, p[0], q, 0x00, 0x10}, int(p[0])<<24|int(q)<<16|0x10))
			}
			emit(g, "cb-any", fill([]byte{t, 0x84, 0xff, 0xff, 0xff, p[0]}, 16))
			emit(g, "cb-any", fill([]byte{t, 0x80 | p[0]&0x7f, 0x00, 0x00, 0x00, 0x00, 0x01}, 16))
		})
	}
	// real long elements across the 0xffff/0x10000 boundary
	for _, l := range []int{0x7f, 0x80, 0xff, 0x100, 0xffff, 0x10000, 0x10001} {
		c := r.Bytes(l)
		emit(g, "cb-any", cbEl(0x04, c))
		emit(g, "cb-any", append(cbEl(0x30, c), 0x05, 0x00))
		emit(g, "cb-bits", cbEl(0x03, append([]byte{0}, c...)))
	}
	emit(g, "cb-any", fill([]byte{0x04, 0x83, 0x00, 0xff, 0xff}, 0xffff))
	emit(g, "cb-any", fill([]byte{0x04, 0x84, 0x00, 0x01, 0x00, 0x00}, 0x10000))
	for i, n := 0, g.N(5000, 200000); i < n; i++ {
		l := r.Intn(300)
		if r.Chance(50) {
			l = []int{0, 1, 0x7e, 0x7f, 0x80, 0x81, 0xfe, 0xff, 0x100, 0x101}[r.Intn(10)]
		}
		el := cbEl(ibyte(r), r.Bytes(l))
		switch r.Intn(6) {
		case 0:
			el = el[:len(el)-r.Intn(len(el))]
		case 1:
			el[1] ^= byte(1 << uint(r.Intn(8)))
		case 2:
			el = append(el, ibytes(r, 1+r.Intn(4))...)
		}
		emit(g, "cb-any", el)
	}

	// ---- GeneralizedTime (cryptobyte) ----
	for i, n := 0, g.N(3000, 100000); i < n; i++ {
		t := time.Unix(int64(r.U64()%253402300800), 0).UTC()
		s := []byte(t.Format("20060102150405Z"))
		switch r.Intn(8) {
		case 0:
			s = []byte(t.Format("20060102150405-0700"))
		case 1:
			s = []byte(t.Format("20060102150405") + []string{"+0000", "-0000", "+0100", "-1200", "+2400", "Z0000"}[r.Intn(6)])
		case 2:
			s[r.Intn(len(s))] = "0123456789Z+-. "[r.Intn(15)]
		case 3:
			s = []byte(t.Format("200601021504Z"))
		case 4:
			s = []byte(t.Format("20060102150405.000Z"))
		}
		emit(g, "cb-gtime", cbEl(0x18, s))
	}
	// ---- GeneralizedTime / UTCTime (cryptobyte), aimed at every guard of time.Parse for the layout, the re-serialisation
	// test and the element header (appended last: the lines above do not depend on these) ----
	alphabet := "0123456789Z+-.,: z"
	gBases := []string{"20240229235959Z", "00000101000000+0100", "99991231235959-2400", "20230615123015.5Z", "19000228235959-0030"}
	uBases := []string{"491231235959Z", "500101000000+0100", "000229120030-2459", "6802291200Z", "6912312359-0100"}
	timeBases := func(op string, tag byte, bases []string) {
		for _, b := range bases {
			emit(g, op, cbEl(tag, []byte(b)))
			emit(g, op, append(cbEl(tag, []byte(b)), 0x05, 0x00))      // trailing data stays unread
			emit(g, op, append([]byte{tag, 0x81, byte(len(b))}, b...)) // non-minimal length
			emit(g, op, cbEl(tag^0x20, []byte(b)))                     // constructed bit
			emit(g, op, cbEl(tag^0x0f, []byte(b)))                     // the other time type's tag
			emit(g, op, cbEl(tag, []byte(b))[:len(b)+1])               // truncated
			for pos := 0; pos < len(b); pos++ {
				for _, ch := range []byte(alphabet) {
					m := []byte(b)
					m[pos] = ch
					emit(g, op, cbEl(tag, m))
				}
				emit(g, op, cbEl(tag, []byte(b[:pos]+b[pos+1:])))
				emit(g, op, cbEl(tag, []byte(b[:pos]+"0"+b[pos:])))
			}
		}
	}
	timeBases("cb-gtime", 0x18, gBases)
	timeBases("cb-utime", 0x17, uBases)
	for _, z := range []string{"Z", "", "+0000", "-0000", "+0001", "-0001", "+0059", "+0060", "+0100", "-0100", "+2359", "+2400", "-2400", "+2459", "-2459", "+2460", "+2500", "-2500",
		"+01:00", "ZZ", "+0100Z", ".5Z", ",5Z", ".0Z", ".000000000Z", ".5+0100"} {
		for _, d := range []string{"0101000000", "0229235959", "0230000000", "1231235960", "1301000000", "0100000000", "0431120000", "0430240000", "0430236000"} {
			for _, y := range []string{"0000", "1900", "2000", "2023", "2024", "9999"} {
				emit(g, "cb-gtime", cbEl(0x18, []byte(y+d+z)))
			}
			for _, y := range []string{"00", "23", "24", "49", "50", "68", "69", "99", "+5", "-5"} {
				emit(g, "cb-utime", cbEl(0x17, []byte(y+d+z)))
				emit(g, "cb-utime", cbEl(0x17, []byte(y+d[:8]+z)))
			}
		}
	}
	for i, n := 0, g.N(3000, 100000); i < n; i++ {
		off := []int{0, 0, 3600, -3600, 19800, -43200, 86340, -86340, 86400, -86400, 89940, 60, -60}[r.Intn(13)]
		loc := time.UTC
		if off != 0 {
			loc = time.FixedZone("", off)
		}
		op, tag, layout := "cb-gtime", byte(0x18), "20060102150405Z0700"
		t := time.Unix(int64(r.U64()%253402300800), 0).In(loc)
		if r.Bool() {
			op, tag, layout = "cb-utime", 0x17, []string{"060102150405Z0700", "0601021504Z0700"}[r.Intn(2)]
			t = time.Unix(-631152000+int64(r.U64()%(100*366*86400)), 0).In(loc)
		}
		s := []byte(t.Format(layout))
		for k := r.Intn(3); k > 0 && len(s) > 0; k-- {
			pos := r.Intn(len(s))
			ch := alphabet[r.Intn(len(alphabet))]
			switch r.Intn(3) {
			case 0:
				s[pos] = ch
			case 1:
				s = append(s[:pos:pos], append([]byte{ch}, s[pos:]...)...)
			default:
				s = append(s[:pos:pos], s[pos+1:]...)
			}
		}
		el := cbEl(tag, s)
		if r.Chance(10) {
			el = append(el, ibytes(r, 1+r.Intn(3))...)
		}
		emit(g, op, el)
	}
	// ---- fourth wave ----
	// string types: every content of <= 1 byte singly, every 2-byte content in one batch per first-byte class, random longer
	for _, op := range []string{"ea-num", "ea-prt", "ea-ia5", "ea-t61"} {
		emit(g, op, nil)
		allOf(1, func(c []byte) { emit(g, op, c) })
		for _, p := range []byte{' ', '&', '*', '0', '9', ':', 'A', 'Z', 'a', 'z', 0x7f, 0x80, 0xff, byte(r.U64())} {
			batch(g, op, []byte{p}, 1)
		}
		for i := g.N(150, 1500); i > 0; i-- {
			n := 2 + r.Intn(30)
			c := make([]byte, n)
			for j := range c {
				c[j] = "0123456789 abcxyzABCXYZ'()+,-./:=?"[r.Intn(34)]
			}
			if r.Chance(50) {
				c[r.Intn(n)] = []byte{'&', '*', '!', '"', '#', '$', '%', ';', '<', '>', '@', '[', '_', '`', '{', 0x7f, 0x80, 0xff, 0x1f, 0x00, byte(r.U64())}[r.Intn(21)]
			}
			emit(g, op, c)
		}
	}
	// ENUMERATED / OCTET STRING / NULL elements; cross-codec agreement on the same contents
	for n := 0; n <= 1; n++ {
		allOf(n, func(c []byte) {
			emit(g, "cb-enum", cbEl(0x0a, c))
			emit(g, "cb-null", cbEl(0x05, c))
			emit(g, "x-int", c)
			emit(g, "x-bool", c)
			emit(g, "x-bits", c)
			emit(g, "x-oid", c)
		})
	}
	allOf(1, func(p []byte) {
		batch(g, "cb-enum", []byte{0x0a, 0x02, p[0]}, 1)
		batch(g, "x-int", p, 1)
		batch(g, "x-big", p, 1)
		batch(g, "x-oid", p, 1)
		batch(g, "x-bits", p, 1)
		batch(g, "x-hdr", p, 1)
	})
	for _, p := range edge {
		batch(g, "x-oid", []byte{0x2a, p}, 1)
		batch(g, "x-oid", []byte{p, 0x81}, 1)
		batch(g, "x-bits", []byte{p & 7, p}, 1)
		batch(g, "x-int", []byte{p, p}, 1)
		batch(g, "x-hdr", []byte{0x30, 0x82, p}, 1)
		batch(g, "x-hdr", []byte{0x04, 0x81}, 1)
		batch(g, "cb-enum", []byte{0x0a, 0x03, p}, 2)
	}
	for _, l := range []string{
		"c19 x-oid 2a8180808000", "c19 x-oid 2a87ffffff7f", "c19 x-oid 2a8880808000", "c19 x-oid 2a8fffffff7f", "c19 x-oid 2a818080808000", "c19 x-oid 8f8080807f", "c19 x-oid 2a8001",
		"c19 x-hdr 1f1f00", "c19 x-hdr 0400", "c19 x-hdr 04820080", "c19 x-hdr 0483010000", "c19 x-hdr 048401000000", "c19 x-hdr 048500000000ff", "c19 x-hdr 0484ffffffff", "c19 x-hdr 048480000000", "c19 x-hdr 04847fffffff",
		"c19 cb-enum 0a0100", "c19 cb-enum 0a020080", "c19 cb-enum 0a020001", "c19 cb-enum 0a087fffffffffffffff", "c19 cb-enum 0a09008000000000000000", "c19 cb-enum 020100", "c19 cb-enum 0a00",
		"c19 cb-null 0500", "c19 cb-null 050100", "c19 cb-null 058100", "c19 cb-null 0400", "c19 cb-null 0500ff", "c19 cb-null 05", "c19 cb-null 2500",
		"c19 cb-oct 0400", "c19 cb-oct 040141", "c19 cb-oct 04810141", "c19 cb-oct 2400", "c19 cb-oct 0500",
		"c19 ea-prt 41264 2", "c19 ea-prt 412a42", "c19 ea-prt 26", "c19 ea-num 3020", "c19 ea-num 2f", "c19 ea-num 3a", "c19 ea-ia5 7f", "c19 ea-ia5 80",
	} {
		g.Emit(strings.Replace(l, "41264 2", "412642", 1))
	}
	for i := g.N(600, 6000); i > 0; i-- {
		n := r.Intn(12)
		c := ibytes(r, n)
		switch r.Intn(8) {
		case 0:
			emit(g, "cb-enum", cbEl(0x0a, c))
		case 1:
			el := cbEl(0x04, ibytes(r, []int{0, 1, 127, 128, 255, 256, 300}[r.Intn(7)]))
			if r.Chance(20) {
				el = append(el, ibytes(r, 1+r.Intn(3))...)
			}
			if r.Chance(10) && len(el) > 2 {
				el = el[:len(el)-1]
			}
			emit(g, "cb-oct", el)
		case 2:
			emit(g, "x-int", c)
		case 3:
			emit(g, "x-big", ibytes(r, 1+r.Intn(20)))
		case 4:
			emit(g, "x-oid", c)
		case 5:
			if n > 0 {
				c[0] &= 7
				if r.Chance(60) {
					c[n-1] &^= byte(1<<c[0] - 1)
				}
			}
			emit(g, "x-bits", c)
		case 6:
			emit(g, "x-hdr", cbEl([]byte{0x04, 0x30, 0xa0, 0x1e, 0x1f, 0x85}[r.Intn(6)], ibytes(r, []int{0, 1, 127, 128, 255, 256, 70000}[r.Intn(7)])))
		default:
			h := ibytes(r, 2+r.Intn(5))
			if r.Bool() {
				h[1] = 0x80 | byte(1+r.Intn(5))
			}
			emit(g, "x-hdr", append(h, make([]byte, r.Intn(300))...))
		}
	}
}

func init() {
	zv.Register(&zv.Prop{ID: "C19", Topic: "c19", Gen: gen, Exec: exec,
		Rule: "layer-0 DER decoders of encoding/asn1 (hooks) and cryptobyte (public API), strict mode: every INTEGER content <= 2 bytes singly and every 3-byte content in batches (x int64/int32/big, x int64/uint64/big readers), every BOOLEAN content <= 2 bytes, every OID / base-128 body <= 3 bytes (4 in thorough), every BIT STRING content <= 3 bytes, every header <= 2 bytes and 3..6-byte headers by first-byte class, every cryptobyte 2-byte header and 0x81/0x82 length with content present, long elements at the 0x7f/0x80/0xff/0x100/0xffff/0x10000 boundaries, plus random longer encodings with tails/truncations; cryptobyte GeneralizedTime / UTCTime elements (model-compared: value, unread length, the Builder's re-encoding): every single-character replacement over an 18-character alphabet in 10 base strings, one character removed / inserted, every zone form x month/leap/clock boundary dates x years, non-minimal length, wrong / constructed tag, truncation, trailing data, random edits of valid texts in zones up to 24h59; a case is one input (a batch line enumerates 256^k inputs); T3 = re-encoding the accepted value with the same library reproduces the consumed bytes"})
}
