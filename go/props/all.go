// Package props links every property's harness code into zvharness.
package props

import (
	_ "zv/props/c35"
)
