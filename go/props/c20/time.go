package c20

// time.Time at the asn1 level of C20 (T2 + T3), both parsing modes on the same bytes:
//
//	c20 tpc <u|g> <hex>            parseUTCTime / parseGeneralizedTime (hooks)      <strict>|<permissive>, each ok <time> | err
//	c20 tu time p=<params> <hex>   UnmarshalWithParams into a time.Time             <strict>|<permissive>, each ok <time> <len(rest)> | err
//
// Models: lean/ZV/Model/Time.lean (the flag is the `perm` parameter of EA.parseUTCTime / EA.parseGeneralizedTime) and
// lean/ZV/Model/C18Time.lean; theorems perm_extends_utctime / _gentime / _time_field. <time> = T<unix>.<nsec>@<off>.

import (
	"fmt"
	"time"

	"github.com/zmap/zcrypto/encoding/asn1"

	"zv/internal/zv"
	"zv/props/c18"
)

func withMode(perm bool, f func() string) string {
	permMu.Lock()
	defer permMu.Unlock()
	defer func() { asn1.AllowPermissiveParsing = false }()
	asn1.AllowPermissiveParsing = perm
	return f()
}

func execTime(f []string) zv.Out {
	var run func() string
	switch {
	case f[1] == "tpc" && len(f) == 4:
		in := zv.UnHex(f[3])
		run = func() string {
			var t time.Time
			var err error
			if f[2] == "u" {
				t, err = asn1.ZVParseUTCTime(in)
			} else {
				t, err = asn1.ZVParseGeneralizedTime(in)
			}
			if err != nil {
				return "err"
			}
			return "ok " + c18.TimeTok(t)
		}
	case f[1] == "tu" && len(f) == 5 && f[2] == "time" && len(f[3]) >= 2:
		der := zv.UnHex(f[4])
		run = func() string {
			var got time.Time
			rest, err := asn1.UnmarshalWithParams(der, &got, f[3][2:])
			if err != nil {
				return "err"
			}
			return fmt.Sprintf("ok %s %d", c18.TimeTok(got), len(rest))
		}
	default:
		return zv.Out{Go: "bad-op"}
	}
	st := withMode(false, run)
	pm := withMode(true, run)
	out := zv.Out{Go: st + "|" + pm, Tags: []string{"time:" + f[1]}}
	switch {
	case st != "err" && pm == "err":
		out.Viol = "strict time parsing succeeds (" + st + ") but permissive parsing fails"
	case st != "err" && pm != st:
		out.Viol = "strict and permissive time parsing both succeed with different results: " + st + " vs " + pm
	case st != "err":
		out.Tags = append(out.Tags, "time:strict-ok")
	case pm != "err":
		out.Tags = append(out.Tags, "time:perm-only-ok")
	default:
		out.Tags = append(out.Tags, "time:both-err")
	}
	return out
}

// genTime: contents around the one permissive site of each parser (the re-serialisation test): zone +0000 / -0000,
// +hh60, fractional seconds, a sign in the two-digit year, a one-digit hour; valid contents with one edit; the same inside
// TLVs with field parameters. A generator of its own: the older streams do not depend on it.
func genTime(g *zv.Gen) {
	r := zv.NewRng(g.Seed*0x9e3779b97f4a7c15 + 0x7c20)
	alphabet := "0123456789Z+-.,: "
	uBases := []string{"491231235959Z", "500101000000+0100", "6802291200Z", "000229120030-2459", "+50101000000Z", "2401011200+0000", "240101120000.5Z", "240101120000+0060"}
	gBases := []string{"20240229235959Z", "00000101000000+0100", "99991231235959-2400", "20230615123015.123Z", "20240101000000+0000", "20240101000000-0000", "20240101000000+0160", "20240101000000+2460"}
	decos := []string{"", "utc", "generalized", "tag:0", "tag:0,generalized", "explicit,tag:1", "optional,tag:2", "application,tag:3,utc", "private,explicit,tag:4"}
	wrap := func(d string, ut byte, c []byte) []byte {
		p := c18.ParsePrm(d)
		tg := ut
		cls := byte(2)
		if p.Application {
			cls = 1
		} else if p.Private {
			cls = 3
		}
		if p.HasTag && !p.Explicit {
			tg = cls<<6 | byte(p.Tag)
		}
		enc := append([]byte{tg, byte(len(c))}, c...)
		if p.Explicit {
			enc = append([]byte{cls<<6 | 0x20 | byte(p.Tag), byte(len(enc))}, enc...)
		}
		return enc
	}
	one := func(k string, c []byte) {
		g.Emitf("c20 tpc %s %s", k, zv.Hex(c))
		ut := byte(23)
		if k == "g" {
			ut = 24
		}
		d := decos[r.Intn(len(decos))]
		enc := wrap(d, ut, c)
		if r.Chance(10) {
			enc = append(enc, 0x05, 0x00)
		}
		g.Emitf("c20 tu time p=%s %s", d, zv.Hex(enc))
	}
	for _, kb := range []struct {
		k     string
		bases []string
	}{{"u", uBases}, {"g", gBases}} {
		for _, b := range kb.bases {
			one(kb.k, []byte(b))
			for pos := 0; pos < len(b); pos++ {
				for _, ch := range []byte(alphabet) {
					m := []byte(b)
					m[pos] = ch
					one(kb.k, m)
				}
			}
		}
	}
	for i, n := 0, g.N(3000, 100000); i < n; i++ {
		k, layout := "g", "20060102150405Z0700"
		t := time.Unix(int64(r.U64()%253402300800), 0).UTC()
		if r.Bool() {
			k, layout = "u", []string{"060102150405Z0700", "0601021504Z0700"}[r.Intn(2)]
			t = time.Unix(-631152000+int64(r.U64()%(100*366*86400)), 0).UTC()
		}
		if off := []int{0, 0, 3600, -3600, 19800, 86400, 60}[r.Intn(7)]; off != 0 {
			t = t.In(time.FixedZone("", off))
		}
		s := []byte(t.Format(layout))
		if r.Chance(30) {
			s = []byte(t.Format(layout[:len(layout)-5]) + []string{"+0000", "-0000", "+0060", "+2460", ".5Z", ",25Z", ".000+0100"}[r.Intn(7)])
		}
		for e := r.Intn(2); e > 0 && len(s) > 0; e-- {
			pos := r.Intn(len(s))
			switch r.Intn(3) {
			case 0:
				s[pos] = alphabet[r.Intn(len(alphabet))]
			case 1:
				s = append(s[:pos:pos], append([]byte{alphabet[r.Intn(len(alphabet))]}, s[pos:]...)...)
			default:
				s = append(s[:pos:pos], s[pos+1:]...)
			}
		}
		one(k, s)
	}
}
