package c20

// x509-level sites of asn1.AllowPermissiveParsing (T2 + T3), both modes on the same input, through the verif hooks of
// x509/zv_c20_verif.go.  Models: lean/ZV/Model/C20X.lean; theorems perm_extends_<site> in lean/ZV/Props/C20.lean.
//
//	c20 xsch <type name> <schema>      the schema the model uses for a Go type = the schema reflected from the real type
//	c20 xpk <hex>                      parsePublicKey(RSA, …) on the subjectPublicKey bytes
//	c20 xpa <algo> <hex key> <hex params> <ecbits>   parsePublicKey, any algorithm number; ecbits = elliptic.Unmarshal(curve,
//	                                   key) != nil for P-224/256/384/521 (the model's abstract predicate ecOk)
//	c20 xgn <hex>                      parseGeneralNames
//	c20 xpc <ext>[,<ext>…]             parseCertificate on a fixed well-formed certificate whose extension list is
//	                                   replaced; <ext> = <oid>:<t|f critical>:<hex value>:<strict tok>:<perm tok>, the two
//	                                   tokens being the outcome of the opaque sub-parser of that extension (Tor, SCT
//	                                   QCStatements.Parse) in each mode, for the SCT list "d" + the DeserializeSCT bits
//	                                   ("-" when the extension has none)
//	c20 xsub <oid> <hex value>         T3-only: the hypothesis "the sub-parser itself is conservative" on the real Tor /
//	                                   SCT-list / QCStatements sub-parser
//
// Output "<strict>|<permissive>", each "err" or "ok <canonical fields>".

import (
	"bytes"
	"crypto/ed25519"
	"crypto/elliptic"
	"fmt"
	"math/big"
	"net"
	"reflect"
	"sort"
	"strconv"
	"strings"
	"time"

	"github.com/zmap/zcrypto/dsa"
	"github.com/zmap/zcrypto/encoding/asn1"
	"github.com/zmap/zcrypto/rsa"
	"github.com/zmap/zcrypto/x509"
	"github.com/zmap/zcrypto/x509/ct"
	"github.com/zmap/zcrypto/x509/pkix"

	"zv/internal/zv"
	"zv/props/c18"
)

// schemaOfX is c18.SchemaOf with interface{} (ANY) read as RawValue (see anyOk in the model).
func schemaOfX(t reflect.Type) *c18.Sch {
	switch t.Kind() {
	case reflect.Interface:
		return &c18.Sch{Kind: "raw"}
	case reflect.Slice:
		if t.Elem().Kind() != reflect.Uint8 && t != reflect.TypeOf(asn1.ObjectIdentifier(nil)) {
			k := "L"
			if strings.HasSuffix(t.Name(), "SET") {
				k = "LS"
			}
			return &c18.Sch{Kind: k, Elem: schemaOfX(t.Elem())}
		}
	case reflect.Struct:
		if t != reflect.TypeOf(asn1.BitString{}) && t != reflect.TypeOf(asn1.RawValue{}) {
			s := &c18.Sch{Kind: "S"}
			for i := 0; i < t.NumField(); i++ {
				f := t.Field(i)
				s.Fields = append(s.Fields, c18.Fld{Tag: f.Tag.Get("asn1"), S: schemaOfX(f.Type)})
			}
			return s
		}
	}
	return c18.SchemaOf(t)
}

func xTypes() map[string]reflect.Type {
	m := x509.ZVC20Types()
	m["OtherName"] = reflect.TypeOf(pkix.OtherName{})
	m["EDIPartyName"] = reflect.TypeOf(pkix.EDIPartyName{})
	m["RDNSequence"] = reflect.TypeOf(pkix.RDNSequence(nil))
	m["CABFOrganizationIDASN"] = reflect.TypeOf(x509.CABFOrganizationIDASN{})
	m["QCStatements"] = reflect.TypeOf([]x509.QCStatementASN(nil))
	m["extKeyUsage"] = reflect.TypeOf([]asn1.ObjectIdentifier(nil))
	return m
}

var xTemplate []byte

func template() []byte {
	if xTemplate == nil {
		for seed := uint64(20); ; seed++ {
			der := ecdsaSelfSigned(zv.NewRng(seed))
			if c, err := parseMode(der, false); err == nil && c != nil {
				xTemplate = der
				break
			}
		}
	}
	return xTemplate
}

func hexs(l []string) string {
	var o []string
	for _, s := range l {
		o = append(o, c18Hex([]byte(s)))
	}
	return strings.Join(o, ",")
}
func c18Hex(b []byte) string {
	if len(b) == 0 {
		return "-"
	}
	return zv.Hex(b)
}
func dumpOf(v interface{}) string {
	t := reflect.TypeOf(v)
	return c18.DumpStr(schemaOfX(t), reflect.ValueOf(v))
}

type gnOut struct {
	other  []pkix.OtherName
	email  []string
	dns    []string
	uri    []string
	dir    []pkix.Name
	edi    []pkix.EDIPartyName
	ip     [][]byte
	rid    []asn1.ObjectIdentifier
	failed []asn1.RawValue
}

func oidList(l []asn1.ObjectIdentifier) string {
	var o []string
	for _, x := range l {
		o = append(o, dumpOf(x))
	}
	return strings.Join(o, ",")
}

// rdnString renders a decoded RDNSequence with the Go values of its ANY fields (RDNs joined by "_", attributes by "+").
func rdnString(rdns pkix.RDNSequence) string {
	var rs []string
	for _, rdn := range rdns {
		var as []string
		for _, atv := range rdn {
			v := "?"
			switch x := atv.Value.(type) {
			case nil:
				v = "n"
			case string:
				v = "x" + c18Hex([]byte(x))
			case []byte:
				v = "x" + c18Hex(x)
			case int64:
				v = "i" + strconv.FormatInt(x, 10)
			case asn1.BitString:
				v = dumpOf(x)
			case asn1.ObjectIdentifier:
				v = dumpOf(x)
			case time.Time:
				v = "T"
			}
			as = append(as, dumpOf(atv.Type)+"="+v)
		}
		rs = append(rs, strings.Join(as, "+"))
	}
	return strings.Join(rs, "_")
}

func rawList(l []asn1.RawValue) string {
	var o []string
	for _, x := range l {
		o = append(o, dumpOf(x))
	}
	return strings.Join(o, ",")
}

func (g gnOut) String() string {
	var other, dir, edi, ip, rid []string
	for _, x := range g.other {
		other = append(other, dumpOf(x))
	}
	for _, x := range g.dir {
		dir = append(dir, rdnString(x.OriginalRDNS))
	}
	for _, x := range g.edi {
		edi = append(edi, dumpOf(x))
	}
	for _, x := range g.ip {
		ip = append(ip, c18Hex(x))
	}
	for _, x := range g.rid {
		rid = append(rid, dumpOf(x))
	}
	return "o[" + strings.Join(other, ",") + "]e[" + hexs(g.email) + "]d[" + hexs(g.dns) + "]u[" + hexs(g.uri) + "]n[" +
		strings.Join(dir, ",") + "]p[" + strings.Join(edi, ",") + "]i[" + strings.Join(ip, ",") + "]r[" + strings.Join(rid, ",") + "]"
}

func tf(b bool) string {
	if b {
		return "t"
	}
	return "f"
}

// dumpCertX renders the result fields the model's Cert has, in the model's order.
func dumpCertX(c *x509.Certificate) string {
	ips := func(l []net.IP) [][]byte {
		var o [][]byte
		for _, x := range l {
			o = append(o, []byte(x))
		}
		return o
	}
	san := gnOut{other: c.OtherNames, email: c.EmailAddresses, dns: c.DNSNames, uri: c.URIs, dir: c.DirectoryNames, edi: c.EDIPartyNames, ip: ips(c.IPAddresses), rid: c.RegisteredIDs}
	ian := gnOut{other: c.IANOtherNames, email: c.IANEmailAddresses, dns: c.IANDNSNames, uri: c.IANURIs, dir: c.IANDirectoryNames, edi: c.IANEDIPartyNames, ip: ips(c.IANIPAddresses), rid: c.IANRegisteredIDs}
	nce := func(kind int, data string, min, max int) string {
		return fmt.Sprintf("%d/%s/%d/%d", kind, data, min, max)
	}
	nc := func(em, dn []x509.GeneralSubtreeString, x4 []x509.GeneralSubtreeRaw, dir []x509.GeneralSubtreeName, edi []x509.GeneralSubtreeEdi,
		uri []x509.GeneralSubtreeString, ip []x509.GeneralSubtreeIP, rid []x509.GeneralSubtreeOid) string {
		var o []string
		for _, x := range em {
			o = append(o, nce(1, c18Hex([]byte(x.Data)), x.Min, x.Max))
		}
		for _, x := range dn {
			o = append(o, nce(2, c18Hex([]byte(x.Data)), x.Min, x.Max))
		}
		for _, x := range x4 {
			o = append(o, nce(3, dumpOf(x.Data), x.Min, x.Max))
		}
		for _, x := range dir {
			o = append(o, nce(4, rdnString(x.Data.OriginalRDNS), x.Min, x.Max))
		}
		for _, x := range edi {
			o = append(o, nce(5, dumpOf(x.Data), x.Min, x.Max))
		}
		for _, x := range uri {
			o = append(o, nce(6, c18Hex([]byte(x.Data)), x.Min, x.Max))
		}
		for _, x := range ip {
			o = append(o, nce(7, c18Hex(append(append([]byte{}, x.Data.IP...), x.Data.Mask...)), x.Min, x.Max))
		}
		for _, x := range rid {
			o = append(o, nce(8, dumpOf(x.Data), x.Min, x.Max))
		}
		return strings.Join(o, ",")
	}
	oct := func(b []byte) string {
		if b == nil {
			return "n"
		}
		return "x" + c18Hex(b)
	}
	pol := "n"
	if c.PolicyIdentifiers != nil {
		var o []string
		for i, id := range c.PolicyIdentifiers {
			var q []string
			for _, x := range c.QualifierId[i] {
				q = append(q, dumpOf(x))
			}
			o = append(o, dumpOf(id)+"/q["+strings.Join(q, ";")+"]/c["+strings.ReplaceAll(hexs(c.CPSuri[i]), ",", ";")+"]/t["+
				strings.ReplaceAll(hexs(c.ParsedExplicitTexts[i]), ",", ";")+"]/g["+strings.ReplaceAll(hexs(c.ParsedNoticeRefOrganization[i]), ",", ";")+"]/"+
				strconv.Itoa(len(c.UserNotices[i])))
		}
		pol = "p[" + strings.Join(o, ",") + "]"
	}
	cabf := "n"
	if o := c.CABFOrganizationIdentifier; o != nil {
		cabf = "V4;x" + c18Hex([]byte(o.Scheme)) + ";x" + c18Hex([]byte(o.Country)) + ";x" + c18Hex([]byte(o.State)) + ";x" + c18Hex([]byte(o.Reference))
	}
	return strings.Join([]string{
		"san=" + san.String(), "ian=" + ian.String(), "failed=[" + rawList(c.FailedToParseNames) + "]",
		"ncc=" + tf(c.NameConstraintsCritical),
		"perm=[" + nc(c.PermittedEmailAddresses, c.PermittedDNSNames, c.PermittedX400Addresses, c.PermittedDirectoryNames, c.PermittedEdiPartyNames, c.PermittedURIs, c.PermittedIPAddresses, c.PermittedRegisteredIDs) + "]",
		"excl=[" + nc(c.ExcludedEmailAddresses, c.ExcludedDNSNames, c.ExcludedX400Addresses, c.ExcludedDirectoryNames, c.ExcludedEdiPartyNames, c.ExcludedURIs, c.ExcludedIPAddresses, c.ExcludedRegisteredIDs) + "]",
		"crl=[" + hexs(c.CRLDistributionPoints) + "]",
		"aki=" + oct(c.AuthorityKeyId), "ski=" + oct(c.SubjectKeyId),
		"eku=" + strconv.Itoa(len(c.ExtKeyUsage)) + "[" + oidList(c.UnknownExtKeyUsage) + "]",
		"pol=" + pol,
		"ocsp=[" + hexs(c.OCSPServer) + "]", "iss=[" + hexs(c.IssuingCertificateURL) + "]",
		"sct=" + strconv.Itoa(len(c.SignedCertificateTimestampList)), "pre=" + tf(c.IsPrecert),
		"tor=" + strconv.Itoa(len(c.TorServiceDescriptors)), "cabf=" + cabf, "qc=" + tf(c.QCStatements != nil),
	}, " ")
}

type xext struct {
	ext        pkix.Extension
	stok, ptok string
}

func parseXExts(arg string) []xext {
	var out []xext
	for _, tok := range strings.Split(arg, ",") {
		p := strings.Split(tok, ":")
		if len(p) != 5 {
			panic("xpc: bad extension token " + tok)
		}
		var id asn1.ObjectIdentifier
		for _, a := range strings.Split(p[0], ".") {
			n, err := strconv.Atoi(a)
			if err != nil {
				panic("xpc: bad oid " + p[0])
			}
			id = append(id, n)
		}
		out = append(out, xext{pkix.Extension{Id: id, Critical: p[1] == "t", Value: zv.UnHex(p[2])}, p[3], p[4]})
	}
	return out
}

var (
	xoidSCT = asn1.ObjectIdentifier{1, 3, 6, 1, 4, 1, 11129, 2, 4, 2}
	xoidTor = asn1.ObjectIdentifier{2, 23, 140, 1, 31}
	xoidQC  = asn1.ObjectIdentifier{1, 3, 6, 1, 5, 5, 7, 1, 3}
)

// sctBits: the nil-ness of ct.DeserializeSCT's error for the successive SCTs of the list, in the CURRENT mode (the
// model's `deser`), as "d" + 0/1 per call; the framing is re-implemented here only to find the chunks.
func sctBits(value []byte) string {
	out := "d"
	var scts []byte
	if _, err := asn1.Unmarshal(value, &scts); err != nil || len(scts) < 2 {
		return out
	}
	scts = scts[2:]
	for len(scts) >= 2 {
		l := int(scts[1]) + int(scts[0])<<8 + 2
		if l > len(scts) {
			break
		}
		if _, err := ct.DeserializeSCT(bytes.NewReader(scts[2:l])); err != nil {
			return out + "0"
		}
		out += "1"
		scts = scts[l:]
	}
	return out
}

// subTok is what the case line carries for the extension in the CURRENT mode (call under withMode): the outcome of the
// opaque sub-parser (Tor, QCStatements.Parse), or the DeserializeSCT bits for the modelled SCT-list parser.
func subTok(e pkix.Extension) string {
	if e.Id.Equal(xoidSCT) {
		return sctBits(e.Value)
	}
	return subOutcome(e)
}

// conservativeViol checks the hypothesis X.Sub.Conservative on the real sub-parser of e: a strict success must be the
// permissive result too.
func conservativeViol(e pkix.Extension) string {
	s := withMode(false, func() string { return subOutcome(e) })
	p := withMode(true, func() string { return subOutcome(e) })
	if s == "panic" || p == "panic" {
		return "sub-parser panics: " + s + " / " + p
	}
	if strings.HasPrefix(s, "n") && p != s {
		return "hypothesis X.Sub.Conservative fails on the real sub-parser of " + e.Id.String() + ": strict " + s + ", permissive " + p
	}
	return ""
}

// subOutcome is the outcome of the sub-parser of the extension in the CURRENT mode (call under withMode).
func subOutcome(e pkix.Extension) (tok string) {
	defer func() {
		if p := recover(); p != nil {
			tok = "panic"
		}
	}()
	switch {
	case e.Id.Equal(xoidTor):
		n, err := x509.ZVC20ParseTor(e)
		if err != nil {
			return "e"
		}
		return "n" + strconv.Itoa(n)
	case e.Id.Equal(xoidSCT):
		n, err := x509.ZVC20ParseSCTList(e)
		if err != nil {
			return "e" + strconv.Itoa(n)
		}
		return "n" + strconv.Itoa(n)
	case e.Id.Equal(xoidQC):
		raw := x509.QCStatementsASN{}
		if _, err := asn1.Unmarshal(e.Value, &raw.QCStatements); err != nil {
			return "-"
		}
		q := x509.QCStatements{}
		if err := q.Parse(&raw); err != nil {
			return "e"
		}
		return "n0"
	}
	return "-"
}

func extToken(e pkix.Extension) string {
	var a []string
	for _, x := range e.Id {
		a = append(a, strconv.Itoa(x))
	}
	s := withMode(false, func() string { return subTok(e) })
	p := withMode(true, func() string { return subTok(e) })
	return strings.Join(a, ".") + ":" + tf(e.Critical) + ":" + c18Hex(e.Value) + ":" + s + ":" + p
}

var xCurves = []elliptic.Curve{elliptic.P224(), elliptic.P256(), elliptic.P384(), elliptic.P521()}

// ecBits: elliptic.Unmarshal(curve, data) != nil for the four named curves, as a 0/1 string.
func ecBits(data []byte) string {
	s := ""
	for _, c := range xCurves {
		ok := false
		func() {
			defer func() { recover() }()
			x, _ := elliptic.Unmarshal(c, data)
			ok = x != nil
		}()
		if ok {
			s += "1"
		} else {
			s += "0"
		}
	}
	return s
}

func keyString(k interface{}) string {
	switch v := k.(type) {
	case nil:
		return "nil"
	case *rsa.PublicKey:
		return "rsa " + v.N.String() + " " + v.E.String()
	case *dsa.PublicKey:
		return "dsa " + v.Y.String() + " " + v.P.String() + " " + v.Q.String() + " " + v.G.String()
	case *x509.AugmentedECDSA:
		ci := -1
		for i, c := range xCurves {
			if v.Pub.Curve == c {
				ci = i
			}
		}
		return "ecdsa " + strconv.Itoa(ci) + " " + c18Hex(v.Raw.Bytes)
	case ed25519.PublicKey:
		return "ed25519 " + c18Hex(v)
	case x509.X25519PublicKey:
		return "x25519 " + c18Hex(v)
	}
	return fmt.Sprintf("unknown-key-type %T", k)
}

func execX(f []string) zv.Out {
	var run func() string
	tag := "x509:" + f[1]
	switch {
	case f[1] == "xsch" && len(f) == 4:
		t, ok := xTypes()[f[2]]
		if !ok {
			return zv.Out{Go: "bad-op"}
		}
		if schemaOfX(t).String() != f[3] {
			return zv.Out{Go: "differ-go", Viol: "schema on the case line is not the schema reflected from the Go type " + f[2]}
		}
		return zv.Out{Go: "match", Tags: []string{tag}}
	case f[1] == "xpk" && len(f) == 3:
		key := zv.UnHex(f[2])
		run = func() string {
			k, err := x509.ZVC20ParsePublicKey(x509.RSA, pkix.AlgorithmIdentifier{}, asn1.BitString{Bytes: key, BitLength: 8 * len(key)})
			if err != nil {
				return "err"
			}
			v := reflect.ValueOf(k).Elem()
			n := v.FieldByName("N").Interface().(*big.Int)
			e := v.FieldByName("E").Interface().(*big.Int)
			return "ok rsa " + n.String() + " " + e.String()
		}
	case f[1] == "xsub" && len(f) == 4: // T3-only: the hypothesis X.Sub.Conservative on the real sub-parsers
		e := parseXExts(f[2] + ":f:" + f[3] + ":-:-")[0].ext
		s := withMode(false, func() string { return subOutcome(e) })
		p := withMode(true, func() string { return subOutcome(e) })
		o := zv.Out{Go: "", Viol: conservativeViol(e), Tags: []string{"x509:xsub:" + f[2]}}
		switch {
		case strings.HasPrefix(s, "n"):
			o.Tags = append(o.Tags, "x509:xsub:strict-ok")
		case strings.HasPrefix(p, "n"):
			o.Tags = append(o.Tags, "x509:xsub:perm-only-ok")
		default:
			o.Tags = append(o.Tags, "x509:xsub:both-err")
		}
		return o
	case f[1] == "xpa" && len(f) == 6:
		algo, err := strconv.Atoi(f[2])
		if err != nil {
			return zv.Out{Go: "bad-op"}
		}
		key, params := zv.UnHex(f[3]), zv.UnHex(f[4])
		if ecBits(key) != f[5] {
			return zv.Out{Go: "oracle-mismatch", Viol: "ecbits on the case line differ from elliptic.Unmarshal"}
		}
		tag += ":" + strconv.Itoa(algo)
		run = func() string {
			k, err := x509.ZVC20ParsePublicKey(x509.PublicKeyAlgorithm(algo), pkix.AlgorithmIdentifier{Parameters: asn1.RawValue{FullBytes: params}},
				asn1.BitString{Bytes: key, BitLength: 8 * len(key)})
			if err != nil {
				return "err"
			}
			return "ok " + keyString(k)
		}
	case f[1] == "xgn" && len(f) == 3:
		val := zv.UnHex(f[2])
		run = func() string {
			o, d, e, u, n, p, ip, rid, failed, err := x509.ZVC20ParseGeneralNames(val)
			var ips [][]byte
			for _, x := range ip {
				ips = append(ips, []byte(x))
			}
			g := gnOut{other: o, email: e, dns: d, uri: u, dir: n, edi: p, ip: ips, rid: rid}
			return tf(err == nil) + " " + g.String() + " failed=[" + rawList(failed) + "]"
		}
	case f[1] == "xpc" && len(f) == 3:
		xs := parseXExts(f[2])
		var exts []pkix.Extension
		for _, x := range xs {
			exts = append(exts, x.ext)
			if s, p := withMode(false, func() string { return subTok(x.ext) }), withMode(true, func() string { return subTok(x.ext) }); s != x.stok || p != x.ptok {
				return zv.Out{Go: "oracle-mismatch", Viol: "sub-parser outcome on the case line (" + x.stok + "/" + x.ptok + ") differs from the sub-parser (" + s + "/" + p + ")"}
			}
			if len(xs) == 1 {
				tag += ":" + x.ext.Id.String()
			}
			if v := conservativeViol(x.ext); v != "" {
				return zv.Out{Go: "", Viol: v, Tags: []string{"x509:sub-hypothesis-violated"}}
			}
		}
		if len(xs) > 1 {
			tag += ":multi"
		}
		tpl := template()
		run = func() (s string) {
			defer func() {
				if p := recover(); p != nil {
					s = "panic"
				}
			}()
			c, err := x509.ZVC20ParseCertificateExts(tpl, append([]pkix.Extension{}, exts...))
			if err != nil {
				return "err"
			}
			return "ok " + dumpCertX(c)
		}
	default:
		return zv.Out{Go: "bad-op"}
	}
	st := withMode(false, run)
	pm := withMode(true, run)
	out := zv.Out{Go: st + "|" + pm, Tags: []string{tag}}
	okOf := func(s string) bool { return s != "err" && s != "panic" && !strings.HasPrefix(s, "f ") }
	switch {
	case st == "panic" || pm == "panic":
		out.Viol = "panic in an x509 site function: " + st + " | " + pm
	case okOf(st) && !okOf(pm):
		out.Viol = "strict succeeds (" + st + ") but permissive fails"
	case okOf(st) && pm != st:
		out.Viol = "strict and permissive both succeed with different results: " + st + " vs " + pm
	case okOf(st):
		out.Tags = append(out.Tags, "x509:strict-ok")
	case okOf(pm):
		out.Tags = append(out.Tags, "x509:perm-only-ok")
	default:
		out.Tags = append(out.Tags, "x509:both-err")
	}
	return out
}

func genX(g *zv.Gen) {
	r := g.Rng
	var names []string
	for name := range xTypes() {
		names = append(names, name)
	}
	sort.Strings(names)
	for _, name := range names {
		g.Emitf("c20 xsch %s %s", name, schemaOfX(xTypes()[name]).String())
	}
	mut := func(b []byte) []byte {
		if r.Chance(60) {
			m := permMutate(r, b)
			if r.Chance(25) {
				m = permMutate(r, m)
			}
			return m
		}
		m, _ := c18.Mutate(r, b)
		return m
	}
	// parsePublicKey (RSA arm)
	intOf := func() []byte {
		switch r.Intn(8) {
		case 0:
			return []byte{2, 1, 0}
		case 1:
			return cat([]byte{2, byte(1 + r.Intn(3))}, []byte{0x80 | byte(r.Intn(128))}, r.Bytes(2))[:0+2+1+r.Intn(3)]
		case 2:
			return []byte{2, 2, 0, byte(r.Intn(128))} // non-minimal
		case 3:
			return []byte{2, 0x81, 1, byte(1 + r.Intn(127))} // long-form length
		default:
			n := 1 + r.Intn(12)
			b := r.Bytes(n)
			b[0] &= 0x7f
			if b[0] == 0 {
				b[0] = 1
			}
			return tl(0x02, b)
		}
	}
	for i, n := 0, g.N(1200, 20000); i < n; i++ {
		k := tl(0x30, intOf(), intOf())
		if r.Chance(5) {
			k = cat(k, []byte{0})
		}
		if r.Chance(8) {
			k = tl(0x30, intOf(), intOf(), intOf())
		}
		if r.Chance(25) {
			k = mut(k)
		}
		g.Emitf("c20 xpk %s", c18Hex(k))
	}
	for _, h := range []string{"3006020105020103", "3006020100020103", "30060201050201ff", "300602018502017f", "30070202000502010300", "3007028101050201030500"} {
		g.Emitf("c20 xpk %s", h)
	}
	// parsePublicKey, every arm
	curveOIDs := [][]byte{oid(1, 3, 132, 0, 33), oid(1, 2, 840, 10045, 3, 1, 7), oid(1, 3, 132, 0, 34), oid(1, 3, 132, 0, 35), oid(1, 3, 132, 0, 10), oid(1, 2, 3)}
	for i, n := 0, g.N(1500, 20000); i < n; i++ {
		algo := r.Intn(7)
		var key, params []byte
		switch algo {
		case 1:
			key = tl(0x30, intOf(), intOf())
		case 2:
			key = intOf()
			params = tl(0x30, intOf(), intOf(), intOf())
			if r.Chance(5) {
				params = cat(params, []byte{0})
			}
		case 3:
			c := r.Intn(len(curveOIDs))
			params = curveOIDs[c]
			if c < len(xCurves) && r.Chance(75) {
				x, y := xCurves[c].ScalarBaseMult(r.Bytes(16))
				if r.Bool() {
					key = elliptic.Marshal(xCurves[c], x, y)
				} else {
					key = elliptic.MarshalCompressed(xCurves[c], x, y)
				}
				if r.Chance(15) {
					key[len(key)-1] ^= 1
				}
			} else {
				key = r.Bytes([]int{0, 1, 33, 57, 65}[r.Intn(5)])
			}
		default:
			key = r.Bytes([]int{0, 16, 31, 32, 32, 32, 33, 64}[r.Intn(8)])
			if r.Chance(30) {
				params = []byte{5, 0}
			}
		}
		if r.Chance(25) && len(params) > 0 {
			params = mut(params)
		}
		if r.Chance(15) && len(key) > 0 && algo <= 2 {
			key = mut(key)
		}
		g.Emitf("c20 xpa %d %s %s %s", algo, c18Hex(key), c18Hex(params), ecBits(key))
	}
	g.Emitf("c20 xpa 2 02810105 3009020107020103020102 %s", ecBits([]byte{2, 0x81, 1, 5}))
	// parseGeneralNames
	for i, n := 0, g.N(2500, 40000); i < n; i++ {
		v := rGeneralNames(r, r.Intn(2))
		if r.Chance(35) {
			v = mut(v)
		}
		g.Emitf("c20 xgn %s", c18Hex(v))
	}
	// parseCertificate: one extension, then two or three
	one := func() pkix.Extension {
		sp := extSpecs[r.Intn(len(extSpecs))]
		b := sp.body(r)
		if r.Chance(40) {
			b = mut(b)
		}
		return pkix.Extension{Id: asn1.ObjectIdentifier(sp.oid), Critical: r.Chance(25), Value: b}
	}
	for _, sp := range extSpecs {
		for i, n := 0, g.N(120, 2500); i < n; i++ {
			b := sp.body(r)
			if i%2 == 1 {
				b = mut(b)
			}
			g.Emitf("c20 xpc %s", extToken(pkix.Extension{Id: asn1.ObjectIdentifier(sp.oid), Critical: r.Chance(25), Value: b}))
		}
	}
	// T3-only: the assumed conservativity of the opaque sub-parsers (and of the modelled SCT list), on the real code
	for _, sp := range extSpecs {
		id := asn1.ObjectIdentifier(sp.oid)
		if !id.Equal(xoidTor) && !id.Equal(xoidSCT) && !id.Equal(xoidQC) {
			continue
		}
		for i, n := 0, g.N(500, 10000); i < n; i++ {
			b := sp.body(r)
			if i%3 != 0 {
				b = mut(b)
			}
			g.Emitf("c20 xsub %s %s", id.String(), c18Hex(b))
		}
	}
	for i, n := 0, g.N(800, 20000); i < n; i++ {
		var toks []string
		for j, k := 0, 2+r.Intn(2); j < k; j++ {
			toks = append(toks, extToken(one()))
		}
		g.Emitf("c20 xpc %s", strings.Join(toks, ","))
	}
}
