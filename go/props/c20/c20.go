// Package c20: permissive parsing (asn1.AllowPermissiveParsing) is a conservative extension of strict parsing.
//
// Line protocol:  c20 <sub-op> <args…>
//
//	c20 cert <hex DER> [<mutation kind>]   certificate level, T3-only (cert.go)
//	c20 u <schema> p=<tagstring> <hex>     asn1 level, both modes, T2 + T3 (asn1.go)
//	c20 tpc <u|g> <hex> / c20 tu time p=<tagstring> <hex>   time values, both modes, T2 + T3 (time.go)
//	c20 xsch / xpk / xgn / xpc             x509-level sites of the flag, both modes, T2 + T3 (x509sites.go)
//
// asn1.AllowPermissiveParsing is PROCESS-GLOBAL: the property is Serial (Exec runs single-threaded) and, in
// addition, every toggle of the flag in this package happens under permMu and restores false with defer.
package c20

import (
	"strings"
	"sync"

	"zv/internal/zv"
)

// permMu guards every toggle of asn1.AllowPermissiveParsing made by this package.
var permMu sync.Mutex

func gen(g *zv.Gen) {
	genAsn1(g)
	genCert(g)
	genTime(g)
	genX(g)
}

func exec(line string) zv.Out {
	f := strings.Fields(line)
	if len(f) < 2 {
		return zv.Out{Go: "bad-op"}
	}
	switch f[1] {
	case "cert":
		return execCert(line)
	case "u":
		return execAsn1(line)
	case "tpc", "tu":
		return execTime(f)
	case "xsch", "xpk", "xpa", "xgn", "xpc", "xsub":
		return execX(f)
	}
	return zv.Out{Go: "bad-op"}
}

func init() {
	zv.Register(&zv.Prop{ID: "C20", Topic: "c20", Serial: true, Gen: gen, Exec: exec,
		Rule: "asn1 stream (T2+T3): encodings of random values of run-time generated struct types (package c18) and their mutants aimed at the permissive sites (string alphabets, INTEGER minimality, long-form lengths, tag swaps), each decoded strictly and permissively by the real Unmarshal and by the model; " +
			"cert stream (T3-only): every CERTIFICATE PEM block found under $ZV_REPO (testdata, Go test sources, root bundles), unmodified; " +
			"byte-level mutations (flip/replace/insert/delete, biased to tag and length octets); structure-aware mutations through a tolerant " +
			"TLV tree with ancestor lengths re-encoded (long-form lengths, padded/negative/zero INTEGERs, string alphabets and tag swaps, " +
			"time variants, GeneralNames of every tag 0..8, crafted extension bodies for every extension parseCertificate interprets, duplicate/" +
			"empty/truncated/mis-tagged elements); deterministic self-signed ECDSA certificates with random extensions. Each case parses the " +
			"same DER strictly and permissively; oracle: strict ok ⇒ permissive ok ∧ reflect.DeepEqual ∧ identical JSON dump; a case is one distinct DER string"})
}
