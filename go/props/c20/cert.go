package c20

// Certificate-level T3 oracle for C20 and its generators.
//
// Case line:  c20 cert <hex DER> [<kind>]      (<kind> = label of the generator stream / mutation, only used as a tag)
//
// Exec parses the DER with x509.ParseCertificate twice: asn1.AllowPermissiveParsing=false, then =true.
// Oracle (the property's sentence):  strict ok  ⇒  permissive ok  ∧  the two *x509.Certificate are identical.
// "Identical" = reflect.DeepEqual of the two certificates AND byte-equal canonical dumps (json.Marshal of the
// certificate; if json.Marshal fails the error text is the dump — on both sides).  Nothing is ignored by the
// comparison: two strict parses of the same DER were checked to compare equal on every fixture (stream "self-check"
// does this at generation time and emits a failing marker case if it ever stops holding).
// Out.Go is always "" (T3-only lines, never sent to the Lean model).

import (
	"bytes"
	"crypto/elliptic"
	"crypto/sha256"
	"encoding/base64"
	"encoding/hex"
	"encoding/json"
	"fmt"
	"math/big"
	"os"
	"path/filepath"
	"reflect"
	"regexp"
	"sort"
	"strings"
	"time"

	"github.com/zmap/zcrypto/encoding/asn1"
	"github.com/zmap/zcrypto/x509"

	"zv/internal/zv"
)

// ---------------------------------------------------------------------------------------------------------------
// Exec + oracle

// parseMode runs ParseCertificate with the global flag set to perm, under permMu, restoring false.
//
// A panic inside ParseCertificate is turned into a parsePanic error: it is reported as a violation by execCert (a
// parser must not panic in either mode) but keeps the line T3-only.  Known on the unchanged tree (not a C20 matter):
// an Ed25519 SubjectPublicKey shorter than 32 bytes in a self-issued certificate reaches ed25519.Verify through
// parseCertificate's self-signature check (x509.go parsePublicKey only rejects keys LONGER than 32 bytes) and panics
// "ed25519: bad public key length" — in both modes.
type parsePanic struct{ msg string }

func (p parsePanic) Error() string { return "PANIC: " + p.msg }

func parseMode(der []byte, perm bool) (c *x509.Certificate, err error) {
	permMu.Lock()
	defer permMu.Unlock()
	defer func() { asn1.AllowPermissiveParsing = false }()
	defer func() {
		if p := recover(); p != nil {
			c, err = nil, parsePanic{fmt.Sprint(p)}
		}
	}()
	asn1.AllowPermissiveParsing = perm
	return x509.ParseCertificate(der)
}

// dump is the canonical textual form of a parsed certificate (the zcrypto JSON export).
//
// Side finding (not C20): x509.(*CertificatePoliciesData).MarshalJSON (x509/extensions.go) indexes
// NoticeRefOrganization[idx][idx2] with the index of ExplicitTexts[idx] and panics with "index out of range" for a
// policy whose user notices do not all carry both fields.  A panic of the exporter is therefore treated like an
// error of the exporter: its text is the dump, on both sides (tag json-panic).
func dump(c *x509.Certificate) (s string) {
	permMu.Lock() // MarshalJSON does not parse, but keep the flag provably false while it runs
	defer permMu.Unlock()
	defer func() {
		if p := recover(); p != nil {
			s = fmt.Sprintf("json-panic: %v", p)
		}
	}()
	b, err := json.Marshal(c)
	if err != nil {
		return "json-error: " + err.Error()
	}
	return string(b)
}

func short(v any) string {
	s := fmt.Sprintf("%+v", v)
	if len(s) > 160 {
		s = s[:160] + "…"
	}
	return s
}

// fieldDiffs lists every exported field of x509.Certificate on which a and b differ (DeepEqual), in declaration
// order; the first entry carries the two values.
func fieldDiffs(a, b *x509.Certificate) (names []string, first string) {
	if a == nil || b == nil {
		return nil, fmt.Sprintf("nil-ness differs: strict=%v permissive=%v", a == nil, b == nil)
	}
	va, vb := reflect.ValueOf(a).Elem(), reflect.ValueOf(b).Elem()
	t := va.Type()
	for i := 0; i < t.NumField(); i++ {
		fa, fb := va.Field(i), vb.Field(i)
		if !fa.CanInterface() {
			continue // unexported: covered by the whole-struct DeepEqual, named generically by compareCerts
		}
		if !reflect.DeepEqual(fa.Interface(), fb.Interface()) {
			if len(names) == 0 {
				first = fmt.Sprintf("field %s differs: strict=%s permissive=%s", t.Field(i).Name, short(fa.Interface()), short(fb.Interface()))
			}
			names = append(names, t.Field(i).Name)
		}
	}
	return
}

// jsonDiff names the first top-level JSON key whose value differs.
func jsonDiff(a, b string) string {
	var ma, mb map[string]json.RawMessage
	if json.Unmarshal([]byte(a), &ma) != nil || json.Unmarshal([]byte(b), &mb) != nil {
		return "dump differs: strict=" + short(a) + " permissive=" + short(b)
	}
	keys := map[string]bool{}
	for k := range ma {
		keys[k] = true
	}
	for k := range mb {
		keys[k] = true
	}
	var ks []string
	for k := range keys {
		ks = append(ks, k)
	}
	sort.Strings(ks)
	for _, k := range ks {
		if !bytes.Equal(ma[k], mb[k]) {
			return fmt.Sprintf("JSON key %q differs: strict=%s permissive=%s", k, short(string(ma[k])), short(string(mb[k])))
		}
	}
	return "dump differs (key order?)"
}

// compareCerts returns "" when a and b are identical under the oracle's comparison; otherwise a description naming
// the first differing field (with values) and the list of all differing fields.
func compareCerts(a, b *x509.Certificate) (what string, fields []string) {
	if !reflect.DeepEqual(a, b) {
		names, first := fieldDiffs(a, b)
		if first != "" {
			if len(names) > 1 {
				first += " (all differing fields: " + strings.Join(names, ",") + ")"
			}
			return first, names
		}
		return "certificates differ in an unexported field (reflect.DeepEqual false, all exported fields equal)", []string{"unexported"}
	}
	da, db := dump(a), dump(b)
	if da != db {
		return jsonDiff(da, db), []string{"json-only"}
	}
	return "", nil
}

func errKind(err error) string {
	switch err.(type) {
	case asn1.StructuralError:
		return "structural"
	case asn1.SyntaxError:
		return "syntax"
	}
	return "other"
}

func execCert(line string) zv.Out {
	f := strings.Fields(line)
	if len(f) < 3 {
		return zv.Out{Go: "bad-op"}
	}
	der := zv.UnHex(f[2])
	kind := "unlabelled"
	if len(f) > 3 {
		kind = f[3]
	}
	tags := []string{"cert", "kind=" + kind}
	if kind == "self-check-failed" {
		return zv.Out{Viol: "generator self-check: two STRICT parses of an unmodified fixture do not compare equal — the comparison (not zcrypto) is broken", Tags: tags}
	}
	cs, es := parseMode(der, false)
	cp, ep := parseMode(der, true)
	out := zv.Out{}
	if es == nil {
		tags = append(tags, "strict-ok", kind+"/strict-ok")
	} else {
		tags = append(tags, "strict-err", "strict-err/"+errKind(es))
	}
	if ep == nil {
		tags = append(tags, "perm-ok")
	} else {
		tags = append(tags, "perm-err")
	}
	switch {
	case es == nil && ep != nil:
		out.Viol = "strict ok, permissive failed: " + ep.Error()
		tags = append(tags, "PERM-FAIL")
	case es == nil && ep == nil:
		if d, fields := compareCerts(cs, cp); d != "" {
			out.Viol = "strict and permissive both succeed but results differ: " + d
			tags = append(tags, "DIFF")
			for _, f := range fields {
				tags = append(tags, "DIFF/"+f)
			}
		} else {
			tags = append(tags, "both-ok-identical")
			if strings.HasPrefix(dump(cs), "json-") {
				tags = append(tags, "json-export-failed")
			}
		}
		if cs.SelfSigned {
			tags = append(tags, "self-signed-verified")
		}
	case es != nil && ep == nil:
		tags = append(tags, "perm-only-ok", kind+"/perm-only-ok")
	default:
		tags = append(tags, "both-err")
		out.Trivial = es.Error() == ep.Error() && kind == "byte"
	}
	for _, m := range []struct {
		mode string
		err  error
	}{{"strict", es}, {"permissive", ep}} {
		if pp, ok := m.err.(parsePanic); ok {
			tags = append(tags, "PARSE-PANIC")
			if out.Viol == "" {
				out.Viol = "ParseCertificate panics in " + m.mode + " mode: " + pp.msg
			}
		}
	}
	out.Tags = tags
	return out
}

// ---------------------------------------------------------------------------------------------------------------
// Fixtures: every CERTIFICATE PEM block under $ZV_REPO (data files and Go sources alike), read at run time.

type fixture struct {
	name string
	der  []byte
}

func repoDir() string {
	if r := os.Getenv("ZV_REPO"); r != "" {
		return r
	}
	return "/repo"
}

var pemRe = regexp.MustCompile(`(?s)-----BEGIN CERTIFICATE-----(.*?)-----END CERTIFICATE-----`)
var litNL = strings.NewReplacer(`\n`, "", `\r`, "", `\t`, "")

func extractCerts(data []byte) [][]byte {
	var out [][]byte
	for _, m := range pemRe.FindAllSubmatch(data, -1) {
		body := litNL.Replace(string(m[1]))
		var b64 strings.Builder
		for _, c := range body {
			switch {
			case c >= 'A' && c <= 'Z', c >= 'a' && c <= 'z', c >= '0' && c <= '9', c == '+', c == '/', c == '=':
				b64.WriteRune(c)
			case c == ':': // PEM header line ("Proc-Type: …") – not a plain certificate block
				b64.Reset()
				b64.WriteString("!")
			}
		}
		der, err := base64.StdEncoding.DecodeString(b64.String())
		if err != nil || len(der) < 16 || der[0] != 0x30 {
			continue
		}
		out = append(out, der)
	}
	return out
}

// loadFixtures walks the repo in lexical order (deterministic), de-duplicates by content.
func loadFixtures() []fixture {
	root := repoDir()
	var fx []fixture
	seen := map[[32]byte]bool{}
	filepath.Walk(root, func(p string, info os.FileInfo, err error) error {
		if err != nil {
			return nil
		}
		if info.IsDir() {
			if n := info.Name(); n == ".git" || n == "node_modules" {
				return filepath.SkipDir
			}
			return nil
		}
		if info.Size() > 8<<20 || !info.Mode().IsRegular() {
			return nil
		}
		data, err := os.ReadFile(p)
		if err != nil || !bytes.Contains(data, []byte("BEGIN CERTIFICATE")) {
			return nil
		}
		rel, _ := filepath.Rel(root, p)
		for i, der := range extractCerts(data) {
			h := sha256.Sum256(der)
			if seen[h] {
				continue
			}
			seen[h] = true
			fx = append(fx, fixture{name: fmt.Sprintf("%s#%d", rel, i), der: der})
		}
		return nil
	})
	return fx
}

func emitCert(g *zv.Gen, der []byte, kind string) {
	if len(der) == 0 {
		return
	}
	g.Emit("c20 cert " + hex.EncodeToString(der) + " " + kind)
}

// ---------------------------------------------------------------------------------------------------------------
// A tiny tolerant TLV tree.  parse ∘ encode is the identity on every input that parses (non-minimal length forms are
// remembered per node), so a mutation changes exactly what it says and every ancestor length is re-encoded to fit.

type tlv struct {
	id      []byte // identifier octets
	lform   int    // 0 = minimal length; n>0 = long form with n length octets (may be non-minimal)
	content []byte // leaf content (when !hasKids)
	hasKids bool   // constructed, or a primitive OCTET/BIT STRING whose content is itself a TLV sequence
	kids    []*tlv
	prefix  []byte // bytes between header and children (the unused-bits octet of a wrapping BIT STRING)
	raw     []byte // if non-nil: emitted verbatim (used for inconsistent inner lengths)
	parent  *tlv
	off     int // offset of the identifier octet in the original buffer (byte-level stream: tag/length positions)
	hdr     int // header length in the original buffer
}

func derLen(n, lform int) []byte {
	min := 0
	if n >= 0x80 {
		for m := n; m > 0; m >>= 8 {
			min++
		}
	}
	if lform < min {
		lform = min
	}
	if lform == 0 {
		return []byte{byte(n)}
	}
	if lform > 8 {
		lform = 8
	}
	out := []byte{0x80 | byte(lform)}
	for i := lform - 1; i >= 0; i-- {
		out = append(out, byte(uint64(n)>>(8*uint(i))))
	}
	return out
}

func (n *tlv) body() []byte {
	if !n.hasKids {
		return n.content
	}
	out := append([]byte{}, n.prefix...)
	for _, k := range n.kids {
		out = append(out, k.encode()...)
	}
	return out
}

func (n *tlv) encode() []byte {
	if n.raw != nil {
		return n.raw
	}
	b := n.body()
	out := append([]byte{}, n.id...)
	out = append(out, derLen(len(b), n.lform)...)
	return append(out, b...)
}

// parseTLVs parses b as a sequence of complete TLVs; ok=false if b is not exactly that.
func parseTLVs(b []byte, base int, depth int) (nodes []*tlv, ok bool) {
	if depth > 40 {
		return nil, false
	}
	p := 0
	for p < len(b) {
		start := p
		id := []byte{b[p]}
		p++
		if id[0]&0x1f == 0x1f {
			for {
				if p >= len(b) || len(id) > 5 {
					return nil, false
				}
				id = append(id, b[p])
				p++
				if id[len(id)-1]&0x80 == 0 {
					break
				}
			}
		}
		if p >= len(b) {
			return nil, false
		}
		l, lform := int(b[p]), 0
		p++
		if l == 0x80 {
			return nil, false
		}
		if l > 0x80 {
			k := l & 0x7f
			if k > 4 || p+k > len(b) {
				return nil, false
			}
			l = 0
			for i := 0; i < k; i++ {
				l = l<<8 | int(b[p+i])
			}
			p += k
			if len(derLen(l, 0)) != 1+k {
				lform = k // non-minimal: remember
			}
		}
		if l < 0 || p+l > len(b) {
			return nil, false
		}
		c := b[p : p+l]
		n := &tlv{id: id, lform: lform, off: base + start, hdr: p - start}
		switch {
		case id[0]&0x20 != 0:
			if kids, ok := parseTLVs(c, base+p, depth+1); ok {
				n.hasKids, n.kids = true, kids
			}
		case id[0] == 0x04 && l >= 2:
			if kids, ok := parseTLVs(c, base+p, depth+1); ok {
				n.hasKids, n.kids = true, kids
			}
		case id[0] == 0x03 && l >= 3 && c[0] == 0:
			if kids, ok := parseTLVs(c[1:], base+p+1, depth+1); ok {
				n.hasKids, n.kids, n.prefix = true, kids, []byte{0}
			}
		}
		if n.hasKids {
			for _, k := range n.kids {
				k.parent = n
			}
		} else {
			n.content = append([]byte{}, c...)
		}
		nodes = append(nodes, n)
		p += l
	}
	return nodes, true
}

func parseTree(der []byte) *tlv {
	ns, ok := parseTLVs(der, 0, 0)
	if !ok || len(ns) != 1 {
		return nil
	}
	return ns[0]
}

func (n *tlv) clone(parent *tlv) *tlv {
	c := *n
	c.parent = parent
	c.id = append([]byte{}, n.id...)
	c.content = append([]byte{}, n.content...)
	c.kids = nil
	for _, k := range n.kids {
		c.kids = append(c.kids, k.clone(&c))
	}
	return &c
}

func (n *tlv) walk(f func(*tlv)) {
	f(n)
	for _, k := range n.kids {
		k.walk(f)
	}
}

func (n *tlv) index() int {
	if n.parent == nil {
		return -1
	}
	for i, k := range n.parent.kids {
		if k == n {
			return i
		}
	}
	return -1
}

func (n *tlv) isCtxPrim() bool { return len(n.id) == 1 && n.id[0]&0xe0 == 0x80 }

var stringTags = []byte{0x0c, 0x12, 0x13, 0x14, 0x16, 0x1a, 0x1b, 0x1c, 0x1e}

func (n *tlv) isUnivString() bool {
	return !n.hasKids && len(n.id) == 1 && bytes.IndexByte(stringTags, n.id[0]) >= 0
}

// ---------------------------------------------------------------------------------------------------------------
// DER building helpers for crafted extension bodies.

func cat(bs ...[]byte) []byte {
	var out []byte
	for _, b := range bs {
		out = append(out, b...)
	}
	return out
}
func tl(id byte, content ...[]byte) []byte {
	c := cat(content...)
	return cat([]byte{id}, derLen(len(c), 0), c)
}
func oidBody(arcs ...int) []byte {
	var out []byte
	b128 := func(v int) {
		var tmp []byte
		tmp = append(tmp, byte(v&0x7f))
		for v >>= 7; v > 0; v >>= 7 {
			tmp = append([]byte{byte(v&0x7f) | 0x80}, tmp...)
		}
		out = append(out, tmp...)
	}
	b128(arcs[0]*40 + arcs[1])
	for _, a := range arcs[2:] {
		b128(a)
	}
	return out
}
func oid(arcs ...int) []byte { return tl(0x06, oidBody(arcs...)) }
func derInt(v int64) []byte {
	b := big.NewInt(v).Bytes()
	if v == 0 {
		b = []byte{0}
	} else if v > 0 && b[0]&0x80 != 0 {
		b = append([]byte{0}, b...)
	} else if v < 0 {
		n := 1
		for ; v < -(1 << (8*uint(n) - 1)); n++ {
		}
		u := uint64(v)
		b = nil
		for i := n - 1; i >= 0; i-- {
			b = append(b, byte(u>>(8*uint(i))))
		}
	}
	return tl(0x02, b)
}

const hostAlphabet = "abcdefghijklmnopqrstuvwxyz0123456789.-"

func rText(r *zv.Rng, lo, hi int) []byte {
	n := lo + r.Intn(hi-lo+1)
	b := make([]byte, n)
	for i := range b {
		b[i] = hostAlphabet[r.Intn(len(hostAlphabet))]
	}
	return b
}

func rOID(r *zv.Rng) []byte {
	arcs := []int{r.Intn(3), r.Intn(40)}
	for i, k := 0, 1+r.Intn(6); i < k; i++ {
		switch r.Intn(4) {
		case 0:
			arcs = append(arcs, r.Intn(128))
		case 1:
			arcs = append(arcs, 128+r.Intn(20000))
		default:
			arcs = append(arcs, r.Intn(40))
		}
	}
	return oidBody(arcs...)
}

func rName(r *zv.Rng) []byte { // RDNSequence
	var rdns []byte
	attr := [][]int{{2, 5, 4, 3}, {2, 5, 4, 6}, {2, 5, 4, 10}, {2, 5, 4, 11}, {2, 5, 4, 7}, {1, 2, 840, 113549, 1, 9, 1}, {0, 9, 2342, 19200300, 100, 1, 25}}
	for i, k := 0, r.Intn(4); i < k; i++ {
		st := []byte{0x13, 0x0c, 0x16, 0x14, 0x1e, 0x12}[r.Intn(6)]
		val := rText(r, 0, 12)
		if st == 0x1e {
			var w []byte
			for _, c := range val {
				w = append(w, 0, c)
			}
			val = w
		}
		if st == 0x12 {
			val = []byte("0123 456")
		}
		rdns = append(rdns, tl(0x31, tl(0x30, oid(attr[r.Intn(len(attr))]...), tl(st, val)))...)
	}
	return tl(0x30, rdns)
}

// rGeneralName: one GeneralName with the given CHOICE tag 0..8 (mostly well-formed; bad=true gives a malformed inside).
func rGeneralName(r *zv.Rng, tag int, bad bool) []byte {
	switch tag {
	case 0:
		if bad {
			return tl(0xa0, oid(1, 2, 3), tl(0x0c, rText(r, 1, 5))) // value not explicitly tagged
		}
		return tl(0xa0, tl(0x06, rOID(r)), tl(0xa0, tl(0x0c, rText(r, 1, 10))))
	case 1:
		return tl(0x81, rText(r, 1, 8), []byte("@"), rText(r, 1, 10))
	case 2:
		return tl(0x82, rText(r, 0, 20))
	case 3:
		return tl(0xa3, tl(0x30, tl(0x13, rText(r, 0, 4))))
	case 4:
		if bad {
			return tl(0xa4, tl(0x04, r.Bytes(1+r.Intn(3))))
		}
		return tl(0xa4, rName(r))
	case 5:
		if bad {
			return tl(0xa5, tl(0x0c, rText(r, 1, 4)))
		}
		if r.Bool() {
			return tl(0xa5, tl(0xa1, tl(0x0c, rText(r, 1, 8))))
		}
		return tl(0xa5, tl(0xa0, tl(0x13, rText(r, 1, 8))), tl(0xa1, tl(0x13, rText(r, 1, 8))))
	case 6:
		return tl(0x86, []byte("http://"), rText(r, 1, 16))
	case 7:
		n := []int{4, 16}[r.Intn(2)]
		if bad {
			n = []int{0, 1, 5, 8, 15, 17, 32}[r.Intn(7)]
		}
		return tl(0x87, r.Bytes(n))
	case 8:
		if bad {
			return tl(0x88, [][]byte{{0x80, 0x01}, {0x2a, 0x83}, {}}[r.Intn(3)])
		}
		return tl(0x88, rOID(r))
	}
	return tl(byte(0x80|tag), r.Bytes(r.Intn(4)))
}

func rGeneralNames(r *zv.Rng, min int) []byte { return tl(0x30, rGeneralNamesBody(r, min)) }

func rGeneralNamesBody(r *zv.Rng, min int) []byte {
	var out []byte
	for i, k := 0, min+r.Intn(4); i < k; i++ {
		tag := r.Intn(9)
		if r.Chance(30) {
			tag = []int{1, 2, 7}[r.Intn(3)] // the tags that make parseCertificate `continue`
		}
		out = append(out, rGeneralName(r, tag, r.Chance(12))...)
	}
	return out
}

func rSubtrees(r *zv.Rng) []byte {
	var out []byte
	for i, k := 0, 1+r.Intn(3); i < k; i++ {
		tag := r.Intn(9)
		var base []byte
		if tag == 7 {
			n := []int{8, 32}[r.Intn(2)]
			if r.Chance(25) {
				n = []int{0, 4, 5, 16, 31, 33}[r.Intn(6)]
			}
			base = tl(0x87, r.Bytes(n))
		} else {
			base = rGeneralName(r, tag, r.Chance(15))
		}
		st := base
		if r.Chance(30) {
			st = cat(st, tl(0x80, derInt(int64(r.Intn(300)))[2:]))
		}
		if r.Chance(30) {
			st = cat(st, tl(0x81, derInt(int64(r.Intn(300)))[2:]))
		}
		out = append(out, tl(0x30, st)...)
	}
	return out
}

type extSpec struct {
	name string
	oid  []int
	body func(r *zv.Rng) []byte
}

func rSCT(r *zv.Rng) []byte {
	ext := r.Bytes([]int{0, 0, 0, 3}[r.Intn(4)])
	sig := r.Bytes(8 + r.Intn(64))
	return cat([]byte{0}, r.Bytes(32), r.Bytes(8), []byte{byte(len(ext) >> 8), byte(len(ext))}, ext,
		[]byte{4, byte(1 + 2*r.Intn(2))}, []byte{byte(len(sig) >> 8), byte(len(sig))}, sig)
}

var userNoticeOID = []int{1, 3, 6, 1, 5, 5, 7, 2, 2}
var cpsOID = []int{1, 3, 6, 1, 5, 5, 7, 2, 1}

// every extension parseCertificate interprets, with a well-formed random body
var extSpecs = []extSpec{
	{"keyUsage", []int{2, 5, 29, 15}, func(r *zv.Rng) []byte {
		if r.Bool() {
			pad := r.Intn(8)
			return tl(0x03, []byte{byte(pad), byte(r.Intn(256)) &^ (1<<uint(pad) - 1)})
		}
		return tl(0x03, []byte{7, byte(r.Intn(256)), 0x80})
	}},
	{"basicConstraints", []int{2, 5, 29, 19}, func(r *zv.Rng) []byte {
		var b []byte
		if r.Chance(70) {
			b = append(b, tl(0x01, []byte{0xff})...)
		}
		if r.Chance(60) {
			b = append(b, derInt(int64(r.Intn(400)))...)
		}
		return tl(0x30, b)
	}},
	{"subjectAltName", []int{2, 5, 29, 17}, func(r *zv.Rng) []byte { return rGeneralNames(r, 1) }},
	{"issuerAltName", []int{2, 5, 29, 18}, func(r *zv.Rng) []byte { return rGeneralNames(r, 1) }},
	{"nameConstraints", []int{2, 5, 29, 30}, func(r *zv.Rng) []byte {
		var b []byte
		if r.Chance(75) {
			b = append(b, tl(0xa0, rSubtrees(r))...)
		}
		if r.Chance(60) {
			b = append(b, tl(0xa1, rSubtrees(r))...)
		}
		return tl(0x30, b)
	}},
	{"crlDistributionPoints", []int{2, 5, 29, 31}, func(r *zv.Rng) []byte {
		var dps []byte
		for i, k := 0, 1+r.Intn(3); i < k; i++ {
			var dp []byte
			if r.Chance(85) {
				gns := rGeneralNamesBody(r, 1)
				if r.Chance(50) {
					gns = cat(tl(0x86, []byte("http://crl."), rText(r, 1, 10)), rGeneralName(r, r.Intn(9), false))
				}
				dp = append(dp, tl(0xa0, tl(0xa0, gns))...) // distributionPoint [0] { fullName [0] IMPLICIT GeneralNames }
			}
			if r.Chance(20) {
				dp = append(dp, tl(0x81, []byte{1, 0x7e})...)
			}
			if r.Chance(20) {
				dp = append(dp, tl(0xa2, tl(0xa4, rName(r)))...)
			}
			dps = append(dps, tl(0x30, dp)...)
		}
		return tl(0x30, dps)
	}},
	{"authorityKeyId", []int{2, 5, 29, 35}, func(r *zv.Rng) []byte {
		var b []byte
		if r.Chance(85) {
			b = tl(0x80, r.Bytes(r.Intn(21)))
		}
		if r.Chance(15) {
			b = cat(b, tl(0xa1, tl(0xa4, rName(r))), tl(0x82, derInt(int64(r.Intn(70000)))[2:]))
		}
		return tl(0x30, b)
	}},
	{"subjectKeyId", []int{2, 5, 29, 14}, func(r *zv.Rng) []byte { return tl(0x04, r.Bytes(r.Intn(21))) }},
	{"extKeyUsage", []int{2, 5, 29, 37}, func(r *zv.Rng) []byte {
		var b []byte
		for i, k := 0, r.Intn(4); i < k; i++ {
			if r.Bool() {
				b = append(b, oid(1, 3, 6, 1, 5, 5, 7, 3, 1+r.Intn(9))...)
			} else {
				b = append(b, tl(0x06, rOID(r))...)
			}
		}
		return tl(0x30, b)
	}},
	{"certificatePolicies", []int{2, 5, 29, 32}, func(r *zv.Rng) []byte {
		var ps []byte
		for i, k := 0, 1+r.Intn(3); i < k; i++ {
			p := tl(0x06, rOID(r))
			if r.Chance(30) {
				p = oid(2, 23, 140, 1, 2, 1+r.Intn(3))
			}
			if r.Chance(75) {
				var qs []byte
				for j, m := 0, 1+r.Intn(3); j < m; j++ {
					if r.Bool() {
						qs = append(qs, tl(0x30, oid(cpsOID...), tl([]byte{0x16, 0x16, 0x0c, 0x13}[r.Intn(4)], []byte("http://cps."), rText(r, 1, 9)))...)
					} else {
						var un []byte
						if r.Chance(50) {
							var nums []byte
							for q, w := 0, r.Intn(3); q < w; q++ {
								nums = append(nums, derInt(int64(r.Intn(300)))...)
							}
							un = append(un, tl(0x30, tl([]byte{0x0c, 0x16, 0x1a, 0x1e}[r.Intn(4)], rText(r, 0, 8)), tl(0x30, nums))...)
						}
						if r.Chance(70) {
							un = append(un, tl([]byte{0x0c, 0x16, 0x1a, 0x1e}[r.Intn(4)], rText(r, 0, 14))...)
						}
						qs = append(qs, tl(0x30, oid(userNoticeOID...), tl(0x30, un))...)
					}
				}
				p = cat(p, tl(0x30, qs))
			}
			ps = append(ps, tl(0x30, p)...)
		}
		return tl(0x30, ps)
	}},
	{"authorityInfoAccess", []int{1, 3, 6, 1, 5, 5, 7, 1, 1}, func(r *zv.Rng) []byte {
		var b []byte
		for i, k := 0, 1+r.Intn(3); i < k; i++ {
			loc := tl(0x86, []byte("http://"), rText(r, 1, 12))
			if r.Chance(25) {
				loc = rGeneralName(r, r.Intn(9), false)
			}
			b = append(b, tl(0x30, oid(1, 3, 6, 1, 5, 5, 7, 48, 1+r.Intn(2)), loc)...)
		}
		return tl(0x30, b)
	}},
	{"sctList", []int{1, 3, 6, 1, 4, 1, 11129, 2, 4, 2}, func(r *zv.Rng) []byte {
		var l []byte
		for i, k := 0, 1+r.Intn(2); i < k; i++ {
			s := rSCT(r)
			l = append(l, byte(len(s)>>8), byte(len(s)))
			l = append(l, s...)
		}
		if r.Chance(15) && len(l) > 3 { // inner (non-ASN.1) framing error
			l = l[:len(l)-1-r.Intn(3)]
		}
		return tl(0x04, []byte{byte(len(l) >> 8), byte(len(l))}, l)
	}},
	{"ctPoison", []int{1, 3, 6, 1, 4, 1, 11129, 2, 4, 3}, func(r *zv.Rng) []byte {
		if r.Chance(60) {
			return []byte{5, 0}
		}
		return [][]byte{{5, 1, 0}, {5, 0x81, 0}, {4, 0}, {1, 1, 0xff}}[r.Intn(4)]
	}},
	{"torServiceDescriptor", []int{2, 23, 140, 1, 31}, func(r *zv.Rng) []byte {
		var b []byte
		for i, k := 0, 1+r.Intn(2); i < k; i++ {
			h := oid(2, 16, 840, 1, 101, 3, 4, 2, 1+r.Intn(3))
			b = append(b, tl(0x30, tl(0x0c, []byte("https://"), rText(r, 4, 16), []byte(".onion")), tl(0x30, h), tl(0x03, []byte{0}, r.Bytes(32)))...)
		}
		return tl(0x30, b)
	}},
	{"cabfOrganizationId", []int{2, 23, 140, 3, 1}, func(r *zv.Rng) []byte {
		b := cat(tl(0x13, []byte("VAT")), tl(0x13, []byte("DE")))
		if r.Bool() {
			b = cat(b, tl(0x80, []byte("BY")))
		}
		return tl(0x30, b, tl(0x0c, rText(r, 1, 10)))
	}},
	{"qcStatements", []int{1, 3, 6, 1, 5, 5, 7, 1, 3}, func(r *zv.Rng) []byte {
		var b []byte
		etsi := func(n int) []byte { return oid(0, 4, 0, 1862, 1, n) }
		for i, k := 0, 1+r.Intn(4); i < k; i++ {
			switch r.Intn(8) {
			case 0:
				b = append(b, tl(0x30, etsi(1))...)
			case 1:
				cur := tl(0x13, []byte("EUR"))
				if r.Bool() {
					cur = derInt(978)
				}
				b = append(b, tl(0x30, etsi(2), tl(0x30, cur, derInt(int64(r.Intn(1000))), derInt(int64(r.Intn(6)))))...)
			case 2:
				b = append(b, tl(0x30, etsi(3), derInt(int64(r.Intn(200))))...)
			case 3:
				b = append(b, tl(0x30, etsi(4))...)
			case 4:
				b = append(b, tl(0x30, etsi(5), tl(0x30, tl(0x30, tl(0x16, []byte("https://pds."), rText(r, 1, 8)), tl(0x13, []byte("en")))))...)
			case 5:
				b = append(b, tl(0x30, etsi(6), tl(0x30, oid(0, 4, 0, 1862, 1, 6, 1+r.Intn(3))))...)
			case 6:
				b = append(b, tl(0x30, etsi(7), tl(0x30, tl(0x13, []byte("DE")), tl(0x13, []byte("FR"))))...)
			default:
				b = append(b, tl(0x30, tl(0x06, rOID(r)), tl(0x30, tl(0x0c, rText(r, 0, 6))))...)
			}
		}
		return tl(0x30, b)
	}},
	{"unknownExt", []int{1, 3, 6, 1, 4, 1, 99999, 1}, func(r *zv.Rng) []byte { return tl(0x30, tl(0x0c, rText(r, 0, 8)), derInt(int64(r.Intn(1000)))) }},
}

// ---------------------------------------------------------------------------------------------------------------
// Certificate landmarks in the tree.

type certTree struct {
	root, tbs, serial, issuer, validity, subject, spki, exts, sigAlg, sig *tlv
}

func landmarks(root *tlv) *certTree {
	ct := &certTree{root: root}
	if root == nil || !root.hasKids || len(root.kids) < 1 || !root.kids[0].hasKids {
		return ct
	}
	ct.tbs = root.kids[0]
	if len(root.kids) >= 3 {
		ct.sigAlg, ct.sig = root.kids[1], root.kids[2]
	}
	k := ct.tbs.kids
	i := 0
	if len(k) > 0 && k[0].id[0] == 0xa0 {
		i = 1
	}
	if len(k) >= i+6 {
		ct.serial, ct.issuer, ct.validity, ct.subject, ct.spki = k[i], k[i+2], k[i+3], k[i+4], k[i+5]
	}
	for _, n := range k {
		if n.id[0] == 0xa3 && n.hasKids && len(n.kids) == 1 && n.kids[0].hasKids {
			ct.exts = n.kids[0]
		}
	}
	return ct
}

// installExt replaces the extension with the same OID or inserts a new one; returns the extension node.
func installExt(r *zv.Rng, ct *certTree, spec extSpec, body []byte, critical bool) *tlv {
	if ct.tbs == nil {
		return nil
	}
	var e []byte
	e = append(e, oid(spec.oid...)...)
	if critical {
		e = append(e, tl(0x01, []byte{0xff})...)
	}
	e = append(e, tl(0x04, body)...)
	ns, ok := parseTLVs(tl(0x30, e), 0, 0)
	if !ok {
		return nil
	}
	ext := ns[0]
	if ct.exts == nil {
		wrap, _ := parseTLVs(tl(0xa3, tl(0x30)), 0, 0)
		wrap[0].parent = ct.tbs
		ct.tbs.kids = append(ct.tbs.kids, wrap[0])
		ct.exts = wrap[0].kids[0]
		ct.exts.hasKids = true
	}
	ext.parent = ct.exts
	want := oidBody(spec.oid...)
	for i, old := range ct.exts.kids {
		if old.hasKids && len(old.kids) > 0 && bytes.Equal(old.kids[0].content, want) {
			ct.exts.kids[i] = ext
			return ext
		}
	}
	pos := r.Intn(len(ct.exts.kids) + 1)
	ct.exts.kids = append(ct.exts.kids[:pos:pos], append([]*tlv{ext}, ct.exts.kids[pos:]...)...)
	return ext
}

// ---------------------------------------------------------------------------------------------------------------
// Structure-aware mutation operators.  Each aims at one family of permissive sites (see the comment per operator).

type mutOp struct {
	name   string
	weight int
	pred   func(n *tlv) bool
	apply  func(r *zv.Rng, n *tlv)
}

func bodyLen(n *tlv) int { return len(n.body()) }

func timeVariants(r *zv.Rng, n *tlv) {
	s := string(n.content)
	utc := n.id[0] == 0x17
	var yy, rest string // rest = MMDDHHMMSS
	switch {
	case utc && len(s) >= 13:
		yy, rest = s[:2], s[2:12]
	case !utc && len(s) >= 15:
		yy, rest = s[2:4], s[4:14]
	default:
		yy, rest = "25", "0102030405"
	}
	cent := "20"
	if yy >= "50" {
		cent = "19"
	}
	pre := yy
	if !utc {
		pre = cent + yy
	}
	v := []string{
		pre + rest[:8] + "Z",                                                                                // no seconds
		pre + rest + "+0000",                                                                                // numeric zone, zero
		pre + rest + "-0700",                                                                                // numeric zone
		pre + rest + "+0530",                                                                                //
		pre + rest[:8] + "+0000",                                                                            // no seconds + zone
		pre + rest + ".5Z",                                                                                  // fractional seconds
		pre + rest + ".000Z",                                                                                //
		pre + rest + ",5Z",                                                                                  //
		pre + rest,                                                                                          // no zone
		pre + rest + "z",                                                                                    // lower-case
		pre + "0230" + rest[4:] + "Z",                                                                       // 30 February
		pre + "1301" + rest[4:] + "Z",                                                                       // month 13
		pre + rest[:4] + "2400" + "00Z",                                                                     // hour 24
		pre + rest[:8] + "60Z",                                                                              // leap second
		pre + "0000" + rest[4:] + "Z",                                                                       // month 0 day 0
		cent + yy + rest + "Z",                                                                              // GeneralizedTime content (in a UTCTime slot if utc)
		yy + rest + "Z",                                                                                     // UTCTime content (in a GeneralizedTime slot if !utc)
		"49" + rest + "Z", "50" + rest + "Z", "2049" + rest + "Z", "2050" + rest + "Z", "1950" + rest + "Z", // 2050 pivot
		pre + rest + "Z ",  // trailing blank
		pre + rest + "+00", // short zone
		pre + rest + "Z0000",
		"",
	}
	n.content = []byte(v[r.Intn(len(v))])
	switch r.Intn(6) {
	case 0: // swap the tag, keep the (new) content
		n.id[0] ^= 0x17 ^ 0x18
	case 1: // proper conversion to the other type
		if utc {
			n.id[0], n.content = 0x18, []byte(cent+yy+rest+"Z")
		} else {
			n.id[0], n.content = 0x17, []byte(yy+rest+"Z")
		}
	}
}

var oddChars = []byte{'@', '*', '&', 0x80, 0xff, 0xc3, '_', ' ', '\'', 0x00, 0x7f, '!', 'a', '0', 0xe9, '"', ';', '<'}
var badUTF8 = [][]byte{{0xc3, 0x28}, {0xe2, 0x82}, {0xf0, 0x28, 0x8c, 0xbc}, {0xed, 0xa0, 0x80}, {0xc0, 0xaf}, {0xff}, {0xc3, 0xa9}, {0xe2, 0x82, 0xac}}

var mutOps = []mutOp{
	// asn1.go parseTagAndLength "non-minimal length": 0x81 nn with nn < 0x80 (strict rejects, permissive accepts)
	{"len81", 14, func(n *tlv) bool { return bodyLen(n) < 0x80 && n.lform == 0 }, func(r *zv.Rng, n *tlv) { n.lform = 1 }},
	// one length octet more than needed where that means a leading zero: rejected in BOTH modes
	{"lenpad", 3, func(n *tlv) bool { return true }, func(r *zv.Rng, n *tlv) { n.lform = len(derLen(bodyLen(n), 0)) - 1 + 1 + boolInt(bodyLen(n) < 0x80) }},
	// asn1.go checkInteger: value-preserving non-minimal INTEGER (00 before <0x80, ff before >=0x80)
	{"int-pad", 12, func(n *tlv) bool { return !n.hasKids && n.id[0] == 0x02 && len(n.content) > 0 }, func(r *zv.Rng, n *tlv) {
		p := byte(0)
		if n.content[0] >= 0x80 {
			p = 0xff
		}
		if r.Chance(20) {
			p ^= 0xff
		}
		n.content = append([]byte{p}, n.content...)
		if r.Chance(10) {
			n.content = append([]byte{p}, n.content...)
		}
	}},
	// same for IMPLICIT-tagged integers ([0]/[1] min/max of name constraints, [2] serial of AKI) and ENUMERATED
	{"int-pad-ctx", 3, func(n *tlv) bool {
		return !n.hasKids && (n.isCtxPrim() || n.id[0] == 0x0a) && len(n.content) > 0 && len(n.content) <= 3
	}, func(r *zv.Rng, n *tlv) {
		p := byte(0)
		if n.content[0] >= 0x80 {
			p = 0xff
		}
		n.content = append([]byte{p}, n.content...)
	}},
	// x509.go parsePublicKey RSA modulus/exponent sign checks; serial numbers; path lengths
	{"int-val", 8, func(n *tlv) bool { return !n.hasKids && n.id[0] == 0x02 }, func(r *zv.Rng, n *tlv) {
		switch r.Intn(8) {
		case 0:
			n.content = []byte{0}
		case 1:
			n.content = nil
		case 2:
			n.content = []byte{0x80}
		case 3:
			n.content = []byte{0xff}
		case 4:
			if len(n.content) > 0 {
				n.content[0] ^= 0x80
			}
		case 5:
			if len(n.content) > 1 && n.content[0] == 0 { // drop the sign octet: becomes negative
				n.content = n.content[1:]
			}
		case 6:
			n.content = []byte{0, 0}
		default:
			n.content = append([]byte{0xff}, r.Bytes(1+r.Intn(8))...)
		}
	}},
	// asn1.go parsePrintableString / parseIA5String / parseNumericString / parseUTF8String alphabets
	{"str-char", 14, func(n *tlv) bool { return n.isUnivString() || (n.isCtxPrim() && !n.hasKids) }, func(r *zv.Rng, n *tlv) {
		c := oddChars[r.Intn(len(oddChars))]
		if len(n.content) == 0 || r.Chance(30) {
			n.content = append(n.content, c)
		} else {
			n.content[r.Intn(len(n.content))] = c
		}
	}},
	{"str-tag", 8, func(n *tlv) bool { return n.isUnivString() }, func(r *zv.Rng, n *tlv) { n.id[0] = stringTags[r.Intn(len(stringTags))] }},
	{"str-utf8", 5, func(n *tlv) bool { return n.isUnivString() || (n.isCtxPrim() && !n.hasKids) }, func(r *zv.Rng, n *tlv) {
		b := badUTF8[r.Intn(len(badUTF8))]
		pos := r.Intn(len(n.content) + 1)
		n.content = append(n.content[:pos:pos], append(append([]byte{}, b...), n.content[pos:]...)...)
		if r.Chance(40) {
			n.id[0] = 0x0c
		}
	}},
	{"str-bmp", 2, func(n *tlv) bool { return n.isUnivString() }, func(r *zv.Rng, n *tlv) {
		n.id[0] = 0x1e
		if r.Bool() && len(n.content) > 0 {
			n.content = n.content[:(len(n.content)-1)|1] // odd length
		}
	}},
	// asn1.go parseUTCTime / parseGeneralizedTime "did not serialize back"
	{"time", 10, func(n *tlv) bool { return !n.hasKids && (n.id[0] == 0x17 || n.id[0] == 0x18) }, timeVariants},
	// structural damage with consistent outer lengths: the `continue`-on-error arms of parseCertificate / parseGeneralNames
	{"del", 6, func(n *tlv) bool { return n.parent != nil }, func(r *zv.Rng, n *tlv) {
		i := n.index()
		n.parent.kids = append(n.parent.kids[:i:i], n.parent.kids[i+1:]...)
		n.parent = nil // detached
	}},
	{"dup", 5, func(n *tlv) bool { return n.parent != nil }, func(r *zv.Rng, n *tlv) {
		i := n.index()
		c := n.clone(n.parent)
		n.parent.kids = append(n.parent.kids[:i:i], append([]*tlv{c}, n.parent.kids[i:]...)...)
	}},
	{"empty", 5, func(n *tlv) bool { return true }, func(r *zv.Rng, n *tlv) { n.kids, n.content, n.prefix = nil, nil, nil }},
	{"trunc", 6, func(n *tlv) bool { return !n.hasKids && len(n.content) > 0 }, func(r *zv.Rng, n *tlv) {
		n.content = n.content[:len(n.content)-1-r.Intn(min(len(n.content), 3))]
	}},
	{"overrun", 4, func(n *tlv) bool { return n.parent != nil }, func(r *zv.Rng, n *tlv) {
		b := n.body()
		n.raw = cat(n.id, derLen(len(b)+1+r.Intn(3), 0), b)
	}},
	{"underrun", 4, func(n *tlv) bool { return n.parent != nil && bodyLen(n) > 0 }, func(r *zv.Rng, n *tlv) {
		b := n.body()
		n.raw = cat(n.id, derLen(len(b)-1, 0), b)
	}},
	{"tag-bit", 6, func(n *tlv) bool { return true }, func(r *zv.Rng, n *tlv) { n.id[0] ^= 1 << uint([]int{0, 1, 2, 3, 5, 6, 7}[r.Intn(7)]) }},
	// wrong explicit / implicit context tag numbers
	{"tag-ctx", 6, func(n *tlv) bool { return n.id[0]&0xc0 == 0x80 }, func(r *zv.Rng, n *tlv) {
		n.id[0] = n.id[0]&0xe0 | byte(r.Intn(9))
	}},
	{"unwrap", 2, func(n *tlv) bool { return n.parent != nil && n.hasKids && n.id[0]&0xc0 == 0x80 }, func(r *zv.Rng, n *tlv) {
		i := n.index()
		for _, k := range n.kids {
			k.parent = n.parent
		}
		n.parent.kids = append(n.parent.kids[:i:i], append(append([]*tlv{}, n.kids...), n.parent.kids[i+1:]...)...)
		n.parent, n.kids = nil, nil // detached
	}},
	{"wrap", 2, func(n *tlv) bool { return n.parent != nil }, func(r *zv.Rng, n *tlv) {
		w := &tlv{id: []byte{0xa0 | byte(r.Intn(4))}, hasKids: true, parent: n.parent}
		if r.Chance(30) {
			w.id[0] = 0x30
		}
		n.parent.kids[n.index()] = w
		w.kids = []*tlv{n}
		n.parent = w
	}},
	{"bool", 3, func(n *tlv) bool { return !n.hasKids && n.id[0] == 0x01 }, func(r *zv.Rng, n *tlv) {
		n.content = [][]byte{{1}, {0}, {0xff}, {0xff, 0xff}, {}, {0x80}}[r.Intn(6)]
	}},
	{"bitstring", 4, func(n *tlv) bool { return n.id[0] == 0x03 || (n.isCtxPrim() && n.id[0] == 0x81) }, func(r *zv.Rng, n *tlv) {
		if n.hasKids {
			n.prefix = []byte{byte(1 + r.Intn(8))}
			return
		}
		switch {
		case len(n.content) == 0:
			n.content = []byte{byte(r.Intn(9))}
		case r.Bool():
			n.content[0] = byte(r.Intn(10))
		default:
			n.content[len(n.content)-1] |= byte(1 << uint(r.Intn(8)))
		}
	}},
	{"oid", 6, func(n *tlv) bool { return !n.hasKids && (n.id[0] == 0x06 || n.id[0] == 0x88) }, func(r *zv.Rng, n *tlv) {
		switch r.Intn(5) {
		case 0:
			if len(n.content) > 0 {
				n.content[len(n.content)-1] |= 0x80
			}
		case 1:
			pos := r.Intn(len(n.content) + 1)
			n.content = append(n.content[:pos:pos], append([]byte{0x80}, n.content[pos:]...)...)
		case 2:
			n.content = nil
		case 3: // turn it into the OID of an extension parseCertificate interprets (wrong body for that OID)
			n.content = oidBody(extSpecs[r.Intn(len(extSpecs))].oid...)
		default:
			n.content = append(n.content, 0x88, 0x80, 0x80, 0x80, 0x80, 0x80, 0x80, 0x80, 0x80, 0x01) // arc > 2^63
		}
	}},
	{"swap", 3, func(n *tlv) bool { return n.parent != nil && len(n.parent.kids) > 1 }, func(r *zv.Rng, n *tlv) {
		i := n.index()
		j := r.Intn(len(n.parent.kids))
		n.parent.kids[i], n.parent.kids[j] = n.parent.kids[j], n.parent.kids[i]
	}},
	{"leaf-byte", 5, func(n *tlv) bool { return !n.hasKids && len(n.content) > 0 }, func(r *zv.Rng, n *tlv) {
		n.content[r.Intn(len(n.content))] ^= byte(1 << uint(r.Intn(8)))
	}},
	{"null", 2, func(n *tlv) bool { return !n.hasKids && n.id[0] == 0x05 }, func(r *zv.Rng, n *tlv) {
		n.content = []byte{0}
	}},
}

func boolInt(b bool) int {
	if b {
		return 1
	}
	return 0
}

var mutOpTotal = func() int {
	t := 0
	for _, o := range mutOps {
		t += o.weight
	}
	return t
}()

func pickOp(r *zv.Rng) *mutOp {
	x := r.Intn(mutOpTotal)
	for i := range mutOps {
		if x < mutOps[i].weight {
			return &mutOps[i]
		}
		x -= mutOps[i].weight
	}
	return &mutOps[0]
}

// mutateIn applies one random applicable operator to a random node below (and including) scope; returns its name.
func mutateIn(r *zv.Rng, scope *tlv) string {
	if scope == nil {
		return ""
	}
	for try := 0; try < 12; try++ {
		op := pickOp(r)
		var cands []*tlv
		scope.walk(func(n *tlv) {
			if n.raw == nil && op.pred(n) {
				cands = append(cands, n)
			}
		})
		if len(cands) == 0 {
			continue
		}
		op.apply(r, cands[r.Intn(len(cands))])
		return op.name
	}
	return ""
}

// mutateOp applies the named operator inside scope if it has an applicable node.
func mutateOp(r *zv.Rng, scope *tlv, name string) bool {
	if scope == nil {
		return false
	}
	for i := range mutOps {
		if mutOps[i].name != name {
			continue
		}
		var cands []*tlv
		scope.walk(func(n *tlv) {
			if n.raw == nil && mutOps[i].pred(n) {
				cands = append(cands, n)
			}
		})
		if len(cands) == 0 {
			return false
		}
		mutOps[i].apply(r, cands[r.Intn(len(cands))])
		return true
	}
	return false
}

// ---------------------------------------------------------------------------------------------------------------
// Deterministic self-signed ECDSA P-256 certificates (all randomness from the Rng, including the signature nonce),
// so that certificates whose signature VERIFIES exist among the mutation bases: SelfSigned depends on parsing the
// ECDSA-Sig-Value INTEGERs, which is a mode-dependent parse whose error parseCertificate swallows.

func ecdsaSelfSigned(r *zv.Rng) []byte {
	curve := elliptic.P256()
	n := curve.Params().N
	d := new(big.Int).SetBytes(r.Bytes(32))
	d.Mod(d, new(big.Int).Sub(n, big.NewInt(1))).Add(d, big.NewInt(1))
	x, y := curve.ScalarBaseMult(d.Bytes())
	pt := cat([]byte{0, 4}, x.FillBytes(make([]byte, 32)), y.FillBytes(make([]byte, 32)))
	algECDSASHA256 := tl(0x30, oid(1, 2, 840, 10045, 4, 3, 2))
	spki := tl(0x30, tl(0x30, oid(1, 2, 840, 10045, 2, 1), oid(1, 2, 840, 10045, 3, 1, 7)), tl(0x03, pt))
	name := rName(r)
	if len(name) == 2 && r.Bool() {
		name = tl(0x30, tl(0x31, tl(0x30, oid(2, 5, 4, 3), tl(0x0c, rText(r, 1, 12)))))
	}
	nb := time.Unix(int64(946684800+r.Intn(1500000000)), 0).UTC()
	na := nb.Add(time.Duration(1+r.Intn(5000)) * 24 * time.Hour)
	tm := func(t time.Time) []byte {
		if t.Year() >= 2050 || r.Chance(10) {
			return tl(0x18, []byte(t.Format("20060102150405Z")))
		}
		return tl(0x17, []byte(t.Format("060102150405Z")))
	}
	var exts []byte
	perm := make([]int, len(extSpecs))
	for i := range perm {
		perm[i] = i
	}
	for i := len(perm) - 1; i > 0; i-- {
		j := r.Intn(i + 1)
		perm[i], perm[j] = perm[j], perm[i]
	}
	for _, i := range perm[:r.Intn(7)] {
		e := oid(extSpecs[i].oid...)
		if r.Chance(25) {
			e = cat(e, tl(0x01, []byte{0xff}))
		}
		exts = append(exts, tl(0x30, e, tl(0x04, extSpecs[i].body(r)))...)
	}
	serial := append([]byte{byte(1 + r.Intn(0x7f))}, r.Bytes(r.Intn(16))...)
	tbs := cat(tl(0xa0, derInt(2)), tl(0x02, serial), algECDSASHA256, name, tl(0x30, tm(nb), tm(na)), name, spki)
	if len(exts) > 0 || r.Bool() {
		tbs = cat(tbs, tl(0xa3, tl(0x30, exts)))
	}
	tbs = tl(0x30, tbs)
	// ECDSA with an Rng-derived nonce
	h := sha256.Sum256(tbs)
	e := new(big.Int).SetBytes(h[:])
	var rr, ss *big.Int
	for {
		k := new(big.Int).SetBytes(r.Bytes(32))
		k.Mod(k, new(big.Int).Sub(n, big.NewInt(1))).Add(k, big.NewInt(1))
		kx, _ := curve.ScalarBaseMult(k.Bytes())
		rr = new(big.Int).Mod(kx, n)
		if rr.Sign() == 0 {
			continue
		}
		ss = new(big.Int).Mul(rr, d)
		ss.Add(ss, e).Mul(ss, new(big.Int).ModInverse(k, n)).Mod(ss, n)
		if ss.Sign() != 0 {
			break
		}
	}
	bi := func(v *big.Int) []byte {
		b := v.Bytes()
		if b[0]&0x80 != 0 {
			b = append([]byte{0}, b...)
		}
		return tl(0x02, b)
	}
	sig := tl(0x03, []byte{0}, tl(0x30, bi(rr), bi(ss)))
	return tl(0x30, tbs, algECDSASHA256, sig)
}

// ---------------------------------------------------------------------------------------------------------------
// Generators

func sanitizeKind(s string) string {
	return strings.Map(func(c rune) rune {
		if c == ' ' || c == '\t' {
			return '_'
		}
		return c
	}, s)
}

func genCert(g *zv.Gen) {
	r := g.Rng
	fx := loadFixtures()
	if len(fx) == 0 {
		g.Emit("c20 cert 3000 self-check-failed") // no fixtures = vacuous run; make that loud
		return
	}
	// (a) every fixture unmodified; self-check of the comparison on two strict parses of the same DER
	var bases, permOnly []fixture // bases: strict mode accepts them and the TLV tree round-trips
	for _, f := range fx {
		emitCert(g, f.der, "fixture")
		c1, e1 := parseMode(f.der, false)
		c2, e2 := parseMode(f.der, false)
		t := parseTree(f.der)
		treeOK := t != nil && bytes.Equal(t.encode(), f.der)
		if e1 == nil && e2 == nil {
			if d, _ := compareCerts(c1, c2); d != "" {
				emitCert(g, f.der, "self-check-failed")
			}
			if treeOK {
				bases = append(bases, f)
			}
		} else if _, e3 := parseMode(f.der, true); e3 == nil && treeOK {
			permOnly = append(permOnly, f)
		}
	}
	// (d) deterministic self-signed ECDSA certificates with random extensions (also used as mutation bases)
	var ec []fixture
	for i, n := 0, g.N(150, 1500); i < n; i++ {
		der := ecdsaSelfSigned(r)
		emitCert(g, der, "ecdsa-gen")
		ec = append(ec, fixture{name: "ecdsa-gen", der: der})
	}
	pickBase := func() fixture {
		x := r.Intn(100)
		switch {
		case x < 12 && len(permOnly) > 0:
			return permOnly[r.Intn(len(permOnly))]
		case x < 40 && len(ec) > 0:
			return ec[r.Intn(len(ec))]
		case len(bases) > 0:
			return bases[r.Intn(len(bases))]
		}
		return fx[r.Intn(len(fx))]
	}

	// (b) byte-level mutations, half of them on tag / length octets
	interesting := []byte{0, 1, 0x7f, 0x80, 0x81, 0x82, 0xff, 0x30, 0x31, 0xa0, 0x02, 0x04, 0x0c, 0x13, 0x16, 0x17, 0x18}
	for i, n := 0, g.N(3500, 80000); i < n; i++ {
		f := pickBase()
		der := append([]byte{}, f.der...)
		pos := r.Intn(len(der))
		where := "any"
		if r.Chance(55) {
			if t := parseTree(der); t != nil {
				var hp []int
				t.walk(func(n *tlv) {
					for k := 0; k < n.hdr; k++ {
						hp = append(hp, n.off+k)
					}
				})
				pos = hp[r.Intn(len(hp))]
				where = "hdr"
			}
		}
		var kind string
		switch r.Intn(6) {
		case 0:
			der[pos] ^= 1 << uint(r.Intn(8))
			kind = "flip"
		case 1:
			der[pos] = interesting[r.Intn(len(interesting))]
			kind = "set"
		case 2:
			der[pos] = byte(r.U64())
			kind = "rand"
		case 3:
			der[pos] += byte(1 + 2*r.Intn(2)) // +1 / -1
			kind = "inc"
		case 4:
			der = append(der[:pos:pos], append([]byte{interesting[r.Intn(len(interesting))]}, der[pos:]...)...)
			kind = "ins"
		default:
			der = append(der[:pos:pos], der[pos+1:]...)
			kind = "del"
		}
		emitCert(g, der, "byte-"+where+"-"+kind)
	}

	// (c1) structure-aware: one or two operators inside a chosen region of the certificate
	scopes := []string{"any", "issuer", "subject", "validity", "spki", "exts", "exts", "sig", "serial"}
	for i, n := 0, g.N(11000, 260000); i < n; i++ {
		f := pickBase()
		t := parseTree(f.der)
		if t == nil {
			continue
		}
		ct := landmarks(t)
		sc := scopes[r.Intn(len(scopes))]
		scope := map[string]*tlv{"any": ct.root, "issuer": ct.issuer, "subject": ct.subject, "validity": ct.validity,
			"spki": ct.spki, "exts": ct.exts, "sig": ct.sig, "serial": ct.serial}[sc]
		if scope == nil {
			sc, scope = "any", ct.root
		}
		if sc == "exts" && len(ct.exts.kids) > 0 && r.Chance(70) { // concentrate on one extension's value
			scope = ct.exts.kids[r.Intn(len(ct.exts.kids))]
		}
		name := mutateIn(r, scope)
		if name == "" {
			name = mutateIn(r, ct.root)
		}
		if r.Chance(25) {
			if n2 := mutateIn(r, scope); n2 != "" {
				name += "+" + n2
			}
		}
		emitCert(g, t.encode(), "tlv-"+sc+"-"+name)
	}

	// (c2) targeted pairs (operator × region) that the uniform choice above reaches too rarely
	targeted := [][2]string{{"spki", "int-val"}, {"spki", "int-pad"}, {"sig", "int-pad"}, {"sig", "len81"}, {"validity", "time"},
		{"subject", "str-char"}, {"issuer", "str-tag"}, {"subject", "str-utf8"}, {"exts", "len81"}, {"exts", "int-pad"},
		{"exts", "str-char"}, {"exts", "tag-ctx"}, {"exts", "oid"}, {"serial", "int-pad"}, {"exts", "int-pad-ctx"}, {"exts", "bitstring"}}
	for i, n := 0, g.N(3200, 80000); i < n; i++ {
		f := pickBase()
		t := parseTree(f.der)
		if t == nil {
			continue
		}
		ct := landmarks(t)
		tg := targeted[i%len(targeted)]
		scope := map[string]*tlv{"spki": ct.spki, "sig": ct.sig, "validity": ct.validity, "subject": ct.subject,
			"issuer": ct.issuer, "exts": ct.exts, "serial": ct.serial}[tg[0]]
		if !mutateOp(r, scope, tg[1]) {
			continue
		}
		emitCert(g, t.encode(), "tgt-"+tg[0]+"-"+tg[1])
	}

	// (c3) crafted bodies for every extension parseCertificate interprets (GeneralNames of every tag 0..8, name
	// constraints, CRL DPs, AIA, policies with user notices, key usage, basic constraints, EKU, SCT list, poison,
	// Tor, CABF org id, QC statements), installed into a fixture, then 0..2 operators inside that extension
	for i, n := 0, g.N(9000, 220000); i < n; i++ {
		f := pickBase()
		t := parseTree(f.der)
		if t == nil {
			continue
		}
		ct := landmarks(t)
		spec := extSpecs[r.Intn(len(extSpecs))]
		ext := installExt(r, ct, spec, spec.body(r), r.Chance(20))
		if ext == nil {
			continue
		}
		kind := "ext-" + spec.name
		switch x := r.Intn(100); {
		case x < 25:
		case x < 50: // the asn1-level permissive sites, inside an extension whose parse error is handled by x509.go
			op := []string{"len81", "int-pad", "str-char", "str-utf8", "int-pad-ctx", "str-tag"}[r.Intn(6)]
			if mutateOp(r, ext, op) {
				kind += "+" + op
			}
		default:
			if m := mutateIn(r, ext); m != "" {
				kind += "+" + m
			}
			if r.Chance(30) {
				if m := mutateIn(r, ext); m != "" {
					kind += "+" + m
				}
			}
		}
		if r.Chance(8) { // the same extension twice
			if i := ext.index(); i >= 0 && ext.parent == ct.exts {
				ct.exts.kids = append(ct.exts.kids[:i:i], append([]*tlv{ext.clone(ct.exts)}, ct.exts.kids[i:]...)...)
				kind += "+twice"
			}
		}
		emitCert(g, t.encode(), sanitizeKind(kind))
	}
}
