package c20

// asn1-level stream of C20 (T2 + T3):  c20 u <schema> p=<tagstring> <hex>
// The real Unmarshal is run on the same bytes with AllowPermissiveParsing=false and =true; the canonical output
// "<strict>|<permissive>" is compared with the Lean model (both modes), and the oracle checks
// strict ok ⇒ permissive ok with identical value and rest.

import (
	"reflect"
	"strings"

	"github.com/zmap/zcrypto/encoding/asn1"

	"zv/internal/zv"
	"zv/props/c18"
)

func unmarshalMode(s *c18.Sch, t reflect.Type, tag string, der []byte, perm bool) string {
	permMu.Lock()
	defer permMu.Unlock()
	defer func() { asn1.AllowPermissiveParsing = false }()
	asn1.AllowPermissiveParsing = perm
	return c18.UnmarshalDump(s, t, tag, der)
}

func execAsn1(line string) zv.Out {
	f := strings.Fields(line)
	if len(f) != 5 || !strings.HasPrefix(f[3], "p=") {
		return zv.Out{Go: "bad-op"}
	}
	s := c18.ParseSch(f[2])
	t := s.Type()
	if back := c18.SchemaOf(t).String(); back != f[2] {
		panic("schema derived from the Go type by reflection differs from the case line: " + back)
	}
	tag := f[3][2:]
	der := zv.UnHex(f[4])
	st := unmarshalMode(s, t, tag, der, false)
	pm := unmarshalMode(s, t, tag, der, true)
	out := zv.Out{Go: st + "|" + pm}
	switch {
	case st != "err" && pm == "err":
		out.Viol = "strict Unmarshal succeeds (" + st + ") but permissive Unmarshal fails"
		out.Tags = append(out.Tags, "asn1:strict-ok")
	case st != "err" && pm != st:
		out.Viol = "strict and permissive Unmarshal both succeed with different results: " + st + " vs " + pm
		out.Tags = append(out.Tags, "asn1:strict-ok")
	case st != "err":
		out.Tags = append(out.Tags, "asn1:strict-ok", "asn1:perm-ok")
	case pm != "err":
		out.Tags = append(out.Tags, "asn1:strict-err", "asn1:perm-only-ok")
	default:
		out.Tags = append(out.Tags, "asn1:strict-err", "asn1:perm-err")
	}
	if len(f) > 4 {
		out.Tags = append(out.Tags, "asn1:u")
	}
	return out
}

// permMutate aims at the permissive sites: string alphabets, integer minimality, long-form lengths.
func permMutate(r *zv.Rng, der []byte) []byte {
	out := append([]byte{}, der...)
	// find primitive universal string / integer headers with short lengths
	var cands []int
	for i := 0; i+1 < len(out); i++ {
		switch out[i] {
		case 0x0c, 0x12, 0x13, 0x16, 0x02, 0x0a, 0x14, 0x1b:
			if int(out[i+1]) > 0 && int(out[i+1]) < 0x80 && i+2+int(out[i+1]) <= len(out) {
				cands = append(cands, i)
			}
		}
	}
	if len(cands) == 0 {
		m, _ := c18.Mutate(r, out)
		return m
	}
	h := cands[r.Intn(len(cands))]
	l := int(out[h+1])
	switch r.Intn(4) {
	case 0: // bad character
		out[h+2+r.Intn(l)] = []byte{'@', '*', '&', 0x80, 0xff, '_', 0xc0, 'a', ' ', '9'}[r.Intn(10)]
	case 1: // other string tag over the same content
		out[h] = []byte{0x0c, 0x12, 0x13, 0x16, 0x14, 0x1b, 0x1e}[r.Intn(7)]
	case 2: // long-form length of the same value
		n := append([]byte{}, out[:h+1]...)
		n = append(n, 0x81, out[h+1])
		out = append(n, out[h+2:]...)
		fixOuter(out, h)
	default: // padded integer / content
		pad := byte(0)
		if out[h+2]&0x80 != 0 {
			pad = 0xff
		}
		n := append([]byte{}, out[:h+1]...)
		n = append(n, out[h+1]+1, pad)
		out = append(n, out[h+2:]...)
		fixOuter(out, h)
	}
	return out
}

// fixOuter: best effort +1 on the short-form length bytes of the elements enclosing position h (top-down walk).
func fixOuter(b []byte, h int) {
	off, end := 0, len(b)
	for off < h && off+1 < end {
		if b[off]&0x1f == 0x1f || b[off+1] >= 0x80 {
			return
		}
		l := int(b[off+1])
		if off+2+l-1 >= h && off+2 <= h { // encloses (length not yet adjusted)
			if l+1 < 0x80 {
				b[off+1] = byte(l + 1)
			}
			off += 2
			continue
		}
		off += 2 + l
	}
}

func genAsn1(g *zv.Gen) {
	r := g.Rng
	for _, c := range []string{
		"c20 u i64 p= 02810105", "c20 u i64 p= 02020005", "c20 u i64 p= 0202ff85", "c20 u big p= 02020005", "c20 u enum p= 0a020005",
		"c20 u str p= 130140", "c20 u str p= 160180", "c20 u str p= 120161", "c20 u str p= 0c01ff", "c20 u str p= 0c02c3a9",
		"c20 u S2;p=;i64;p=;str p= 308107020105130240 40", "c20 u L;str p= 30811013024040160180120161",
		"c20 u str p=tag:0,utf8 8001ff", "c20 u str p=tag:0,ia5 800180", "c20 u str p=tag:0,numeric 800161", "c20 u str p=tag:0 800140",
		"c20 u oct p=explicit,tag:1 a18103040100",
	} {
		if len(strings.Fields(c)) == 5 {
			g.Emit(c)
		}
	}
	emit := func(s *c18.Sch, tag string, wild bool) {
		var der []byte
		func() {
			defer func() { recover() }()
			v := c18.BuildStr(s, s.Type(), c18.GenValStr(r, s, tag, wild))
			der, _ = asn1.MarshalWithParams(v.Interface(), tag)
		}()
		if der == nil || len(der) > 500 {
			return
		}
		sch := s.String()
		g.Emitf("c20 u %s p=%s %s", sch, tag, zv.Hex(der))
		for i := 0; i < 3; i++ {
			var m []byte
			if r.Chance(65) {
				m = permMutate(r, der)
				if r.Chance(25) {
					m = permMutate(r, m)
				}
			} else {
				m, _ = c18.Mutate(r, der)
			}
			g.Emitf("c20 u %s p=%s %s", sch, tag, zv.Hex(m))
		}
	}
	for _, k := range []string{"i64", "i32", "enum", "big", "bool", "oid", "bits", "oct", "str", "raw", "flag"} {
		for _, tag := range []string{"", "tag:0", "explicit,tag:1", "optional,tag:2", "ia5", "printable", "numeric", "utf8", "utf8,tag:0", "ia5,tag:0", "numeric,tag:0", "printable,explicit,tag:0"} {
			for i := 0; i < g.N(4, 20); i++ {
				emit(&c18.Sch{Kind: k}, tag, false)
			}
		}
	}
	n := g.N(6000, 250000)
	for i := 0; i < n; i++ {
		s := c18.GenSch(r, 1+r.Intn(3), r.Chance(15), false)
		emit(s, c18.GenTopTag(r, s, false), r.Chance(10))
	}
}
