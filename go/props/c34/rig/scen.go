package rig

// Scaffolding shared by the key-update and deadline scenarios (ku.go, dl.go): worker bookkeeping, fail-fast
// reporting, the final Close + deadlock watchdog, and the exact-stream oracle of a scenario in which every
// goroutine uses the API in the documented way (no early Close).

import (
	"fmt"
	"io"
	"net"
	"os"
	"strings"
	"sync"
	"sync/atomic"
	"time"

	"github.com/zmap/zcrypto/tls"
)

// pairWrapped is pair() with a transport wrapper between the TCP socket and the tls.Conn of each end.
func pairWrapped(ver int, wrap func(si int, c net.Conn) net.Conn) (cli, srv *tls.Conn, err error) {
	ccfg, scfg := configs(ver)
	return pairCfg(ccfg, scfg, wrap)
}

// pairCfg: a loopback TCP pair under a client and a server Conn with the given configurations.
func pairCfg(ccfg, scfg *tls.Config, wrap func(si int, c net.Conn) net.Conn) (cli, srv *tls.Conn, err error) {
	ln, err := net.Listen("tcp", "127.0.0.1:0")
	if err != nil {
		return nil, nil, err
	}
	defer ln.Close()
	type acc struct {
		c   net.Conn
		err error
	}
	ch := make(chan acc, 1)
	go func() {
		c, err := ln.Accept()
		ch <- acc{c, err}
	}()
	cc, err := net.DialTimeout("tcp", ln.Addr().String(), 10*time.Minute)
	if err != nil {
		return nil, nil, err
	}
	a := <-ch
	if a.err != nil {
		cc.Close()
		return nil, nil, a.err
	}
	return tls.Client(wrap(0, cc), ccfg), tls.Server(wrap(1, a.c), scfg), nil
}

type scen struct {
	r       *rng
	sides   []*side
	wg      sync.WaitGroup
	wmu     sync.Mutex
	workers []*worker
	violMu  sync.Mutex
	viol    string
	violPri int
	failed  chan struct{} // closed by the first report
	fonce   sync.Once
	stop    chan struct{} // closed when the final shutdown starts
	t0      time.Time
	cutc    chan struct{} // closed by cut(): proceed to the final shutdown now
	cutOnce sync.Once
}

// cut ends a scenario that is not expected to end by itself (see finishOpts, mustEnd == false).
func (sc *scen) cut() { sc.cutOnce.Do(func() { close(sc.cutc) }) }

func newScen(r *rng, cli, srv *tls.Conn) *scen {
	mk := func(name string, c *tls.Conn) *side {
		return &side{name: name, conn: c, acked: map[byte]uint32{}, started: map[byte]uint32{}, rejected: map[byte]bool{}}
	}
	return &scen{r: r, sides: []*side{mk("client", cli), mk("server", srv)}, failed: make(chan struct{}), stop: make(chan struct{}), cutc: make(chan struct{}), t0: time.Now()}
}

func (sc *scen) spawn(name string, f func(w *worker)) {
	w := &worker{name: name}
	w.op.Store("start")
	sc.wmu.Lock()
	sc.workers = append(sc.workers, w)
	sc.wmu.Unlock()
	sc.wg.Add(1)
	go func() {
		defer sc.wg.Done()
		defer bump()
		defer w.done.Store(true)
		f(w)
	}()
}

// report records a violation; the first one is kept, except that a root cause (reportRoot: the reader of a stream
// failed) replaces a consequence reported a moment earlier (a Write that failed because the connection had died).
func (sc *scen) report(s string) { sc.reportPri(1, s) }

func (sc *scen) reportRoot(s string) { sc.reportPri(0, s) }

// reportReader: the reader of a stream ended with err. A local failure is the root cause; a remote alert or an error
// after the final Close has begun is a consequence of something else.
func (sc *scen) reportReader(err error, s string) {
	pri := 0
	select {
	case <-sc.stop:
		pri = 2
	default:
		if strings.Contains(err.Error(), "remote error") {
			pri = 1
		}
	}
	sc.reportPri(pri, s)
}

func (sc *scen) reportPri(pri int, s string) {
	// every report in order of occurrence (the runner's stderr is kept in the failure message of the harness)
	fmt.Fprintf(os.Stderr, "REPORT +%dms pri=%d %s\n", time.Since(sc.t0).Milliseconds(), pri, s)
	sc.violMu.Lock()
	if sc.viol == "" || pri < sc.violPri {
		sc.viol, sc.violPri = s, pri
	}
	sc.violMu.Unlock()
	sc.fonce.Do(func() { close(sc.failed) })
}

// runningNow: the calls that have not returned (safe while workers are still being spawned).
func (sc *scen) runningNow() string {
	sc.wmu.Lock()
	ws := append([]*worker(nil), sc.workers...)
	sc.wmu.Unlock()
	return running(ws)
}

func (sc *scen) violation() string {
	sc.violMu.Lock()
	defer sc.violMu.Unlock()
	return sc.viol
}

func (sc *scen) isFailed() bool {
	select {
	case <-sc.failed:
		return true
	default:
		return false
	}
}

func (sc *scen) over() bool {
	select {
	case <-sc.failed:
		return true
	case <-sc.stop:
		return true
	default:
		return false
	}
}

// sleep pauses for d unless the scenario is over; false = over.
func (sc *scen) sleep(d time.Duration) bool {
	if d <= 0 {
		return !sc.over()
	}
	t := time.NewTimer(d)
	defer t.Stop()
	select {
	case <-sc.failed:
		return false
	case <-sc.stop:
		return false
	case <-t.C:
		return true
	}
}

// finish waits for the natural end of the scenario (all workers returned), a failure or `natural`, then calls
// Close on both ends and checks that everything has returned `grace` later. false = watchdog fired.
func (sc *scen) finish(natural, grace time.Duration) bool {
	return sc.finishOpts(natural, grace, true)
}

// finishOpts: with mustEnd == false the scenario is one that is cut short by the final Close (Close, expired
// deadlines or a failed renegotiation have struck): reaching `natural` is then not a finding.
func (sc *scen) finishOpts(natural, grace time.Duration, mustEnd bool) bool {
	allDone := make(chan struct{})
	go func() { sc.wg.Wait(); close(allDone) }()
	ended := make(chan struct{}) // ends the load timers
	defer close(ended)
	// mustEnd: a verdict, in load-corrected time and only while nothing makes progress (load.go);
	// otherwise pacing in real time
	var limit <-chan struct{}
	var pace <-chan time.Time
	if mustEnd {
		limit = LoadTimer(natural, 10*time.Second, ended)
	} else {
		pace = time.After(natural)
	}
	select {
	case <-allDone:
	case <-sc.failed:
		time.Sleep(20 * time.Millisecond) // let the root cause be reported as well (see report)
	case <-sc.cutc:
	case <-pace:
	case <-limit:
		sc.report(fmt.Sprintf("graceful scenario did not reach EOF on both sides within %v (load-corrected, load factor %.1f): %s", natural, LoadFactor(), sc.runningNow()))
	}
	close(sc.stop)
	var closers sync.WaitGroup
	for _, s := range sc.sides {
		s := s
		closers.Add(1)
		w := &worker{name: s.name + "/final-close"}
		w.op.Store("Close")
		sc.wmu.Lock()
		sc.workers = append(sc.workers, w)
		sc.wmu.Unlock()
		go func() {
			defer closers.Done()
			s.conn.Close()
			s.closeReturned.Store(true)
			w.done.Store(true)
			bump()
		}()
	}
	finished := make(chan struct{})
	go func() { closers.Wait(); <-allDone; close(finished) }()
	select {
	case <-finished:
		return true
	case <-LoadTimer(grace, 10*time.Second, ended):
		sc.report(fmt.Sprintf("deadlock: %v (load-corrected, load factor %.1f) after Close() was called on both ends these calls had still not returned: %s", grace, LoadFactor(), sc.runningNow()))
		for _, s := range sc.sides {
			s.conn.NetConn().Close()
		}
		return false
	}
}

// checkExactStreams: each direction delivered exactly the chunks whose Write returned nil, in order per writer,
// uncorrupted, followed by a clean EOF.
func (sc *scen) checkExactStreams(st *Stats) {
	for si, s := range sc.sides {
		peer := sc.sides[1-si]
		counts, partial, bad := parseStream(s.stream)
		dir := peer.name + "->" + s.name
		if bad != "" {
			sc.report(dir + ": " + bad)
			continue
		}
		peer.mu.Lock()
		for id, started := range peer.started {
			got, acked := counts[id], peer.acked[id]
			st.Writes += int(started)
			if got > started {
				sc.report(fmt.Sprintf("%s: writer %d: %d chunks received but only %d written", dir, id, got, started))
			}
			if got != acked {
				sc.report(fmt.Sprintf("%s: writer %d: %d chunks received, %d Writes returned nil (byte stream lost after %d bytes; reader ended with: %v)", dir, id, got, acked, len(s.stream), s.readErr))
			}
		}
		for id := range counts {
			if _, ok := peer.started[id]; !ok {
				sc.report(fmt.Sprintf("%s: chunk of unknown writer %d received", dir, id))
			}
		}
		peer.mu.Unlock()
		st.Bytes += len(s.stream)
		if partial {
			sc.report(dir + ": stream ends in a truncated chunk although every Write returned nil")
		}
		if s.readErr != io.EOF {
			sc.report(fmt.Sprintf("%s: reader ended with %v after %d bytes, want io.EOF after the peer's CloseWrite", dir, s.readErr, len(s.stream)))
		}
	}
}

// chunkCounter counts complete chunks in a byte stream fed piecewise (flow control of the key-update scenarios).
type chunkCounter struct {
	hdr    [8]byte
	have   int // header bytes collected
	body   int // body bytes still to come
	inBody bool
	chunks atomic.Int64
	bytes  atomic.Int64
}

func (c *chunkCounter) feed(b []byte) {
	c.bytes.Add(int64(len(b)))
	for len(b) > 0 {
		if !c.inBody {
			n := copy(c.hdr[c.have:], b)
			c.have += n
			b = b[n:]
			if c.have < 8 {
				return
			}
			c.have, c.inBody = 0, true
			c.body = int(c.hdr[6])<<8 | int(c.hdr[7])
		}
		n := c.body
		if n > len(b) {
			n = len(b)
		}
		c.body -= n
		b = b[n:]
		if c.body == 0 {
			c.inBody = false
			c.chunks.Add(1)
		}
	}
}
