package rig

// Deadline choreography: a goroutine sits in Read while a second goroutine interrupts it with SetReadDeadline /
// SetDeadline (in the past, now, or a few hundred microseconds ahead) and then clears the deadline again. The
// transport under the tls.Conn delivers the peer's records in pieces and can hold a record back at a chosen split
// point (inside the header, right after the header, inside the body, before the last byte, at the record boundary),
// so that the deadline provably fires while the Read is blocked THERE. A read timeout is documented as temporary:
// once the deadline has been cleared, Read must carry on and deliver the peer's byte stream intact.
//
// Oracles: (1) a Read during which no deadline was set at any moment must not return a timeout (stale timeout =
// the stream is lost); (2) each direction delivers exactly the chunks written, then a clean EOF; (3) watchdog.

import (
	"fmt"
	"io"
	"net"
	"sync"
	"sync/atomic"
	"time"

	"github.com/zmap/zcrypto/tls"

	"zv/internal/tlsrig"
)

// split point classes of a gate
const (
	gBoundary = iota // offset 0: nothing of the record has arrived
	gHeader          // 1..4: inside the record header
	gAfterHdr        // 5: header complete, no body byte
	gBody            // inside the body
	gLastByte        // everything but the last byte
	gClasses
)

var gateNames = [gClasses]string{"record-boundary", "inside-header", "after-header", "inside-body", "before-last-byte"}

type gateEvent struct {
	serial int // record number
	off    int // offset inside the record at which the Read is blocked
	reclen int // 0 while the header is incomplete
	class  int
}

// pieceConn delivers the read side of a net.Conn in pieces that never span a record header/body border, and may
// block a Read at a planned offset of a record ("gate") until the choreographer opens it, the read deadline expires
// or the connection is closed. Transport reads of a tls.Conn are serialised by its input mutex, so the record
// tracking fields are only guarded against the choreographer.
type pieceConn struct {
	net.Conn
	r     *rng
	armed atomic.Bool   // gates are planned only once both handshakes are complete
	wake  chan struct{} // capacity 1: "a Read has just blocked at a gate" (state is in waiting/waitEv)

	mu       sync.Mutex
	cond     *sync.Cond
	rdl      time.Time // read deadline as set through this wrapper
	timer    *time.Timer
	closed   bool
	opened   int // serial of the record whose gate has been opened (-1: none)
	waiting  bool
	waitEv   gateEvent
	wrapErr  bool
	gatePct  int
	pieceCap int // 0: no additional cap on a piece

	// record tracking (reader side)
	serial                int
	hdr                   [5]byte
	pos                   int // bytes of the current record handed out
	reclen                int // 5 + body length once the header is complete
	gate                  int // class of the gate planned for this record, -1 none
	gateOff               int // resolved offset, -1 not yet known (needs the record length)
	gateDone              bool
	planned               bool
	nextGate, nextGateOff int // gate drawn for the record after the current one

	Spans      atomic.Int64 // pieces that reached into the next record's header
	AlertGates atomic.Int64 // gates put on a record recognised as an alert after such a piece
	Gates      [gClasses]atomic.Int64
	TimedOut   [gClasses]atomic.Int64 // transport timeouts returned while blocked at a gate of that class
}

func newPieceConn(c net.Conn, r *rng) *pieceConn {
	p := &pieceConn{Conn: c, r: r, wake: make(chan struct{}, 1), opened: -1, gate: -1, gateOff: -1, nextGate: -1, nextGateOff: -1}
	p.cond = sync.NewCond(&p.mu)
	p.wrapErr = r.n(2) == 0
	p.gatePct = []int{15, 35, 60}[r.n(3)]
	p.pieceCap = []int{0, 0, 1 + r.n(16), 1 + r.n(700), 1 + r.n(3000)}[r.n(5)]
	return p
}

// planGate draws the gate of a record that has not started yet: class, and the offset if it does not depend on the
// record length.
func (p *pieceConn) planGate() (class, off int) {
	if !p.armed.Load() || p.r.n(100) >= p.gatePct {
		return -1, -1
	}
	class = p.r.n(gClasses)
	switch class {
	case gBoundary:
		return class, 0
	case gHeader:
		return class, 1 + p.r.n(4)
	case gAfterHdr:
		return class, 5
	}
	return class, -1
}

func (p *pieceConn) expiredLocked() bool {
	return !p.rdl.IsZero() && !time.Now().Before(p.rdl)
}

// feed advances the record tracking over the bytes just handed out.
func (p *pieceConn) feed(b []byte) {
	crossed := false
	for len(b) > 0 {
		if p.reclen == 0 {
			n := copy(p.hdr[p.pos:], b)
			p.pos += n
			b = b[n:]
			if crossed && p.hdr[0] == 21 && p.gate < 0 && p.armed.Load() && p.r.n(4) != 0 {
				// the piece reached into a record that shows the alert type (TLS 1.2 close_notify): Read looks
				// ahead for exactly that after delivering data, so hold this record back more often than others
				p.AlertGates.Add(1)
				switch k := p.r.n(4); {
				case k == 0 && p.pos < 5:
					p.gate, p.gateOff = gHeader, p.pos+p.r.n(5-p.pos)
				case k == 1:
					p.gate, p.gateOff = gBody, -1
				case k == 2:
					p.gate, p.gateOff = gLastByte, -1
				default:
					p.gate, p.gateOff = gAfterHdr, 5
				}
			}
			if p.pos < 5 {
				return
			}
			body := int(p.hdr[3])<<8 | int(p.hdr[4])
			p.reclen = 5 + body
			if p.gate >= 0 && p.gateOff < 0 {
				switch {
				case body < 2:
					p.gateOff = 5
				case p.gate == gBody:
					p.gateOff = 5 + 1 + p.r.n(body-1)
				default:
					p.gateOff = p.reclen - 1
				}
			}
		}
		n := p.reclen - p.pos
		if n > len(b) {
			n = len(b)
		}
		p.pos += n
		b = b[n:]
		if p.pos >= p.reclen {
			p.serial++
			p.pos, p.reclen, p.gateDone = 0, 0, false
			p.gate, p.gateOff = p.nextGate, p.nextGateOff
			p.nextGate, p.nextGateOff = p.planGate()
			crossed = true
		}
	}
	if crossed && p.pos > 0 {
		p.Spans.Add(1)
	}
}

func (p *pieceConn) Read(b []byte) (int, error) {
	if len(b) == 0 {
		return p.Conn.Read(b)
	}
	if !p.planned {
		// gates are drawn one record ahead (a piece may reach into the header of the next record)
		p.planned = p.armed.Load()
		if p.pos == 0 && p.reclen == 0 {
			p.gate, p.gateOff = p.planGate()
		}
		p.nextGate, p.nextGateOff = p.planGate()
	}
	// gate
	if p.gate >= 0 && !p.gateDone && p.gateOff == p.pos {
		ev := gateEvent{serial: p.serial, off: p.pos, reclen: p.reclen, class: p.gate}
		p.mu.Lock()
		if p.opened != p.serial && !p.closed {
			p.waiting, p.waitEv = true, ev
			select {
			case p.wake <- struct{}{}:
			default:
			}
			for p.opened != p.serial && !p.closed && !p.expiredLocked() {
				p.cond.Wait()
			}
			p.waiting = false
		}
		switch {
		case p.closed || p.opened == p.serial:
			p.gateDone = true
			if p.opened == p.serial {
				p.Gates[p.gate].Add(1)
			}
		default: // the deadline fired while the Read was blocked at the split point
			p.mu.Unlock()
			p.TimedOut[p.gate].Add(1)
			return 0, tlsrig.TimeoutErr(p.wrapErr)
		}
		p.mu.Unlock()
	}
	// piece: inside the header up to its end; otherwise up to the gate, or up to the end of the record plus, now and
	// then, the first bytes of the next record's header (never beyond a gate planned there)
	limit := 5 - p.pos
	if p.reclen > 0 {
		limit = p.reclen - p.pos
		if p.gate >= 0 && !p.gateDone && p.gateOff > p.pos {
			limit = p.gateOff - p.pos
		} else if p.r.n(2) == 0 {
			maxExt := 5
			if p.nextGate >= 0 && p.nextGateOff >= 0 && p.nextGateOff < 5 {
				maxExt = p.nextGateOff
			}
			if maxExt > 0 {
				limit += 1 + p.r.n(maxExt)
			}
		}
	} else if p.gate >= 0 && !p.gateDone && p.gateOff > p.pos && p.gateOff-p.pos < limit {
		limit = p.gateOff - p.pos
	}
	if p.pieceCap > 0 {
		if c := 1 + p.r.n(p.pieceCap); c < limit {
			limit = c
		}
	}
	if limit < len(b) {
		b = b[:limit]
	}
	if p.reclen > 0 && len(b) > p.reclen-p.pos && p.armed.Load() && p.r.n(2) == 0 {
		// the piece may reach into the next record: give that record a moment to arrive, so that it really does
		time.Sleep(time.Duration(100+p.r.n(700)) * time.Microsecond)
	}
	n, err := p.Conn.Read(b)
	p.feed(b[:n])
	return n, err
}

// blocked reports the gate at which a Read is blocked right now, if any.
func (p *pieceConn) blocked() (gateEvent, bool) {
	p.mu.Lock()
	defer p.mu.Unlock()
	return p.waitEv, p.waiting && p.opened != p.waitEv.serial
}

func (p *pieceConn) open(serial int) {
	p.mu.Lock()
	p.opened = serial
	p.cond.Broadcast()
	p.mu.Unlock()
}

func (p *pieceConn) setRDL(t time.Time) {
	p.mu.Lock()
	p.rdl = t
	if p.timer != nil {
		p.timer.Stop()
		p.timer = nil
	}
	if !t.IsZero() {
		d := time.Until(t)
		if d < 0 {
			d = 0
		}
		p.timer = time.AfterFunc(d, func() { p.mu.Lock(); p.cond.Broadcast(); p.mu.Unlock() })
	}
	p.cond.Broadcast()
	p.mu.Unlock()
}

func (p *pieceConn) SetReadDeadline(t time.Time) error { p.setRDL(t); return p.Conn.SetReadDeadline(t) }
func (p *pieceConn) SetDeadline(t time.Time) error     { p.setRDL(t); return p.Conn.SetDeadline(t) }
func (p *pieceConn) Close() error {
	p.mu.Lock()
	p.closed = true
	p.cond.Broadcast()
	p.mu.Unlock()
	return p.Conn.Close()
}

type dlSide struct {
	*side
	tr         *pieceConn
	epoch      atomic.Uint64 // odd while a deadline set by the choreographer may be in force
	timeouts   atomic.Int64  // timeouts seen by the reader
	keyUpdates atomic.Int64
	quiet      bool // no writers on this end: SetDeadline (read AND write) may be used
	rdDone     chan struct{}
	chDone     chan struct{} // the choreographer has returned (and cleared its last deadline)
	gate       atomic.Value  // string: the last gate
}

// RunDeadlineScenario runs one deadline-choreography scenario; returns a violation description ("" = none).
func RunDeadlineScenario(seed uint64, ver int, grace time.Duration) (viol string, st Stats) {
	r := &rng{s: seed*0x9e3779b97f4a7c15 + uint64(ver) + 0x444c}
	st.Ver, st.Mode = fmt.Sprint(ver), "deadline"
	var trs [2]*pieceConn
	cli, srv, err := pairWrapped(ver, func(si int, c net.Conn) net.Conn {
		trs[si] = newPieceConn(c, r.fork())
		return trs[si]
	})
	if err != nil {
		return "rig: cannot create loopback pair: " + err.Error(), st
	}
	sc := newScen(r, cli, srv)
	ds := []*dlSide{{side: sc.sides[0], tr: trs[0], rdDone: make(chan struct{}), chDone: make(chan struct{})},
		{side: sc.sides[1], tr: trs[1], rdDone: make(chan struct{}), chDone: make(chan struct{})}}
	if q := r.n(3); q < 2 {
		ds[q].quiet = true
	}
	far := farAway // the rig sets no deadline of its own (load.go)
	hsDone := make(chan struct{})
	var hsLeft atomic.Int32
	hsLeft.Store(2)

	for si := range ds {
		s, peer := ds[si], ds[1-si]
		s.conn.SetDeadline(far())
		nh := 1 + r.n(2)
		for i := 0; i < nh; i++ {
			i, rr := i, r.fork()
			sc.spawn(fmt.Sprintf("%s/handshake%d", s.name, i), func(w *worker) {
				rr.pause()
				w.op.Store("Handshake")
				err := s.conn.Handshake()
				if i == 0 {
					if err != nil {
						sc.report(fmt.Sprintf("%s: Handshake failed: %v", s.name, err))
					}
					if hsLeft.Add(-1) == 0 {
						// from now on records may be held back at split points
						trs[0].armed.Store(true)
						trs[1].armed.Store(true)
						close(hsDone)
					}
				}
			})
		}
		// writers (none on a quiet end)
		nw := 1 + r.n(3)
		if s.quiet {
			nw = 0
		}
		var writersWG sync.WaitGroup
		for i := 0; i < nw; i++ {
			i, id, rr := i, byte(si*16+i), r.fork()
			nchunks := 4 + rr.n(40)
			writersWG.Add(1)
			sc.spawn(fmt.Sprintf("%s/writer%d", s.name, i), func(w *worker) {
				defer writersWG.Done()
				var acked, started uint32
				defer func() {
					s.mu.Lock()
					s.acked[id], s.started[id] = acked, started
					s.mu.Unlock()
				}()
				for seq := uint32(0); seq < uint32(nchunks); seq++ {
					if sc.over() {
						return
					}
					rr.pause()
					n := 1 + rr.n(900)
					switch rr.n(12) {
					case 0:
						n = 0
					case 1:
						n = 16000 + rr.n(20000)
					case 2:
						n = 1
					}
					chunk := mkChunk(id, seq, n)
					started++
					w.op.Store("Write")
					_, err := s.conn.Write(chunk)
					w.op.Store("between writes")
					if err != nil {
						sc.report(fmt.Sprintf("%s writer %d: Write #%d failed although only READ deadlines are used on this end: %v", s.name, i, seq, err))
						return
					}
					acked++
					s.sent.Add(int64(len(chunk)))
				}
			})
		}
		// TLS 1.3, now and then: this end also initiates a few key updates, so that deadlines strike while a KeyUpdate
		// record is half delivered and while the reader of the peer answers one. (Not on / towards a quiet end: its
		// SetDeadline would make the write of the reply time out, which is documented to be permanent.)
		if ver == 13 && !s.quiet && r.n(2) == 0 {
			id, rr := byte(si*16+8), r.fork()
			rounds := 2 + rr.n(5)
			reqOK := !peer.quiet
			writersWG.Add(1)
			sc.spawn(s.name+"/keyupdate", func(w *worker) {
				defer writersWG.Done()
				var acked, started uint32
				defer func() {
					s.mu.Lock()
					s.acked[id], s.started[id] = acked, started
					s.mu.Unlock()
				}()
				select {
				case <-hsDone:
				case <-sc.failed:
					return
				case <-sc.stop:
					return
				}
				for k := 0; k < rounds; k++ {
					if !sc.sleep(time.Duration(rr.n(3000)) * time.Microsecond) {
						return
					}
					req := reqOK && rr.n(2) == 0
					w.op.Store(fmt.Sprintf("KeyUpdate(requested=%v)", req))
					if err := tls.ZVC34SendKeyUpdate(s.conn, req); err != nil {
						sc.report(fmt.Sprintf("%s: sending KeyUpdate #%d failed: %v", s.name, k, err))
						return
					}
					s.keyUpdates.Add(1)
					chunk := mkChunk(id, started, rr.n(200))
					started++
					w.op.Store("Write")
					if _, err := s.conn.Write(chunk); err != nil {
						sc.report(fmt.Sprintf("%s: Write after own KeyUpdate #%d failed: %v", s.name, k, err))
						return
					}
					acked++
					s.sent.Add(int64(len(chunk)))
				}
			})
		}
		// the reader: a timeout is temporary, it simply reads on
		rrd := r.fork()
		sc.spawn(s.name+"/reader", func(w *worker) {
			defer close(s.rdDone)
			buf := make([]byte, 1+rrd.n(20000))
			for {
				if rrd.n(4) == 0 {
					rrd.pause()
				}
				e1 := s.epoch.Load()
				w.op.Store("Read")
				n, err := s.conn.Read(buf[:1+rrd.n(len(buf))])
				w.op.Store("between reads")
				e2 := s.epoch.Load()
				s.stream = append(s.stream, buf[:n]...)
				s.rcvd.Add(int64(n))
				if err == nil {
					continue
				}
				if tlsrig.IsTimeout(err) {
					s.timeouts.Add(1)
					if e1 == e2 && e1%2 == 0 {
						s.readErr = err
						sc.report(fmt.Sprintf("%s->%s: Read returned a timeout (%v) although no deadline was in force at any moment of the call: "+
							"an earlier, cleared read deadline has become permanent and the byte stream is lost after %d bytes (%d deadline rounds so far; last gate: %s)",
							peer.name, s.name, err, len(s.stream), e1/2, s.lastGate()))
						return
					}
					if sc.over() {
						s.readErr = err
						return
					}
					time.Sleep(time.Duration(20+rrd.n(100)) * time.Microsecond)
					continue
				}
				s.readErr = err
				if err != io.EOF {
					sc.reportReader(err, fmt.Sprintf("%s->%s: the byte stream is lost after %d bytes: Read failed with %q (%d timeouts seen before; last gate: %s)",
						peer.name, s.name, len(s.stream), err.Error(), s.timeouts.Load(), s.lastGate()))
				}
				return
			}
		})
		// the choreographer: the second goroutine
		rrc := r.fork()
		sc.spawn(s.name+"/deadlines", func(w *worker) {
			defer close(s.chDone)
			select {
			case <-hsDone:
			case <-sc.failed:
				return
			case <-sc.stop:
				return
			}
			setClear := func(kind int) {
				// clear: no deadline, or one far in the future
				switch kind {
				case 0:
					s.conn.SetReadDeadline(time.Time{})
				case 1:
					s.conn.SetReadDeadline(far())
				default:
					if s.quiet {
						s.conn.SetDeadline(time.Time{})
					} else {
						s.conn.SetReadDeadline(time.Time{})
					}
				}
			}
			strike := func() (usedSetDeadline bool) {
				var t time.Time
				switch rrc.n(4) {
				case 0:
					t = time.Now().Add(-time.Second)
				case 1:
					t = time.Now()
				case 2:
					t = time.Now().Add(time.Duration(rrc.n(300)) * time.Microsecond)
				default:
					t = time.Now().Add(time.Duration(rrc.n(3000)) * time.Microsecond)
				}
				if s.quiet && rrc.n(2) == 0 {
					w.op.Store("SetDeadline(expiring)")
					s.conn.SetDeadline(t)
					return true
				}
				w.op.Store("SetReadDeadline(expiring)")
				s.conn.SetReadDeadline(t)
				return false
			}
			// one round: deadline strikes, the reader sees the timeout (bounded wait), the deadline is cleared
			round := func() {
				t0 := s.timeouts.Load()
				s.epoch.Add(1) // odd: in force
				used := strike()
				w.op.Store("waiting for the reader to see the timeout")
				for k := 0; k < 400 && s.timeouts.Load() == t0; k++ {
					select {
					case <-s.rdDone:
						k = 400
					default:
						time.Sleep(50 * time.Microsecond)
					}
				}
				if rrc.n(3) == 0 {
					time.Sleep(time.Duration(rrc.n(500)) * time.Microsecond) // let the reader spin on the expired deadline
				}
				w.op.Store("clearing the deadline")
				if used {
					setClear(2)
				} else {
					setClear(rrc.n(2))
				}
				s.epoch.Add(1) // even: cleared
			}
			for {
				var idle <-chan time.Time
				if rrc.n(3) == 0 {
					idle = time.After(time.Duration(rrc.n(4000)) * time.Microsecond)
				}
				w.op.Store("waiting for a gate")
				select {
				case <-s.rdDone:
					return
				case <-sc.failed:
					return
				case <-sc.stop:
					return
				case <-idle:
					// a deadline out of the blue: wherever the Read happens to be (mostly waiting at a record
					// boundary, but with small pieces also in the middle of a record)
					round()
				case <-s.tr.wake:
					ev, ok := s.tr.blocked()
					if !ok {
						continue
					}
					s.gate.Store(fmt.Sprintf("record %d held at offset %d (%s), record length %d", ev.serial, ev.off, gateNames[ev.class], ev.reclen))
					if rrc.n(3) != 0 {
						time.Sleep(time.Duration(rrc.n(600)) * time.Microsecond) // let the Read block at the split point
					}
					switch rrc.n(8) {
					case 0:
						// control: a slow piece, no deadline
					case 1:
						// the rest arrives first, the deadline strikes a moment later
						s.tr.open(ev.serial)
						round()
					default:
						for k := 1 + rrc.n(2); k > 0; k-- {
							round()
						}
					}
					s.tr.open(ev.serial)
				}
			}
		})
		// half-close: after the own writers; a quiet end after it has received the peer's EOF (it uses SetDeadline,
		// which would also hit the close_notify)
		for i := 0; i < 2; i++ {
			sc.spawn(fmt.Sprintf("%s/closewrite%d", s.name, i), func(w *worker) {
				w.op.Store("waiting for writers")
				writersWG.Wait()
				select {
				case <-hsDone:
				case <-sc.failed:
				case <-sc.stop:
				}
				if s.quiet {
					select {
					case <-s.rdDone:
					case <-sc.failed:
					case <-sc.stop:
					}
					select {
					case <-s.chDone:
					case <-sc.failed:
					case <-sc.stop:
					}
				}
				// let the peer drain first (the library gives close_notify 5 s of real time to get out)
				w.op.Store("waiting for the peer to drain")
				for peer.rcvd.Load() < s.sent.Load() {
					select {
					case <-peer.rdDone:
					default:
						if sc.sleep(200 * time.Microsecond) {
							continue
						}
					}
					break
				}
				w.op.Store("CloseWrite")
				if err := s.conn.CloseWrite(); err != nil && !sc.over() {
					sc.report(fmt.Sprintf("%s: CloseWrite after a completed handshake failed: %v", s.name, err))
				}
			})
		}
	}

	if !sc.finish(90*time.Second, grace) {
		return sc.violation(), st
	}
	st.Workers = len(sc.workers)
	sc.checkExactStreams(&st)
	for _, s := range ds {
		st.Timeouts += int(s.timeouts.Load())
		st.KeyUpdates += int(s.keyUpdates.Load())
		st.Spans += int(s.tr.Spans.Load())
		st.AlertGates += int(s.tr.AlertGates.Load())
		for c := 0; c < gClasses; c++ {
			st.Gates[c] += int(s.tr.Gates[c].Load())
			st.GateTimeouts[c] += int(s.tr.TimedOut[c].Load())
		}
	}
	return sc.violation(), st
}

func (s *dlSide) lastGate() string {
	if v := s.gate.Load(); v != nil {
		return v.(string)
	}
	return "none"
}
