package rig

// Load independence of the rig's own clocks.
//
// Every timer of the rig that can turn into a reported failure (the "did not reach EOF" limit of a scenario, the
// watchdog after the final Close, the stall rule of the renegotiation scenarios, the limits of the sequential
// sequences and of the runner processes) counts LOAD-CORRECTED time: real time divided by the current load factor of
// the machine as seen by this process, and — where a scenario can make progress — it only expires when additionally no
// goroutine of the scenario has made progress for a (load-corrected) while.
//
//   - load factor: a goroutine locked to its OS thread burns a fixed amount of THREAD CPU time (25 ms) every 500 ms and
//     measures how much wall time that took; wall/cpu is how much slower than on an idle machine CPU-bound work of this
//     process currently runs (1.0 idle; ~N/cores with N busy processes; also covers CPU quotas and a GOMAXPROCS=1
//     process whose own goroutines compete). The factor used is the maximum of the last 8 measurements.
//   - progress: every change of a worker's current operation, every call that returns, every worker that ends.
//
// The rig sets no socket deadlines of its own any more (far() is a day away): a hang is found by the watchdogs above,
// not by an "i/o timeout" of a safety deadline that a starved machine can run into.

import (
	"runtime"
	"sync"
	"sync/atomic"
	"syscall"
	"time"
	"unsafe"
)

// progress counts events of the running scenario (one scenario at a time per process).
var progress atomic.Int64

func bump() { progress.Add(1) }

// opCell holds what a worker is doing right now; storing it counts as progress.
type opCell struct{ v atomic.Value }

func (o *opCell) Store(x any) { o.v.Store(x); progress.Add(1) }
func (o *opCell) Load() any   { return o.v.Load() }

// farAway: "no deadline" for the Set*Deadline calls that only exercise the API.
func farAway() time.Time { return time.Now().Add(24 * time.Hour) }

var (
	loadOnce  sync.Once
	loadMilli atomic.Int64 // load factor * 1000
	loadSink  uint64
)

const clockThreadCPUTimeID = 3 // CLOCK_THREAD_CPUTIME_ID (Linux)

func threadCPU() (time.Duration, bool) {
	var ts syscall.Timespec
	if _, _, e := syscall.Syscall(syscall.SYS_CLOCK_GETTIME, clockThreadCPUTimeID, uintptr(unsafe.Pointer(&ts)), 0); e != 0 {
		return 0, false
	}
	return time.Duration(ts.Nano()), true
}

// measureLoad: wall time / thread CPU time of a CPU-bound burst.
func measureLoad(burst time.Duration) float64 {
	runtime.LockOSThread()
	defer runtime.UnlockOSThread()
	c0, ok := threadCPU()
	if !ok {
		return 1
	}
	w0 := time.Now()
	x := uint64(w0.UnixNano()) | 1
	cpu := time.Duration(0)
	for cpu < burst {
		for i := 0; i < 20000; i++ {
			x = x*6364136223846793005 + 1442695040888963407
		}
		c, ok := threadCPU()
		if !ok {
			return 1
		}
		cpu = c - c0
	}
	atomic.StoreUint64(&loadSink, x)
	wall := time.Since(w0)
	if wall < cpu {
		return 1
	}
	return float64(wall) / float64(cpu)
}

// StartLoadMeter starts the background measurement (idempotent); the first measurement is taken synchronously.
func StartLoadMeter() {
	loadOnce.Do(func() {
		first := measureLoad(25 * time.Millisecond)
		loadMilli.Store(int64(first * 1000))
		go func() {
			ring := [8]float64{first, 1, 1, 1, 1, 1, 1, 1}
			for i := 1; ; i++ {
				time.Sleep(500 * time.Millisecond)
				ring[i%len(ring)] = measureLoad(25 * time.Millisecond)
				m := 1.0
				for _, v := range ring {
					if v > m {
						m = v
					}
				}
				loadMilli.Store(int64(m * 1000))
			}
		}()
	})
}

// LoadFactor: how much slower than on an idle machine this process currently runs (>= 1).
func LoadFactor() float64 {
	StartLoadMeter()
	if v := loadMilli.Load(); v > 1000 {
		return float64(v) / 1000
	}
	return 1
}

// stopwatch accumulates load-corrected time.
type stopwatch struct {
	last time.Time
	acc  time.Duration
}

func newStopwatch() *stopwatch { return &stopwatch{last: time.Now()} }

func (s *stopwatch) elapsed() time.Duration {
	now := time.Now()
	s.acc += time.Duration(float64(now.Sub(s.last)) / LoadFactor())
	s.last = now
	return s.acc
}

func (s *stopwatch) reset() { s.last, s.acc = time.Now(), 0 }

// LoadTimer returns a channel that is closed when `base` of load-corrected time has passed AND (idle == 0 or the
// scenario has made no progress for `idle` of load-corrected time or 8*base has passed). Closing stop ends it early
// (the channel is then never closed).
func LoadTimer(base, idle time.Duration, stop <-chan struct{}) <-chan struct{} {
	StartLoadMeter()
	ch := make(chan struct{})
	go func() {
		total, quiet := newStopwatch(), newStopwatch()
		seen := progress.Load()
		step := 50 * time.Millisecond
		if base < 20*step {
			step = base/20 + time.Millisecond
		}
		t := time.NewTicker(step)
		defer t.Stop()
		for {
			select {
			case <-stop:
				return
			case <-t.C:
			}
			if cur := progress.Load(); cur != seen {
				seen = cur
				quiet.reset()
			}
			el := total.elapsed()
			if el >= base && (idle == 0 || quiet.elapsed() >= idle || el >= 8*base) {
				close(ch)
				return
			}
		}
	}()
	return ch
}
