package rig

// Renegotiation scenarios (TLS 1.0 / 1.1 / 1.2 client with Config.Renegotiation = RenegotiateOnceAsClient,
// RenegotiateFreelyAsClient or, as a control, RenegotiateNever): the peer sends HelloRequest messages at random points
// of the connection (verif hook tls.ZVC34RSendHelloRequest: the server half of zcrypto never does so itself) while the
// client Conn is used from many goroutines: a reader (which runs handleRenegotiation when the HelloRequest arrives),
// writers, and "hammer" goroutines that call Handshake / ConnectionState / Read(nil) / VerifyHostname / Set*Deadline
// in a tight loop for as long as a HelloRequest is in the air, so that some goroutine is inside handshake() — holding
// or about to take handshakeMutex — at the instant the reader starts the renegotiation with the input half locked.
//
// What the peer does with the client's new ClientHello:
//
//	full            a peer that supports secure renegotiation (hook tls.ZVC34RServerRead: Conn.Read for a server that
//	                runs a new server handshake on a ClientHello): the renegotiation completes, the connection goes on.
//	                Oracle: each direction delivers EXACTLY the chunks whose Write returned nil, then a clean EOF; no
//	                Handshake / Read / CloseWrite fails. (A Write that finds the handshake flag cleared returns
//	                alertInternalError without sending anything — behaviour inherited from crypto/tls — and is retried.)
//	                The peer keeps its own application data off the wire while a renegotiation is in progress (a rig
//	                level gate), as every peer of a Go client must. Rig-side flow control keeps the data in flight
//	                below 96 KiB per direction, so that HelloRequest / ClientHello are not queued behind a backlog; a
//	                renegotiation counts as stalled when it is incomplete and for 12 s not a byte has been delivered
//	                in either direction (reported only if it reproduces, like every time-out).
//	refused         the client declines (RenegotiateNever; RenegotiateOnceAsClient after one completed renegotiation):
//	                it sends a no_renegotiation alert and — behaviour inherited from crypto/tls — its connection is dead
//	                from then on ("local error: tls: no renegotiation").
//	alert           zcrypto's own server: answers with a fatal unexpected_message alert; the renegotiation fails.
//	silent-close    the peer ignores everything after its HelloRequest and closes the transport a little later.
//	silent-deadline the peer ignores everything; a client goroutine lets the deadline of the client Conn expire.
//	silent-final    the peer ignores everything; nothing happens until Close is called on both ends.
//	                Oracle of the last five: chunk-consistent prefix streams; and — the point — every call returns once
//	                the peer has closed / the deadline has expired / Close was called (watchdog).
//
// In every mode: ConnectionState must not report HandshakeComplete == false between two successful Handshake calls.

import (
	"fmt"
	"io"
	"net"
	"runtime"
	"sync"
	"sync/atomic"
	"time"

	"github.com/zmap/zcrypto/tls"
)

// renegWindow: application data in flight per direction (bytes handed to Write minus bytes delivered by Read).
const renegWindow = 96 << 10

const (
	rnFull = iota
	rnRefuse
	rnAlert
	rnSilentClose
	rnSilentDeadline
	rnSilentFinal
)

var renegModeNames = []string{"full", "refused", "alert", "silent-close", "silent-deadline", "silent-final"}
var renegPolicyNames = map[tls.RenegotiationSupport]string{tls.RenegotiateNever: "never", tls.RenegotiateOnceAsClient: "once", tls.RenegotiateFreelyAsClient: "freely"}

// RenegVersion: the protocol version (10, 11, 12) of renegotiation scenario id.
func RenegVersion(id uint64) int { return 10 + int((id*0x9e3779b97f4a7c15>>33)%3) }

// muteConn: a transport whose read side can be switched to "swallow everything": the Conn above it then sees a peer
// that has gone silent without closing.
type muteConn struct {
	net.Conn
	muted atomic.Bool
}

func (m *muteConn) Read(p []byte) (int, error) {
	for {
		n, err := m.Conn.Read(p)
		if err != nil || !m.muted.Load() {
			return n, err
		}
	}
}

// RunRenegScenario runs one renegotiation scenario; returns a violation description ("" = none).
func RunRenegScenario(seed uint64, ver int, grace time.Duration) (viol string, st Stats) {
	r := &rng{s: seed*0x9e3779b97f4a7c15 + 0x52454e}
	st.Ver, st.Mode = fmt.Sprint(ver), "reneg"
	policy := []tls.RenegotiationSupport{tls.RenegotiateFreelyAsClient, tls.RenegotiateFreelyAsClient, tls.RenegotiateFreelyAsClient,
		tls.RenegotiateOnceAsClient, tls.RenegotiateOnceAsClient, tls.RenegotiateNever}[r.n(6)]
	mode := []int{rnFull, rnFull, rnFull, rnFull, rnFull, rnAlert, rnSilentClose, rnSilentDeadline, rnSilentFinal}[r.n(9)]
	switch {
	case policy == tls.RenegotiateNever:
		mode = rnRefuse
	case policy == tls.RenegotiateOnceAsClient && r.n(3) == 0:
		mode = rnRefuse // one renegotiation, then a HelloRequest too many
	}
	// full: the connection survives, exact oracle. hooked: the peer completes the renegotiations the client starts.
	full := mode == rnFull
	hooked := mode == rnFull || mode == rnRefuse
	st.RenegMode, st.RenegPolicy = renegModeNames[mode], renegPolicyNames[policy]

	ccfg, scfg := configs(ver)
	ccfg.Renegotiation = policy
	var mute *muteConn
	cli, srv, err := pairCfg(ccfg, scfg, func(si int, c net.Conn) net.Conn {
		if si == 1 {
			mute = &muteConn{Conn: c}
			return mute
		}
		return c
	})
	if err != nil {
		return "rig: cannot create loopback pair: " + err.Error(), st
	}
	sc := newScen(r, cli, srv)
	c, s := sc.sides[0], sc.sides[1]
	far := farAway // the rig sets no deadline of its own (load.go)
	wantVers := uint16(0x0300 + ver - 9)

	var (
		gate       sync.RWMutex // write-locked by the peer while it has a HelloRequest out: no server application data
		hot        atomic.Int32 // > 0: a HelloRequest is in the air, hammers spin
		renegDone  atomic.Int64 // handshakes completed by the peer's reader after the first one
		helloReqs  atomic.Int64
		refusedN   atomic.Int64
		retries    atomic.Int64
		rx         [2]atomic.Int64 // bytes delivered to the reader of client / server
		tx         [2]atomic.Int64 // bytes handed to Write by the writers of client / server
		rdDone     [2]atomic.Bool
		accepted   int // guarded by gate (write side)
		activity   sync.WaitGroup
		injLeft    atomic.Int32
		quiesce    = make(chan struct{}) // closed when all writers and injectors are done
		quiesceOne sync.Once
		cliOK      = make(chan struct{}) // closed when a client Handshake has returned nil
		cliOKOnce  sync.Once
		srvOK      = make(chan struct{})
		srvOKOnce  sync.Once
	)
	waitFor := func(ch chan struct{}) bool {
		select {
		case <-ch:
			return true
		case <-sc.failed:
			return false
		case <-sc.stop:
			return false
		}
	}

	ncw, nsw := 1+r.n(3), 1+r.n(2)
	ninj := 1
	if full && policy == tls.RenegotiateFreelyAsClient && r.n(3) == 0 {
		ninj = 2
	}
	activity.Add(ncw + nsw + ninj)
	injLeft.Store(int32(ninj))

	// ---- both ends: goroutines racing to run the first handshake ----
	for si, sd := range sc.sides {
		sd := sd
		sd.conn.SetDeadline(far())
		ok, once := cliOK, &cliOKOnce
		if si == 1 {
			ok, once = srvOK, &srvOKOnce
		}
		for i, nh := 0, 1+r.n(3); i < nh; i++ {
			rr := r.fork()
			sc.spawn(fmt.Sprintf("%s/handshake%d", sd.name, i), func(w *worker) {
				rr.pause()
				w.op.Store("Handshake")
				if err := sd.conn.Handshake(); err != nil {
					if full {
						sc.report(fmt.Sprintf("%s: Handshake failed: %v", sd.name, err))
					} else {
						sc.cut() // an early Close of the client has struck: no HelloRequest will be sent
					}
					return
				}
				once.Do(func() { close(ok) })
			})
		}
	}

	// ---- writers (client: the end under test; server: gated while a renegotiation is in progress) ----
	writer := func(sd *side, si, i int, gated bool) {
		id, rr := byte(si*16+i), r.fork()
		minChunks := uint32(8 + rr.n(30))
		const maxChunks = 2500
		busy := rr.n(3) != 0
		sc.spawn(fmt.Sprintf("%s/writer%d", sd.name, i), func(w *worker) {
			defer activity.Done()
			var acked, started uint32
			defer func() {
				sd.mu.Lock()
				sd.acked[id], sd.started[id] = acked, started
				sd.mu.Unlock()
			}()
			for seq := uint32(0); seq < maxChunks && (seq < minChunks || injLeft.Load() > 0); seq++ {
				if sc.over() {
					return
				}
				if busy {
					if rr.n(6) == 0 {
						time.Sleep(time.Duration(rr.n(250)) * time.Microsecond)
					}
				} else {
					rr.pause()
				}
				n := 1 + rr.n(300)
				switch rr.n(40) {
				case 0:
					n = 0
				case 1:
					n = 16000 + rr.n(20000)
				case 2:
					n = 1
				}
				chunk := mkChunk(id, seq, n)
				// flow control: the data in flight stays far below the socket buffers, so that a HelloRequest /
				// ClientHello is never queued behind megabytes that a slow (loaded machine) reader has yet to decrypt
				w.op.Store("flow control")
				for hooked && tx[si].Load()-rx[1-si].Load() > renegWindow && !rdDone[1-si].Load() {
					if !sc.sleep(50 * time.Microsecond) {
						return
					}
				}
				tx[si].Add(int64(len(chunk)))
				started++
				for try := 0; ; try++ {
					if gated {
						w.op.Store("waiting for the renegotiation gate")
						gate.RLock()
					}
					w.op.Store("Write")
					nw, err := sd.conn.Write(chunk)
					if gated {
						gate.RUnlock()
					}
					w.op.Store("between writes")
					if err == nil {
						break
					}
					// crypto/tls heritage: a Write that passed Handshake() just before the reader cleared the
					// completion flag gives up with alertInternalError under the output mutex, nothing sent
					if err == tls.AlertInternalError && nw == 0 && !gated && try < 200 && !sc.over() {
						retries.Add(1)
						time.Sleep(time.Duration(50+rr.n(400)) * time.Microsecond)
						continue
					}
					if full {
						sc.report(fmt.Sprintf("%s writer %d: Write #%d failed although every renegotiation was completed by the peer (%d HelloRequests, %d renegotiations so far): %v",
							sd.name, i, seq, helloReqs.Load(), renegDone.Load(), err))
					}
					return
				}
				acked++
			}
		})
	}
	for i := 0; i < ncw; i++ {
		writer(c, 0, i, false)
	}
	for i := 0; i < nsw; i++ {
		writer(s, 1, i, hooked)
	}

	// ---- readers ----
	rrc := r.fork()
	sc.spawn("client/reader", func(w *worker) {
		buf := make([]byte, 512+rrc.n(20000))
		for {
			if rrc.n(12) == 0 {
				rrc.pause()
			}
			w.op.Store("Read")
			n, err := c.conn.Read(buf[:1+rrc.n(len(buf))])
			w.op.Store("between reads")
			c.stream = append(c.stream, buf[:n]...)
			rx[0].Add(int64(n))
			if err != nil {
				rdDone[0].Store(true)
				c.readErr = err
				if full && err != io.EOF {
					sc.reportReader(err, fmt.Sprintf("server->client: the byte stream is lost after %d bytes: Read failed with %q (%d HelloRequests, %d renegotiations completed by the peer, policy %s)",
						len(c.stream), err.Error(), helloReqs.Load(), renegDone.Load(), st.RenegPolicy))
				}
				return
			}
		}
	})
	rrs := r.fork()
	sc.spawn("server/reader", func(w *worker) {
		buf := make([]byte, 512+rrs.n(20000))
		for {
			if rrs.n(12) == 0 {
				rrs.pause()
			}
			w.op.Store("Read")
			var n, k int
			var err error
			if hooked {
				n, k, err = tls.ZVC34RServerRead(s.conn, buf[:1+rrs.n(len(buf))])
			} else {
				n, err = s.conn.Read(buf[:1+rrs.n(len(buf))])
			}
			w.op.Store("between reads")
			s.stream = append(s.stream, buf[:n]...)
			rx[1].Add(int64(n))
			if k > 0 {
				renegDone.Add(int64(k))
			}
			if err != nil {
				rdDone[1].Store(true)
				s.readErr = err
				if full && err != io.EOF {
					sc.reportReader(err, fmt.Sprintf("client->server: the byte stream is lost after %d bytes: the peer's Read failed with %q (%d HelloRequests, %d renegotiations completed, policy %s)",
						len(s.stream), err.Error(), helloReqs.Load(), renegDone.Load(), st.RenegPolicy))
				}
				return
			}
		}
	})

	// ---- client hammers: something is always inside handshake() while a HelloRequest is in the air ----
	for i, nh := 0, 2+r.n(4); i < nh; i++ {
		i, rr := i, r.fork()
		sc.spawn(fmt.Sprintf("client/hammer%d", i), func(w *worker) {
			if !waitFor(cliOK) {
				return
			}
			for {
				select {
				case <-quiesce:
					return
				case <-sc.failed:
					return
				case <-sc.stop:
					return
				default:
				}
				if hot.Load() == 0 {
					w.op.Store("idle")
					time.Sleep(time.Duration(80+rr.n(400)) * time.Microsecond)
				}
				switch rr.n(9) {
				case 0, 1, 2:
					w.op.Store("Handshake")
					if err := c.conn.Handshake(); err != nil && full && !sc.over() {
						sc.report(fmt.Sprintf("client: Handshake() on the established connection failed although every renegotiation was completed by the peer: %v", err))
						return
					}
				case 3, 4:
					w.op.Store("ConnectionState")
					cs := c.conn.ConnectionState()
					if cs.HandshakeComplete {
						if cs.Version != wantVers {
							sc.report(fmt.Sprintf("client: ConnectionState reports version %#x on a TLS %#x connection", cs.Version, wantVers))
							return
						}
						break
					}
					w.op.Store("Handshake (after ConnectionState said incomplete)")
					if err := c.conn.Handshake(); err == nil {
						sc.report("client: ConnectionState reported HandshakeComplete=false between two successful Handshake() calls: the completion flag of the connection was visible as cleared to a caller holding handshakeMutex although no renegotiation has failed")
						return
					}
				case 5:
					w.op.Store("Read(nil)")
					c.conn.Read(nil)
				case 6:
					w.op.Store("VerifyHostname")
					c.conn.VerifyHostname("zv.example")
				case 7:
					w.op.Store("Set*Deadline(far)")
					switch rr.n(3) {
					case 0:
						c.conn.SetDeadline(far())
					case 1:
						c.conn.SetReadDeadline(far())
					default:
						c.conn.SetWriteDeadline(far())
					}
				default:
					runtime.Gosched()
				}
			}
		})
	}

	// ---- the peer's HelloRequests ----
	for i := 0; i < ninj; i++ {
		i, rr := i, r.fork()
		rounds := 1
		switch {
		case full && policy == tls.RenegotiateFreelyAsClient:
			rounds = 1 + rr.n(4)
		case mode == rnRefuse && policy == tls.RenegotiateOnceAsClient:
			rounds = 2
		}
		sc.spawn(fmt.Sprintf("server/hellorequest%d", i), func(w *worker) {
			defer activity.Done()
			defer func() {
				if injLeft.Add(-1) == 0 && !full {
					// the connection is lost or about to be: let things take their course for a moment, then Close
					go func() {
						sc.sleep(time.Duration(10+rr.n(250)) * time.Millisecond)
						sc.cut()
					}()
				}
			}()
			if !waitFor(srvOK) || !waitFor(cliOK) {
				return
			}
			for k := 0; k < rounds; k++ {
				var d time.Duration
				switch rr.n(4) {
				case 0:
				case 1:
					d = time.Duration(rr.n(400)) * time.Microsecond
				default:
					d = time.Duration(rr.n(4000)) * time.Microsecond
				}
				if !hooked {
					d = time.Duration(rr.n(20000)) * time.Microsecond
				}
				if !sc.sleep(d) {
					return
				}
				w.op.Store("waiting for the gate")
				gate.Lock()
				if sc.over() {
					gate.Unlock()
					return
				}
				expect := policy == tls.RenegotiateFreelyAsClient || (policy == tls.RenegotiateOnceAsClient && accepted == 0)
				if !expect && mode != rnRefuse {
					gate.Unlock()
					return
				}
				hot.Add(1)
				time.Sleep(time.Duration(rr.n(500)) * time.Microsecond) // hammers are up to speed
				before := renegDone.Load()
				if mode >= rnSilentClose {
					mute.muted.Store(true)
				}
				w.op.Store("HelloRequest")
				if err := tls.ZVC34RSendHelloRequest(s.conn); err != nil {
					hot.Add(-1)
					gate.Unlock()
					if full {
						sc.report(fmt.Sprintf("server: sending HelloRequest #%d failed: %v", helloReqs.Load(), err))
					}
					return
				}
				helloReqs.Add(1)
				switch {
				case !hooked:
					// the renegotiation is doomed; keep the hammers going for a moment, then let things take their course
					sc.sleep(time.Duration(2+rr.n(6)) * time.Millisecond)
				case expect:
					w.op.Store("waiting for the client's renegotiation to complete")
					// a stall = 12 s of load-corrected time (load.go) without a single byte delivered in either
					// direction (a slow machine makes progress; a client whose reader and writers are stuck does not)
					quiet, seen := newStopwatch(), rx[0].Load()+rx[1].Load()
					for renegDone.Load() == before {
						if sc.over() {
							hot.Add(-1)
							gate.Unlock()
							return
						}
						if cur := rx[0].Load() + rx[1].Load(); cur != seen {
							seen = cur
							quiet.reset()
						}
						if quiet.elapsed() > 12*time.Second {
							// pri -1: what follows (the gate opens, the connection is closed) are consequences
							sc.reportPri(-1, fmt.Sprintf("stalled: the client (Renegotiation=%s, %d renegotiations so far) has not completed the renegotiation asked for by HelloRequest #%d, and for 12 s (load-corrected) not a byte has arrived in either direction, although the peer is reading and answering; calls still running: %s",
								st.RenegPolicy, accepted, helloReqs.Load(), sc.runningNow()))
							hot.Add(-1)
							gate.Unlock()
							return
						}
						time.Sleep(50 * time.Microsecond)
					}
					accepted++
				default:
					// the client declines with a no_renegotiation alert, which ends the connection on its side
					// ("local error: tls: no renegotiation" from then on: behaviour inherited from crypto/tls)
					refusedN.Add(1)
					sc.sleep(time.Duration(1+rr.n(5)) * time.Millisecond)
					if n := renegDone.Load(); n != before {
						sc.report(fmt.Sprintf("client with Renegotiation=%s answered HelloRequest #%d with a handshake (%d renegotiations completed so far) instead of declining it", st.RenegPolicy, helloReqs.Load(), n))
					}
				}
				hot.Add(-1)
				gate.Unlock()
			}
			switch mode {
			case rnSilentClose:
				sc.sleep(time.Duration(1+rr.n(30)) * time.Millisecond)
				w.op.Store("closing the peer's transport")
				s.conn.NetConn().Close()
			case rnSilentDeadline:
				sc.sleep(time.Duration(1+rr.n(30)) * time.Millisecond)
				w.op.Store("client SetDeadline(now)")
				c.conn.SetDeadline(time.Now())
			}
		})
	}

	if full {
		// when all writers and HelloRequests are done: half-close both directions
		for _, sd := range sc.sides {
			sd := sd
			for i := 0; i < 2; i++ {
				sc.spawn(fmt.Sprintf("%s/closewrite%d", sd.name, i), func(w *worker) {
					w.op.Store("waiting for writers and renegotiations")
					activity.Wait()
					quiesceOne.Do(func() { close(quiesce) })
					w.op.Store("CloseWrite")
					if err := sd.conn.CloseWrite(); err != nil && !sc.isFailed() {
						sc.report(fmt.Sprintf("%s: CloseWrite on the established connection failed: %v", sd.name, err))
					}
				})
			}
		}
	} else {
		// doomed renegotiation: Close / CloseWrite of the client may strike as well
		if r.n(3) == 0 {
			rr := r.fork()
			sc.spawn("client/closer", func(w *worker) {
				time.Sleep(time.Duration(rr.n(30000)) * time.Microsecond)
				w.op.Store("Close")
				c.conn.Close()
				c.closeReturned.Store(true)
			})
		}
		if r.n(3) == 0 {
			rr := r.fork()
			sc.spawn("client/closewrite", func(w *worker) {
				time.Sleep(time.Duration(rr.n(30000)) * time.Microsecond)
				w.op.Store("CloseWrite")
				c.conn.CloseWrite()
			})
		}
	}

	natural, mustEnd := 60*time.Second, true
	if !full {
		natural, mustEnd = 10*time.Second, false // ended by cut() shortly after the HelloRequest that dooms it
	}
	ok := sc.finishOpts(natural, grace, mustEnd)
	st.Renegs, st.HelloReqs, st.Refused, st.WriteRetries = int(renegDone.Load()), int(helloReqs.Load()), int(refusedN.Load()), int(retries.Load())
	if !ok {
		return sc.violation(), st
	}
	st.Workers = len(sc.workers)
	if full {
		sc.checkExactStreams(&st)
		if want := accepted; sc.violation() == "" && int(renegDone.Load()) != want {
			sc.report(fmt.Sprintf("the peer completed %d renegotiations, the rig counted %d accepted HelloRequests", renegDone.Load(), want))
		}
	} else {
		sc.checkPrefixStreams(&st)
	}
	return sc.violation(), st
}

// checkPrefixStreams: each direction delivered a chunk-consistent prefix of what was written (scenarios that are cut
// short by Close, expired deadlines or a failed handshake).
func (sc *scen) checkPrefixStreams(st *Stats) {
	for si, s := range sc.sides {
		peer := sc.sides[1-si]
		counts, _, bad := parseStream(s.stream)
		dir := peer.name + "->" + s.name
		if bad != "" {
			sc.report(dir + ": " + bad)
			continue
		}
		peer.mu.Lock()
		for id, started := range peer.started {
			st.Writes += int(started)
			if got := counts[id]; got > started {
				sc.report(fmt.Sprintf("%s: writer %d: %d chunks received but only %d written", dir, id, got, started))
			}
		}
		for id := range counts {
			if _, ok := peer.started[id]; !ok {
				sc.report(fmt.Sprintf("%s: chunk of unknown writer %d received", dir, id))
			}
		}
		peer.mu.Unlock()
		st.Bytes += len(s.stream)
	}
}
