package rig

// "Calls racing the tail of Handshake": one end (X: client or server, TLS 1.2 or 1.3) runs Handshake on a transport
// that delays each of its first few writes, so that the final flight of the handshake is "in the air" for a
// controlled time, and other goroutines issue Close, CloseWrite, Write, Set*Deadline, ConnectionState, Read(nil) on
// the same Conn at that moment (triggered by the transport when the write of the final flight is entered, plus a
// random offset; some racers start at other points: at once, at the first write, when Handshake has returned).
// The transport may be one that accepts write deadlines but ignores them.
//
// Non-disruptive racers (CloseWrite, Write, deadlines in the future, ConnectionState, Read(nil), Handshake):
//   - every Handshake returns nil on both ends;
//   - CloseWrite returns "handshake not complete" until it succeeds; once it has returned nil the peer reads EOF after
//     exactly the chunks whose Write returned nil (a Write after the half-close is refused with errShutdown);
//   - each direction delivers exactly what was written, then a clean EOF.
//
// Disruptive racers (Close, deadlines that have expired): the error of X's Handshake, if any, must be the one the
// racer caused (closed connection / timeout); streams are chunk-consistent prefixes; everything returns after Close.
// In both cases: watchdog, race detector.

import (
	"errors"
	"fmt"
	"io"
	"net"
	"os"
	"strings"
	"sync"
	"sync/atomic"
	"time"

	"github.com/zmap/zcrypto/tls"
)

// slowConn makes the first len(delays) writes slow; entered[k] is closed when write k is entered. A slow write waits
// before handing the bytes to the socket (a racing write deadline can still kill it), after having done so (the
// flight is on the wire, the call has not returned: whatever the caller does next is exposed to the racing call, and
// no operation on the socket orders the two goroutines for the race detector), or both.
// No lock is shared between Write and the Set*Deadline methods: the wrapper must not order the Conn's goroutines.
type slowConn struct {
	net.Conn
	delays      []time.Duration
	entered     []chan struct{}
	nw          atomic.Int32
	noDeadlines bool
	where       int // 0: delay before the socket write, 1: after it, 2: half and half
}

func newSlowConn(c net.Conn, delays []time.Duration, noDeadlines bool, where int) *slowConn {
	s := &slowConn{Conn: c, delays: delays, noDeadlines: noDeadlines, where: where}
	for range delays {
		s.entered = append(s.entered, make(chan struct{}))
	}
	return s
}

func (s *slowConn) Write(p []byte) (int, error) {
	k := int(s.nw.Add(1)) - 1
	if k >= len(s.delays) {
		return s.Conn.Write(p)
	}
	close(s.entered[k])
	pre, post := s.delays[k], time.Duration(0)
	switch s.where {
	case 1:
		pre, post = 0, pre
	case 2:
		pre, post = pre/2, pre/2
	}
	time.Sleep(pre)
	n, err := s.Conn.Write(p)
	if err == nil {
		time.Sleep(post)
	}
	return n, err
}

func (s *slowConn) SetWriteDeadline(t time.Time) error {
	if s.noDeadlines {
		return nil
	}
	return s.Conn.SetWriteDeadline(t)
}

func (s *slowConn) SetDeadline(t time.Time) error {
	if s.noDeadlines {
		return s.Conn.SetReadDeadline(t)
	}
	return s.Conn.SetDeadline(t)
}

const (
	tkCloseWrite = iota
	tkClose
	tkWrite
	tkFarDeadline
	tkPastDeadline
	tkConnState
	tkHandshake
	tkKinds
)

var tailKindNames = [tkKinds]string{"CloseWrite", "Close", "Write", "deadline-in-future", "deadline-expired", "ConnectionState", "Handshake/Read(nil)"}

const (
	ttStart = iota
	ttFirstWrite
	ttFinalFlight
	ttHandshakeDone
)

var tailTrigNames = []string{"start", "first-write", "final-flight-write", "handshake-returned"}

// TailParams: protocol version (12, 13) and end under test (0 client, 1 server) of tail scenario id.
func TailParams(id uint64) (ver, x int) {
	h := id * 0x9e3779b97f4a7c15 >> 35
	return 12 + int(h&1), int(h>>1) & 1
}

func isClosedErr(err error) bool {
	return errors.Is(err, net.ErrClosed) || strings.Contains(err.Error(), "use of closed network connection")
}

func isTimeoutErr(err error) bool {
	var ne net.Error
	return errors.Is(err, os.ErrDeadlineExceeded) || (errors.As(err, &ne) && ne.Timeout())
}

const errEarlyCloseWriteText = "tls: CloseWrite called before handshake complete"
const errShutdownText = "tls: protocol is shutdown"

// RunTailScenario runs one scenario; x = the end whose Handshake tail is raced (0 client, 1 server).
func RunTailScenario(seed uint64, ver, x int, grace time.Duration) (viol string, st Stats) {
	r := &rng{s: seed*0x9e3779b97f4a7c15 + 0x7461696c}
	st.Ver, st.Mode = fmt.Sprint(ver), "tail"
	delay := []time.Duration{300 * time.Microsecond, time.Millisecond, 3 * time.Millisecond, 8 * time.Millisecond}[r.n(4)]
	noDl := r.n(5) < 2
	ySlow := r.n(3) == 0
	where := []int{0, 1, 1, 2}[r.n(4)]
	var xtr *slowConn
	ccfg, scfg := configs(ver)
	// TLS 1.2, every other scenario: a resumed handshake (the client's last act is then to send its Finished, the
	// server's to read it). The session ticket comes from a preliminary connection with the same configurations.
	if ver == 12 && r.n(2) == 0 {
		ccfg.ClientSessionCache = tls.NewLRUClientSessionCache(4)
		if c0, s0, err := pairCfg(ccfg, scfg, func(si int, c net.Conn) net.Conn { return c }); err == nil {
			ch, over := make(chan error, 1), make(chan struct{})
			go func() { ch <- s0.Handshake() }()
			go func() {
				select {
				case <-over:
				case <-LoadTimer(60*time.Second, 0, over): // no deadlines: break a hang by closing the transports
					c0.NetConn().Close()
					s0.NetConn().Close()
				}
			}()
			c0.Handshake()
			<-ch
			close(over)
			c0.Close()
			s0.Close()
		}
	}
	cli, srv, err := pairCfg(ccfg, scfg, func(si int, c net.Conn) net.Conn {
		if si == x {
			xtr = newSlowConn(c, []time.Duration{delay, delay, delay}, noDl, where)
			return xtr
		}
		if ySlow {
			return newSlowConn(c, []time.Duration{delay / 2, delay / 2}, false, 0)
		}
		return c
	})
	if err != nil {
		return "rig: cannot create loopback pair: " + err.Error(), st
	}
	sc := newScen(r, cli, srv)
	X, Y := sc.sides[x], sc.sides[1-x]
	far := farAway // the rig sets no deadline of its own (load.go)
	wantVers := uint16(0x0300 + ver - 9)
	// index of the transport write that carries X's last flight: ClientHello + Finished flight (client), two flights
	// (TLS 1.2 server), one flight (TLS 1.3 server)
	fin := 1
	if x == 1 && (ver == 13 || ccfg.ClientSessionCache != nil) {
		fin = 0
	}

	// ---- the racers ----
	type racer struct{ kind, trig int }
	var racers []racer
	var has [tkKinds]bool
	for i, n := 0, 1+r.n(3); i < n; i++ {
		k := []int{tkCloseWrite, tkCloseWrite, tkCloseWrite, tkClose, tkClose, tkWrite, tkWrite, tkFarDeadline, tkPastDeadline, tkConnState, tkHandshake}[r.n(11)]
		t := []int{ttStart, ttFirstWrite, ttFinalFlight, ttFinalFlight, ttFinalFlight, ttFinalFlight, ttHandshakeDone}[r.n(7)]
		racers = append(racers, racer{k, t})
		has[k] = true
	}
	disruptive := has[tkClose] || has[tkPastDeadline]
	st.TailX = []string{"client", "server"}[x]
	st.TailDisruptive = disruptive
	st.TailNoDeadlines = noDl
	st.TailWhere = []string{"before", "after", "both"}[where]
	for k := range has {
		if has[k] {
			st.TailKinds = append(st.TailKinds, tailKindNames[k])
		}
	}

	var (
		hsDone     = make(chan struct{}) // X's first Handshake call has returned
		hsDoneOnce sync.Once
		hsOK       atomic.Bool // ... with nil
		cwOK       atomic.Bool // a CloseWrite of X has returned nil
		xWriters   sync.WaitGroup
		yWriters   sync.WaitGroup
	)
	waitTrig := func(t int, rr *rng) bool {
		var ch chan struct{}
		switch t {
		case ttFirstWrite:
			ch = xtr.entered[0]
		case ttFinalFlight:
			ch = xtr.entered[fin]
		case ttHandshakeDone:
			ch = hsDone
		}
		if ch != nil {
			select {
			case <-ch:
			case <-hsDone: // the handshake ended without getting there
			case <-sc.failed:
				return false
			case <-sc.stop:
				return false
			}
		}
		switch rr.n(4) {
		case 0:
		case 1:
			time.Sleep(time.Duration(rr.n(200)) * time.Microsecond)
		default:
			time.Sleep(time.Duration(rr.n(int(delay/time.Microsecond)*3/2+1)) * time.Microsecond)
		}
		return true
	}
	hsFail := func(sd *side, err error) {
		select {
		case <-sc.stop: // the final Close has begun
			return
		default:
		}
		if !disruptive {
			// pri -1: the same error comes back from every Read and Write of that end
			sc.reportPri(-1, fmt.Sprintf("%s: Handshake failed with %q although no Close and no expired deadline interfered (calls racing the handshake of the %s: %s; transport delays each of its first writes by %v%s)",
				sd.name, err.Error(), X.name, strings.Join(st.TailKinds, ", "), delay, map[bool]string{true: " and ignores write deadlines", false: ""}[noDl]))
			return
		}
		if sd != X {
			return
		}
		if (has[tkClose] && isClosedErr(err)) || (has[tkPastDeadline] && isTimeoutErr(err)) {
			return
		}
		sc.reportRoot(fmt.Sprintf("%s: Handshake failed with %q, which is not what the racing calls (%s) can have caused", sd.name, err.Error(), strings.Join(st.TailKinds, ", ")))
	}

	// ---- handshakes ----
	for _, sd := range sc.sides {
		sd := sd
		sd.conn.SetDeadline(far())
		nh := 1
		if r.n(3) == 0 {
			nh = 2
		}
		for i := 0; i < nh; i++ {
			sc.spawn(fmt.Sprintf("%s/handshake%d", sd.name, i), func(w *worker) {
				w.op.Store("Handshake")
				err := sd.conn.Handshake()
				if sd == X {
					if err == nil {
						hsOK.Store(true)
					}
					hsDoneOnce.Do(func() { close(hsDone) })
				}
				if err != nil {
					hsFail(sd, err)
				}
			})
		}
	}

	// ---- writers ----
	writer := func(sd *side, si, i int, wg *sync.WaitGroup, trig int) {
		id, rr := byte(si*16+i), r.fork()
		nchunks := 2 + rr.n(10)
		wg.Add(1)
		sc.spawn(fmt.Sprintf("%s/writer%d", sd.name, i), func(w *worker) {
			defer wg.Done()
			var acked, started uint32
			rejected := false
			defer func() {
				sd.mu.Lock()
				sd.acked[id], sd.started[id], sd.rejected[id] = acked, started, rejected
				sd.mu.Unlock()
			}()
			if trig >= 0 {
				w.op.Store("waiting for " + tailTrigNames[trig])
				if !waitTrig(trig, rr) {
					return
				}
			}
			for seq := uint32(0); seq < uint32(nchunks); seq++ {
				if sc.over() {
					return
				}
				if seq > 0 {
					rr.pause()
				}
				n := 1 + rr.n(500)
				switch rr.n(16) {
				case 0:
					n = 0
				case 1:
					n = 16000 + rr.n(20000)
				}
				chunk := mkChunk(id, seq, n)
				after := sd.closeReturned.Load()
				started++
				w.op.Store("Write")
				_, err := sd.conn.Write(chunk)
				w.op.Store("between writes")
				if err == nil && after {
					sd.lateWriteOK.Add(1)
				}
				if err == nil {
					sd.sent.Add(int64(len(chunk)))
				}
				if err != nil {
					rejected = err == net.ErrClosed
					switch {
					case disruptive:
					case sd == X && has[tkCloseWrite] && err.Error() == errShutdownText:
						// refused after the half-close: nothing of it may arrive
					default:
						sc.report(fmt.Sprintf("%s writer %d: Write #%d failed although no Close and no expired deadline interfered: %v", sd.name, i, seq, err))
					}
					return
				}
				acked++
			}
		})
	}
	nxw := r.n(3)
	if has[tkClose] && r.n(3) != 0 {
		nxw = 0 // a Close that finds a Write in flight only closes the transport: mostly let it take the full path
	}
	for i := 0; i < nxw; i++ {
		writer(X, x, i, &xWriters, -1)
	}
	for i, n := 0, 1+r.n(2); i < n; i++ {
		writer(Y, 1-x, i, &yWriters, -1)
	}

	// ---- readers ----
	for si, sd := range sc.sides {
		sd, peer, rr := sd, sc.sides[1-si], r.fork()
		sc.spawn(sd.name+"/reader", func(w *worker) {
			buf := make([]byte, 256+rr.n(20000))
			for {
				if rr.n(6) == 0 {
					rr.pause()
				}
				w.op.Store("Read")
				n, err := sd.conn.Read(buf[:1+rr.n(len(buf))])
				w.op.Store("between reads")
				sd.stream = append(sd.stream, buf[:n]...)
				sd.rcvd.Add(int64(n))
				if err != nil {
					sd.readErr = err
					if !disruptive && err != io.EOF {
						sc.reportReader(err, fmt.Sprintf("%s->%s: the byte stream is lost after %d bytes: Read failed with %q (calls racing the handshake of the %s: %s)",
							peer.name, sd.name, len(sd.stream), err.Error(), X.name, strings.Join(st.TailKinds, ", ")))
					}
					return
				}
			}
		})
	}

	// ---- racers on X ----
	nw := nxw
	for i, rc := range racers {
		i, rc, rr := i, rc, r.fork()
		name := fmt.Sprintf("%s/racer%d:%s@%s", X.name, i, tailKindNames[rc.kind], tailTrigNames[rc.trig])
		switch rc.kind {
		case tkWrite:
			writer(X, x, nw, &xWriters, rc.trig)
			nw++
		case tkCloseWrite:
			sc.spawn(name, func(w *worker) {
				w.op.Store("waiting for " + tailTrigNames[rc.trig])
				if !waitTrig(rc.trig, rr) {
					return
				}
				for spins := 0; ; spins++ {
					w.op.Store("CloseWrite")
					err := X.conn.CloseWrite()
					if err == nil {
						cwOK.Store(true)
						return
					}
					if err.Error() != errEarlyCloseWriteText {
						if !disruptive {
							sc.report(fmt.Sprintf("%s: CloseWrite issued while Handshake was in flight failed: %v", X.name, err))
						}
						return
					}
					w.op.Store("between CloseWrite attempts")
					select {
					case <-hsDone:
						if !hsOK.Load() {
							return
						}
					case <-sc.failed:
						return
					case <-sc.stop:
						return
					default:
					}
					if spins%4 == 3 {
						time.Sleep(time.Duration(20+rr.n(100)) * time.Microsecond)
					} else {
						rr.pause()
					}
				}
			})
		case tkClose:
			sc.spawn(name, func(w *worker) {
				w.op.Store("waiting for " + tailTrigNames[rc.trig])
				if !waitTrig(rc.trig, rr) {
					return
				}
				w.op.Store("Close")
				X.conn.Close()
				X.closeReturned.Store(true)
			})
		case tkFarDeadline, tkPastDeadline:
			sc.spawn(name, func(w *worker) {
				w.op.Store("waiting for " + tailTrigNames[rc.trig])
				if !waitTrig(rc.trig, rr) {
					return
				}
				t := far()
				if rc.kind == tkPastDeadline {
					t = time.Now().Add(-time.Duration(rr.n(2)) * time.Second)
				}
				which := rr.n(3)
				w.op.Store("Set*Deadline")
				switch which {
				case 0:
					X.conn.SetDeadline(t)
				case 1:
					X.conn.SetWriteDeadline(t)
				default:
					X.conn.SetReadDeadline(t)
				}
				if rc.kind == tkPastDeadline {
					time.Sleep(time.Duration(rr.n(2500)) * time.Microsecond)
					X.conn.SetDeadline(far())
				}
			})
		case tkConnState:
			sc.spawn(name, func(w *worker) {
				w.op.Store("waiting for " + tailTrigNames[rc.trig])
				if !waitTrig(rc.trig, rr) {
					return
				}
				for k := 0; k < 6 && !sc.over(); k++ {
					done := hsOK.Load()
					w.op.Store("ConnectionState")
					cs := X.conn.ConnectionState()
					if cs.HandshakeComplete && (cs.Version != wantVers || cs.CipherSuite == 0) {
						sc.report(fmt.Sprintf("%s: ConnectionState reports HandshakeComplete with version %#x, cipher suite %#x on a TLS %#x connection", X.name, cs.Version, cs.CipherSuite, wantVers))
						return
					}
					if done && !cs.HandshakeComplete {
						sc.report(X.name + ": ConnectionState reports HandshakeComplete=false after Handshake() had returned nil")
						return
					}
					rr.pause()
				}
			})
		case tkHandshake:
			sc.spawn(name, func(w *worker) {
				w.op.Store("waiting for " + tailTrigNames[rc.trig])
				if !waitTrig(rc.trig, rr) {
					return
				}
				for k := 0; k < 4 && !sc.over(); k++ {
					if rr.n(2) == 0 {
						w.op.Store("Read(nil)")
						X.conn.Read(nil)
					} else {
						w.op.Store("Handshake")
						if err := X.conn.Handshake(); err != nil {
							hsFail(X, err)
							return
						}
					}
					rr.pause()
				}
			})
		}
	}

	// ---- the documented end of a connection: half-close after the own writers (X: unless a racer does it) ----
	if !disruptive {
		for _, sd := range sc.sides {
			sd := sd
			if sd == X && has[tkCloseWrite] {
				continue
			}
			wg := &yWriters
			if sd == X {
				wg = &xWriters
			}
			for i := 0; i < 2; i++ {
				sc.spawn(fmt.Sprintf("%s/closewrite%d", sd.name, i), func(w *worker) {
					w.op.Store("waiting for writers")
					wg.Wait()
					w.op.Store("Handshake")
					if sd.conn.Handshake() != nil {
						return // reported by the handshake goroutines
					}
					// let the peer drain first (the library gives close_notify 5 s of real time to get out)
					w.op.Store("waiting for the peer to drain")
					other := sc.sides[0]
					if other == sd {
						other = sc.sides[1]
					}
					for other.rcvd.Load() < sd.sent.Load() && sc.sleep(200*time.Microsecond) {
					}
					w.op.Store("CloseWrite")
					if err := sd.conn.CloseWrite(); err != nil && !sc.isFailed() {
						sc.report(fmt.Sprintf("%s: CloseWrite after a completed handshake failed: %v", sd.name, err))
					}
				})
			}
		}
	}

	natural := 25 * time.Second
	if disruptive {
		natural = time.Duration(30+r.n(250))*time.Millisecond + 6*delay
	}
	if !sc.finishOpts(natural, grace, !disruptive) {
		return sc.violation(), st
	}
	st.Workers = len(sc.workers)
	st.TailCloseWriteOK = cwOK.Load()
	st.TailResumed = hsOK.Load() && X.conn.ConnectionState().DidResume
	if disruptive {
		sc.checkPrefixStreams(&st)
		if n := X.lateWriteOK.Load(); n > 0 {
			sc.report(fmt.Sprintf("%s: %d Write call(s) begun after Close() had returned succeeded", X.name, n))
		}
	} else {
		if has[tkCloseWrite] && !cwOK.Load() && sc.violation() == "" {
			sc.report(X.name + ": no CloseWrite issued during and after a successful Handshake returned nil")
		}
		sc.checkExactStreams(&st)
	}
	return sc.violation(), st
}
