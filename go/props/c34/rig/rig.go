// Package rig is the part of the C34 harness shared by the normal harness and by the race-instrumented
// stand-alone runner: (1) deterministic single-goroutine call sequences on a real zcrypto tls.Conn (T2),
// (2) the concurrent stress scenarios (T3; meaningful under `-race`).
package rig

import (
	"bytes"
	"crypto/ecdsa"
	"crypto/elliptic"
	"crypto/rand"
	stdx509 "crypto/x509"
	"crypto/x509/pkix"
	"encoding/binary"
	"errors"
	"fmt"
	"io"
	"math/big"
	"net"
	"runtime"
	"sort"
	"strings"
	"sync"
	"sync/atomic"
	"time"

	"github.com/zmap/zcrypto/tls"
)

var (
	certOnce sync.Once
	cert     tls.Certificate
)

func mkCert() {
	key, err := ecdsa.GenerateKey(elliptic.P256(), rand.Reader)
	if err != nil {
		panic(err)
	}
	t := &stdx509.Certificate{
		SerialNumber: big.NewInt(34), Subject: pkix.Name{CommonName: "zv-c34"},
		NotBefore: time.Unix(1600000000, 0), NotAfter: time.Unix(1900000000, 0),
		DNSNames: []string{"zv.example"}, KeyUsage: stdx509.KeyUsageDigitalSignature,
		ExtKeyUsage: []stdx509.ExtKeyUsage{stdx509.ExtKeyUsageServerAuth},
	}
	der, err := stdx509.CreateCertificate(rand.Reader, t, t, &key.PublicKey, key)
	if err != nil {
		panic(err)
	}
	cert = tls.Certificate{Certificate: [][]byte{der}, PrivateKey: key}
}

func configs(ver int) (cli, srv *tls.Config) {
	certOnce.Do(mkCert)
	v := uint16(tls.VersionTLS12)
	switch ver {
	case 13:
		v = tls.VersionTLS13
	case 11:
		v = tls.VersionTLS11
	case 10:
		v = tls.VersionTLS10
	}
	cli = &tls.Config{InsecureSkipVerify: true, MinVersion: v, MaxVersion: v, ServerName: "zv.example"}
	srv = &tls.Config{Certificates: []tls.Certificate{cert}, MinVersion: v, MaxVersion: v}
	return
}

// pair returns a connected loopback TCP pair wrapped in (not yet handshaken) zcrypto Conns.
func pair(ver int) (cli, srv *tls.Conn, err error) {
	ln, err := net.Listen("tcp", "127.0.0.1:0")
	if err != nil {
		return nil, nil, err
	}
	defer ln.Close()
	type acc struct {
		c   net.Conn
		err error
	}
	ch := make(chan acc, 1)
	go func() {
		c, err := ln.Accept()
		ch <- acc{c, err}
	}()
	cc, err := net.DialTimeout("tcp", ln.Addr().String(), 10*time.Minute)
	if err != nil {
		return nil, nil, err
	}
	a := <-ch
	if a.err != nil {
		cc.Close()
		return nil, nil, a.err
	}
	ccfg, scfg := configs(ver)
	return tls.Client(cc, ccfg), tls.Server(a.c, scfg), nil
}

// ---------------------------------------------------------------------------------------------
// T2: deterministic sequences   ops: H Handshake, W Write("zv"), C Close, S CloseWrite
// ---------------------------------------------------------------------------------------------

func classify(err error) string {
	switch {
	case err == nil:
		return "ok"
	case err == net.ErrClosed: // the bare sentinel: returned by the activeCall gate only
		return "closed"
	case err.Error() == "tls: protocol is shutdown":
		return "shutdown"
	case err.Error() == "tls: CloseWrite called before handshake complete":
		return "early"
	}
	return "err"
}

// RunSeq performs ops one after the other on the client Conn; the server handshakes and reads until error.
// No deadlines are set (an "i/o timeout" of a safety deadline on a starved machine would change the outcome); a
// sequence that does not finish within 120 s of load-corrected time is an error of the timing class (ErrSeqHang).
func RunSeq(ver int, ops string) (string, error) {
	cli, srv, err := pair(ver)
	if err != nil {
		return "", err
	}
	finished := make(chan struct{})
	defer close(finished)
	srvDone := make(chan struct{})
	go func() {
		defer close(srvDone)
		defer srv.Close()
		if srv.Handshake() != nil {
			return
		}
		io.Copy(io.Discard, srv)
	}()
	type res struct {
		out []string
		err error
	}
	resc := make(chan res, 1)
	go func() {
		var out []string
		for _, op := range ops {
			var e error
			switch op {
			case 'H':
				e = cli.Handshake()
			case 'W':
				_, e = cli.Write([]byte("zv"))
			case 'C':
				e = cli.Close()
			case 'S':
				e = cli.CloseWrite()
			default:
				resc <- res{nil, errors.New("bad op")}
				return
			}
			bump()
			out = append(out, classify(e))
		}
		cli.NetConn().Close()
		resc <- res{out, nil}
	}()
	limit := LoadTimer(120*time.Second, 0, finished)
	var r res
	select {
	case r = <-resc:
	case <-limit:
		cli.NetConn().Close()
		srv.NetConn().Close()
		return "", ErrSeqHang
	}
	if r.err != nil {
		return "", r.err
	}
	select {
	case <-srvDone:
	case <-limit:
		srv.NetConn().Close()
		return "", ErrSeqHang
	}
	if len(r.out) == 0 {
		return "-", nil
	}
	return strings.Join(r.out, ","), nil
}

// ErrSeqHang: a sequence did not finish (timing class: reported only if it reproduces in isolated re-runs).
var ErrSeqHang = errors.New("sequence did not finish within 120 s (load-corrected)")

// ---------------------------------------------------------------------------------------------
// T3: stress scenarios
// ---------------------------------------------------------------------------------------------

type rng struct{ s uint64 }

func (r *rng) u64() uint64 {
	r.s += 0x9e3779b97f4a7c15
	z := r.s
	z = (z ^ (z >> 30)) * 0xbf58476d1ce4e5b9
	z = (z ^ (z >> 27)) * 0x94d049bb133111eb
	return z ^ (z >> 31)
}
func (r *rng) n(n int) int {
	if n <= 0 {
		return 0
	}
	return int(r.u64() % uint64(n))
}
func (r *rng) fork() *rng { return &rng{s: r.u64()} }
func (r *rng) pause() {
	switch r.n(6) {
	case 0:
		runtime.Gosched()
	case 1:
		time.Sleep(time.Duration(r.n(300)) * time.Microsecond)
	case 2:
		time.Sleep(time.Duration(r.n(3)) * time.Millisecond)
	}
}

const magic = 0xA5

func payloadByte(w byte, seq uint32, i int) byte {
	return byte(uint32(w)*131 + seq*31 + uint32(i)*7 + uint32(i>>8))
}

func mkChunk(w byte, seq uint32, n int) []byte {
	b := make([]byte, 8+n)
	b[0], b[1] = magic, w
	binary.BigEndian.PutUint32(b[2:], seq)
	binary.BigEndian.PutUint16(b[6:], uint16(n))
	for i := 0; i < n; i++ {
		b[8+i] = payloadByte(w, seq, i)
	}
	return b
}

// parseStream checks the received byte stream: a sequence of intact chunks (plus possibly a truncated last
// one); returns per-writer count of complete chunks, whether a partial tail exists, or a description of the
// first corruption.
func parseStream(s []byte) (counts map[byte]uint32, partial bool, bad string) {
	counts = map[byte]uint32{}
	off := 0
	for off < len(s) {
		if s[off] != magic {
			return counts, false, fmt.Sprintf("stream offset %d: expected chunk magic, got %#x (bytes reordered, lost or duplicated)", off, s[off])
		}
		if len(s)-off < 8 {
			return counts, true, ""
		}
		w := s[off+1]
		seq := binary.BigEndian.Uint32(s[off+2:])
		n := int(binary.BigEndian.Uint16(s[off+6:]))
		if seq != counts[w] {
			return counts, false, fmt.Sprintf("stream offset %d: writer %d chunk seq %d arrived, expected %d (chunks of one writer out of order, lost or duplicated)", off, w, seq, counts[w])
		}
		avail := len(s) - off - 8
		m := n
		if avail < n {
			m = avail
		}
		for i := 0; i < m; i++ {
			if s[off+8+i] != payloadByte(w, seq, i) {
				return counts, false, fmt.Sprintf("stream offset %d: payload of writer %d chunk %d corrupted at byte %d", off, w, seq, i)
			}
		}
		if avail < n {
			return counts, true, ""
		}
		counts[w]++
		off += 8 + n
	}
	return counts, false, ""
}

type worker struct {
	name string
	op   opCell // string: what it is doing right now (a change counts as progress, see load.go)
	done atomic.Bool
}

type side struct {
	name string
	conn *tls.Conn
	// writer bookkeeping (written by the writer goroutine itself, read after it finished)
	acked    map[byte]uint32 // Writes that returned nil
	started  map[byte]uint32 // Writes begun
	rejected map[byte]bool   // last Write was refused by the closed gate (net.ErrClosed)
	// what the reader on THIS side received from the peer
	stream  []byte
	readErr error
	// close bookkeeping
	closeReturned atomic.Bool
	lateWriteOK   atomic.Int32 // Writes begun after Close had returned that nevertheless returned nil
	mu            sync.Mutex
	// bytes of chunks whose Write returned nil / bytes delivered to the reader (drain before the half-close)
	sent, rcvd atomic.Int64
}

type Stats struct {
	Ver, Mode                      string
	Writes, Bytes, Closes, Workers int
	// key-update scenarios
	KeyUpdates, KeyUpdateReqs, Delayed int
	// deadline scenarios: reader-visible timeouts, gates passed and transport timeouts at a gate per split class
	Timeouts     int
	Spans        int // pieces that reached into the next record's header
	AlertGates   int // look-ahead alert records held back
	Gates        [5]int
	GateTimeouts [5]int
	// renegotiation scenarios
	RenegMode, RenegPolicy                   string
	Renegs, HelloReqs, Refused, WriteRetries int
	// handshake-tail scenarios
	TailX            string   // end under test
	TailKinds        []string // kinds of racing calls
	TailDisruptive   bool
	TailNoDeadlines  bool
	TailCloseWriteOK bool
	TailResumed      bool   // the handshake of the end under test was a resumption
	TailWhere        string // where the slow transport waits relative to the socket write
}

// RunScenario runs one concurrent scenario; returns a violation description ("" = none).
//
//	mode "graceful": every goroutine uses the API in the documented concurrent way, no early Close; the
//	                 received stream of each direction must EQUAL what was written, and end with a clean EOF.
//	mode "chaos":    Close (possibly twice, concurrently), CloseWrite and expired deadlines strike at random
//	                 moments; the received stream must be a chunk-consistent PREFIX of what was written.
//
// In both modes: every goroutine must have returned `grace` after the final Close of both ends (deadlock
// watchdog), and — in the -race build — the race detector must stay silent.
func RunScenario(seed uint64, mode string, ver int, grace time.Duration) (viol string, st Stats) {
	r := &rng{s: seed*0x9e3779b97f4a7c15 + uint64(ver)}
	st.Ver, st.Mode = fmt.Sprint(ver), mode
	cli, srv, err := pair(ver)
	if err != nil {
		return "rig: cannot create loopback pair: " + err.Error(), st
	}
	sides := []*side{
		{name: "client", conn: cli, acked: map[byte]uint32{}, started: map[byte]uint32{}, rejected: map[byte]bool{}},
		{name: "server", conn: srv, acked: map[byte]uint32{}, started: map[byte]uint32{}, rejected: map[byte]bool{}},
	}
	chaos := mode == "chaos"
	var wg sync.WaitGroup
	var workers []*worker
	var wmu sync.Mutex
	spawn := func(name string, f func(w *worker)) {
		w := &worker{name: name}
		w.op.Store("start")
		wmu.Lock()
		workers = append(workers, w)
		wmu.Unlock()
		wg.Add(1)
		go func() {
			defer wg.Done()
			defer bump()
			defer w.done.Store(true)
			f(w)
		}()
	}
	far := farAway               // the rig sets no deadline of its own: a hang is found by the watchdogs below
	stop := make(chan struct{})  // closed when the main goroutine starts the final shutdown
	ended := make(chan struct{}) // closed when RunScenario returns (ends the load timers)
	defer close(ended)
	var violMu sync.Mutex
	report := func(s string) {
		violMu.Lock()
		if viol == "" {
			viol = s
		}
		violMu.Unlock()
	}
	checkCloseFlag := r.n(2) == 0

	for si, s := range sides {
		s := s
		peer := sides[1-si]
		_ = peer
		s.conn.SetDeadline(far())
		// several goroutines race to run the handshake
		nh := 1 + r.n(3)
		for i := 0; i < nh; i++ {
			rr := r.fork()
			spawn(fmt.Sprintf("%s/handshake%d", s.name, i), func(w *worker) {
				rr.pause()
				w.op.Store("Handshake")
				s.conn.Handshake()
			})
		}
		// writers
		nw := 1 + r.n(3)
		var writersWG sync.WaitGroup
		for i := 0; i < nw; i++ {
			id := byte(si*16 + i)
			rr := r.fork()
			nchunks := 3 + rr.n(25)
			writersWG.Add(1)
			spawn(fmt.Sprintf("%s/writer%d", s.name, i), func(w *worker) {
				defer writersWG.Done()
				var acked, started uint32
				rejected := false
				defer func() {
					s.mu.Lock()
					s.acked[id], s.started[id], s.rejected[id] = acked, started, rejected
					s.mu.Unlock()
				}()
				for seq := uint32(0); seq < uint32(nchunks); seq++ {
					rr.pause()
					n := 1 + rr.n(600)
					switch rr.n(12) {
					case 0:
						n = 0
					case 1:
						n = 16000 + rr.n(20000) // spans several records
					case 2:
						n = 1
					}
					chunk := mkChunk(id, seq, n)
					after := checkCloseFlag && s.closeReturned.Load()
					started++
					w.op.Store("Write")
					_, err := s.conn.Write(chunk)
					w.op.Store("between writes")
					if err != nil {
						rejected = err == net.ErrClosed
						if !chaos {
							report(fmt.Sprintf("%s writer %d: Write #%d failed in a scenario without Close/deadline interference: %v", s.name, i, seq, err))
						}
						return
					}
					if after {
						s.lateWriteOK.Add(1)
					}
					acked++
					s.sent.Add(int64(len(chunk)))
				}
			})
		}
		// the stream reader
		rrd := r.fork()
		spawn(s.name+"/reader", func(w *worker) {
			buf := make([]byte, 1+rrd.n(8192))
			for {
				rrd.pause()
				w.op.Store("Read")
				n, err := s.conn.Read(buf[:1+rrd.n(len(buf))])
				w.op.Store("between reads")
				s.stream = append(s.stream, buf[:n]...)
				s.rcvd.Add(int64(n))
				if err != nil {
					s.readErr = err
					return
				}
			}
		})
		// nuisance callers: ConnectionState, deadlines in the future, zero-length Read, Handshake again
		nn := 1 + r.n(3)
		for i := 0; i < nn; i++ {
			rr := r.fork()
			spawn(fmt.Sprintf("%s/nuisance%d", s.name, i), func(w *worker) {
				for k := 0; k < 40; k++ {
					select {
					case <-stop:
						return
					default:
					}
					rr.pause()
					switch rr.n(7) {
					case 0:
						w.op.Store("ConnectionState")
						cs := s.conn.ConnectionState()
						if cs.HandshakeComplete && cs.Version != uint16(0x0300+ver-9) {
							report(fmt.Sprintf("%s: ConnectionState reports version %#x after a completed TLS 1.%d handshake", s.name, cs.Version, ver-10))
						}
					case 1:
						w.op.Store("SetDeadline")
						s.conn.SetDeadline(far())
					case 2:
						w.op.Store("SetReadDeadline")
						s.conn.SetReadDeadline(far())
					case 3:
						w.op.Store("SetWriteDeadline")
						s.conn.SetWriteDeadline(far())
					case 4:
						w.op.Store("Read(nil)")
						s.conn.Read(nil)
					case 5:
						w.op.Store("Handshake")
						s.conn.Handshake()
					case 6:
						if chaos && rr.n(6) == 0 {
							w.op.Store("SetDeadline(past)")
							s.conn.SetDeadline(time.Now().Add(-time.Second))
							time.Sleep(time.Duration(rr.n(2000)) * time.Microsecond)
							s.conn.SetDeadline(far())
						}
					}
					w.op.Store("idle")
				}
			})
		}
		if chaos {
			// Close / CloseWrite strike at a random moment, possibly several at once
			nc := r.n(3)
			delay := time.Duration(r.n(1+r.n(150))) * time.Millisecond
			for i := 0; i < nc; i++ {
				rr := r.fork()
				spawn(fmt.Sprintf("%s/closer%d", s.name, i), func(w *worker) {
					time.Sleep(delay + time.Duration(rr.n(1500))*time.Microsecond)
					w.op.Store("Close")
					s.conn.Close()
					s.closeReturned.Store(true)
				})
			}
			if r.n(2) == 0 {
				rr := r.fork()
				spawn(s.name+"/closewrite", func(w *worker) {
					time.Sleep(time.Duration(rr.n(30)) * time.Millisecond)
					w.op.Store("CloseWrite")
					s.conn.CloseWrite()
				})
			}
		} else {
			// graceful: when this side's writers are done, half-close (twice, concurrently: CloseWrite is idempotent)
			for i := 0; i < 2; i++ {
				spawn(fmt.Sprintf("%s/closewrite%d", s.name, i), func(w *worker) {
					w.op.Store("waiting for writers")
					writersWG.Wait()
					// let the peer drain what is in flight: closeNotify gives the alert 5 s to get out (a deadline of
					// the library, in real time), which a starved peer behind full socket buffers can exceed
					w.op.Store("waiting for the peer to drain")
					for peer.rcvd.Load() < s.sent.Load() {
						select {
						case <-stop:
							return
						default:
						}
						time.Sleep(200 * time.Microsecond)
					}
					w.op.Store("CloseWrite")
					if err := s.conn.CloseWrite(); err != nil {
						report(fmt.Sprintf("%s: CloseWrite after a completed handshake failed: %v", s.name, err))
					}
				})
			}
		}
	}

	// main: wait for the natural end (graceful: both readers reach EOF) or a bounded time, then Close both ends.
	allDone := make(chan struct{})
	go func() { wg.Wait(); close(allDone) }()
	if chaos {
		// pacing, not a verdict: the final Close is part of the scenario
		select {
		case <-allDone:
		case <-time.After(time.Duration(20+r.n(400)) * time.Millisecond):
		}
	} else {
		select {
		case <-allDone:
		case <-LoadTimer(90*time.Second, 10*time.Second, ended):
			wmu.Lock()
			ws := append([]*worker(nil), workers...)
			wmu.Unlock()
			report(fmt.Sprintf("graceful scenario did not reach EOF on both sides within 90 s (load-corrected, load factor %.1f): %s", LoadFactor(), running(ws)))
		}
	}
	close(stop)
	var closers sync.WaitGroup
	for _, s := range sides {
		s := s
		closers.Add(1)
		w := &worker{name: s.name + "/final-close"}
		w.op.Store("Close")
		wmu.Lock()
		workers = append(workers, w)
		wmu.Unlock()
		go func() {
			defer closers.Done()
			s.conn.Close()
			s.closeReturned.Store(true)
			w.done.Store(true)
			bump()
		}()
	}
	finished := make(chan struct{})
	go func() { closers.Wait(); <-allDone; close(finished) }()
	select {
	case <-finished:
	case <-LoadTimer(grace, 10*time.Second, ended):
		wmu.Lock()
		ws := append([]*worker(nil), workers...)
		wmu.Unlock()
		report(fmt.Sprintf("deadlock: %v (load-corrected, load factor %.1f) after Close() was called on both ends these calls had still not returned: %s", grace, LoadFactor(), running(ws)))
		for _, s := range sides {
			s.conn.NetConn().Close()
		}
		return viol, st
	}
	st.Workers = len(workers)

	// stream oracles
	for si, s := range sides {
		peer := sides[1-si] // the writers of what s received
		counts, partial, bad := parseStream(s.stream)
		dir := peer.name + "->" + s.name
		if bad != "" {
			report(dir + ": " + bad)
			continue
		}
		for id, started := range peer.started {
			got := counts[id]
			acked := peer.acked[id]
			st.Writes += int(started)
			if got > started {
				report(fmt.Sprintf("%s: writer %d: %d chunks received but only %d written", dir, id, got, started))
			}
			if !chaos && got != acked {
				report(fmt.Sprintf("%s: writer %d: %d chunks received, %d Writes returned nil", dir, id, got, acked))
			}
			if peer.rejected[id] && got >= started && started > 0 {
				report(fmt.Sprintf("%s: writer %d: the Write refused with net.ErrClosed nevertheless reached the peer", dir, id))
			}
		}
		for id := range counts {
			if _, ok := peer.started[id]; !ok {
				report(fmt.Sprintf("%s: chunk of unknown writer %d received", dir, id))
			}
		}
		st.Bytes += len(s.stream)
		if !chaos {
			if partial {
				report(dir + ": stream ends in a truncated chunk although every Write returned nil")
			}
			if s.readErr != io.EOF {
				report(fmt.Sprintf("%s: reader ended with %v, want io.EOF after the peer's CloseWrite", dir, s.readErr))
			}
		}
		if n := s.lateWriteOK.Load(); n > 0 {
			report(fmt.Sprintf("%s: %d Write call(s) begun after Close() had returned succeeded", s.name, n))
		}
	}
	return viol, st
}

func running(ws []*worker) string {
	var out []string
	for _, w := range ws {
		if !w.done.Load() {
			out = append(out, fmt.Sprintf("%s[%v]", w.name, w.op.Load()))
		}
	}
	sort.Strings(out)
	if len(out) == 0 {
		return "(none)"
	}
	return strings.Join(out, " ")
}

var _ = bytes.Equal
