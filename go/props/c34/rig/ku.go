package rig

// Key-update scenarios (TLS 1.3): both ends read and write concurrently while "injector" goroutines make each end
// behave like a peer that initiates key updates (KeyUpdate with and without update_requested, sent through the
// verif hook tls.ZVC34SendKeyUpdate, because zcrypto itself never initiates one). The end that receives
// KeyUpdate(update_requested) answers from its Read goroutine (handleKeyUpdate: reply record + switch of the sending
// key) while its Write goroutines compete for the same output half. Oracle: each direction delivers EXACTLY the
// chunks written, then a clean EOF; no Write and no key update fails.
//
// The transport of an end may be a "slow link for the KeyUpdate record": writes of exactly the size of a TLS 1.3
// KeyUpdate record are delayed by a few milliseconds, so that writers queue up on the output mutex while the reply is
// on its way (sync.Mutex hands over directly to a waiter of > 1 ms). Whatever the library does between sending the
// reply and switching the key is then exposed to a concurrent Write deterministically instead of by scheduler luck.

import (
	"fmt"
	"io"
	"net"
	"sync"
	"sync/atomic"
	"time"

	"github.com/zmap/zcrypto/tls"
)

// kuRecordLen: 5 header + 5 KeyUpdate message + 1 inner content type + 16 AEAD tag (all TLS 1.3 suites).
const kuRecordLen = 27

// kuCredit bounds the KeyUpdate records an end may emit in a row without application data in between: the receiver
// gives up after maxUselessRecords = 16 consecutive non-advancing records (documented behaviour, not under test).
const kuCredit = 6

type kuConn struct {
	net.Conn
	delay       time.Duration
	mu          sync.Mutex
	sinceData   int // KeyUpdate-sized records written since the last other record
	outstanding int // KeyUpdate emissions triggered (own or reply to a request) but not yet written
	kuWrites    atomic.Int64
	delayed     atomic.Int64
}

func (c *kuConn) Write(p []byte) (int, error) {
	if len(p) == kuRecordLen {
		c.mu.Lock()
		c.sinceData++
		if c.outstanding > 0 {
			c.outstanding--
		}
		c.mu.Unlock()
		c.kuWrites.Add(1)
		if c.delay > 0 {
			c.delayed.Add(1)
			time.Sleep(c.delay)
		}
	} else {
		c.mu.Lock()
		c.sinceData = 0
		c.mu.Unlock()
	}
	return c.Conn.Write(p)
}

func (c *kuConn) acquire() bool {
	c.mu.Lock()
	defer c.mu.Unlock()
	if c.sinceData+c.outstanding < kuCredit {
		c.outstanding++
		return true
	}
	return false
}

func (c *kuConn) release() {
	c.mu.Lock()
	if c.outstanding > 0 {
		c.outstanding--
	}
	c.mu.Unlock()
}

func (c *kuConn) pending() int {
	c.mu.Lock()
	defer c.mu.Unlock()
	return c.outstanding
}

// flow control: plaintext in flight per direction stays far below the socket buffers, so that no transport write
// ever blocks for long. (An end answers KeyUpdate requests from its Read goroutine; two ends that both stop reading
// because their replies block on full buffers would be the well-known KeyUpdate deadlock of this design, which is
// not what these scenarios are after.)
const (
	kuWindowBytes  = 64 << 10
	kuWindowChunks = 96
)

type kuSide struct {
	*side
	tr          *kuConn
	sentBytes   atomic.Int64
	sentChunks  atomic.Int64
	rx          chunkCounter
	readerDone  atomic.Bool
	writersLeft atomic.Int32
	injLeft     atomic.Int32
	kuSent      atomic.Int64
	kuReq       atomic.Int64
}

// RunKeyUpdateScenario runs one TLS 1.3 key-update scenario; returns a violation description ("" = none).
func RunKeyUpdateScenario(seed uint64, grace time.Duration) (viol string, st Stats) {
	r := &rng{s: seed*0x9e3779b97f4a7c15 + 0x4b55}
	st.Ver, st.Mode = "13", "keyupdate"
	delays := []time.Duration{0, 1300 * time.Microsecond, 2 * time.Millisecond, 4 * time.Millisecond}
	var trs [2]*kuConn
	cli, srv, err := pairWrapped(13, func(si int, c net.Conn) net.Conn {
		trs[si] = &kuConn{Conn: c}
		return trs[si]
	})
	if err != nil {
		return "rig: cannot create loopback pair: " + err.Error(), st
	}
	// which end sits on the slow link: one, the other, both, none
	switch r.n(8) {
	case 0:
	case 1, 2:
		trs[0].delay = delays[1+r.n(3)]
	case 3, 4:
		trs[1].delay = delays[1+r.n(3)]
	default:
		trs[0].delay, trs[1].delay = delays[1+r.n(3)], delays[1+r.n(3)]
	}
	sc := newScen(r, cli, srv)
	ks := []*kuSide{{side: sc.sides[0], tr: trs[0]}, {side: sc.sides[1], tr: trs[1]}}
	far := farAway // the rig sets no deadline of its own (load.go)

	var activity sync.WaitGroup // all writers and injectors of both ends
	var injectors atomic.Int32  // injectors still running (both ends)
	type plan struct{ nh, nw, ni int }
	plans := make([]plan, 2)
	for si := range plans {
		plans[si] = plan{nh: 1 + r.n(2), nw: 1 + r.n(3), ni: 1 + r.n(2)}
		if r.n(6) == 0 {
			plans[si].ni = 0
		}
	}
	if plans[0].ni+plans[1].ni == 0 {
		plans[r.n(2)].ni = 1
	}
	for si, p := range plans {
		ks[si].writersLeft.Store(int32(p.nw))
		ks[si].injLeft.Store(int32(p.ni))
		injectors.Add(int32(p.ni))
		activity.Add(p.nw + p.ni)
	}

	for si := range ks {
		s, peer, p := ks[si], ks[1-si], plans[si]
		s.conn.SetDeadline(far())
		for i := 0; i < p.nh; i++ {
			rr := r.fork()
			sc.spawn(fmt.Sprintf("%s/handshake%d", s.name, i), func(w *worker) {
				rr.pause()
				w.op.Store("Handshake")
				s.conn.Handshake()
			})
		}
		// writers: keep the output half busy for as long as key updates are being injected
		for i := 0; i < p.nw; i++ {
			i, id, rr := i, byte(si*16+i), r.fork()
			minChunks := uint32(10 + rr.n(40))
			const maxChunks = 6000
			busy := rr.n(4) != 0 // tight loop (mostly) or leisurely
			sc.spawn(fmt.Sprintf("%s/writer%d", s.name, i), func(w *worker) {
				defer activity.Done()
				defer s.writersLeft.Add(-1)
				var acked, started uint32
				defer func() {
					s.mu.Lock()
					s.acked[id], s.started[id] = acked, started
					s.mu.Unlock()
				}()
				for seq := uint32(0); seq < maxChunks && (seq < minChunks || injectors.Load() > 0); seq++ {
					if sc.over() {
						return
					}
					if busy {
						if rr.n(8) == 0 {
							time.Sleep(time.Duration(rr.n(200)) * time.Microsecond)
						}
					} else {
						rr.pause()
					}
					n := 1 + rr.n(400)
					switch rr.n(40) {
					case 0:
						n = 0
					case 1:
						n = 16000 + rr.n(20000)
					case 2:
						n = 1
					}
					w.op.Store("flow control")
					for s.sentBytes.Load()-peer.rx.bytes.Load() > kuWindowBytes || s.sentChunks.Load()-peer.rx.chunks.Load() > kuWindowChunks {
						if peer.readerDone.Load() || !sc.sleep(50*time.Microsecond) {
							break
						}
					}
					chunk := mkChunk(id, seq, n)
					started++
					s.sentBytes.Add(int64(len(chunk)))
					s.sentChunks.Add(1)
					w.op.Store("Write")
					_, err := s.conn.Write(chunk)
					w.op.Store("between writes")
					if err != nil {
						sc.report(fmt.Sprintf("%s writer %d: Write #%d failed in a scenario without Close/deadline interference (%d KeyUpdates sent by the peer so far, %d of them update_requested): %v",
							s.name, i, seq, peer.kuSent.Load(), peer.kuReq.Load(), err))
						return
					}
					acked++
				}
			})
		}
		// the stream reader: fast, so that the flow-control window is what bounds the data in flight
		rrd := r.fork()
		sc.spawn(s.name+"/reader", func(w *worker) {
			defer s.readerDone.Store(true)
			buf := make([]byte, 4096+rrd.n(28000))
			for {
				if rrd.n(16) == 0 {
					rrd.pause()
				}
				w.op.Store("Read")
				n, err := s.conn.Read(buf[:1+rrd.n(len(buf))])
				w.op.Store("between reads")
				s.stream = append(s.stream, buf[:n]...)
				s.rx.feed(buf[:n])
				if err != nil {
					s.readErr = err
					if err != io.EOF {
						sc.reportReader(err, fmt.Sprintf("%s->%s: the byte stream is lost after %d bytes: Read failed with %q (%d KeyUpdates sent by %s so far, %d of them update_requested, which %s answers while its writers are writing; slow link for the KeyUpdate record at %s: %v)",
							peer.name, s.name, len(s.stream), err.Error(), s.kuSent.Load(), s.name, s.kuReq.Load(), peer.name, peer.name, peer.tr.delay))
					}
					return
				}
			}
		})
		// injectors: this end initiates key updates like an OpenSSL/BoringSSL peer would
		for i := 0; i < p.ni; i++ {
			i, id, rr := i, byte(si*16+8+i), r.fork()
			rounds := 5 + rr.n(14)
			pReq := []int{0, 50, 67, 100}[rr.n(4)] // percentage of update_requested
			sc.spawn(fmt.Sprintf("%s/keyupdate%d", s.name, i), func(w *worker) {
				defer activity.Done()
				defer injectors.Add(-1)
				defer s.injLeft.Add(-1)
				var acked, started uint32
				defer func() {
					s.mu.Lock()
					s.acked[id], s.started[id] = acked, started
					s.mu.Unlock()
				}()
				w.op.Store("Handshake")
				if err := s.conn.Handshake(); err != nil {
					sc.report(fmt.Sprintf("%s: Handshake failed: %v", s.name, err))
					return
				}
				for k := 0; k < rounds; k++ {
					switch rr.n(4) {
					case 0:
					case 1:
						time.Sleep(time.Duration(rr.n(300)) * time.Microsecond)
					default:
						time.Sleep(time.Duration(rr.n(1200)) * time.Microsecond)
					}
					req := rr.n(100) < pReq
					// credits: this end emits one KeyUpdate record now; the peer emits one (its reply) if requested
					w.op.Store("waiting for KeyUpdate credit")
					for tries := 0; ; tries++ {
						if sc.over() {
							return
						}
						if s.tr.acquire() {
							if !req || peer.tr.acquire() {
								break
							}
							s.tr.release()
						}
						// credits come back only with application data: give up once nobody writes any more
						if tries > 40 && (s.writersLeft.Load() == 0 || peer.writersLeft.Load() == 0) {
							return
						}
						time.Sleep(100 * time.Microsecond)
					}
					w.op.Store(fmt.Sprintf("KeyUpdate(requested=%v)", req))
					if err := tls.ZVC34SendKeyUpdate(s.conn, req); err != nil {
						if req {
							peer.tr.release()
						}
						sc.report(fmt.Sprintf("%s: sending KeyUpdate #%d failed: %v", s.name, s.kuSent.Load(), err))
						return
					}
					s.kuSent.Add(1)
					if req {
						s.kuReq.Add(1)
					}
					// application data under the new key (also resets the peer's count of non-advancing records)
					if rr.n(4) != 0 {
						chunk := mkChunk(id, started, rr.n(64))
						started++
						w.op.Store("Write")
						if _, err := s.conn.Write(chunk); err != nil {
							sc.report(fmt.Sprintf("%s: Write after own KeyUpdate #%d failed: %v", s.name, s.kuSent.Load(), err))
							return
						}
						acked++
					}
					w.op.Store("idle")
				}
			})
		}
		// when all writers and injectors (of both ends) are done and the requested replies are out: half-close
		for i := 0; i < 2; i++ {
			sc.spawn(fmt.Sprintf("%s/closewrite%d", s.name, i), func(w *worker) {
				w.op.Store("waiting for writers and key updates")
				activity.Wait()
				for k := 0; k < 4000 && s.tr.pending() > 0 && !sc.over() && !s.readerDone.Load(); k++ {
					time.Sleep(500 * time.Microsecond)
				}
				w.op.Store("CloseWrite")
				if err := s.conn.CloseWrite(); err != nil && !sc.isFailed() {
					sc.report(fmt.Sprintf("%s: CloseWrite after a completed handshake failed: %v", s.name, err))
				}
			})
		}
	}

	if !sc.finish(90*time.Second, grace) {
		return sc.violation(), st
	}
	st.Workers = len(sc.workers)
	sc.checkExactStreams(&st)
	st.KeyUpdates = int(ks[0].kuSent.Load() + ks[1].kuSent.Load())
	st.KeyUpdateReqs = int(ks[0].kuReq.Load() + ks[1].kuReq.Load())
	st.Delayed = int(trs[0].delayed.Load() + trs[1].delayed.Load())
	return sc.violation(), st
}
