// Package c34: concurrent use of a zcrypto tls.Conn.
//
//	T2  `c34 seq <ver> <ops>`      deterministic single-goroutine sequences of Handshake/Write/Close/CloseWrite on a
//	                               real Conn over loopback TCP, outcomes compared with the Lean model of the
//	                               activeCall / closeNotify protocol run with one thread
//	T3  `c34 stress <seed> <n>`    n concurrent scenarios in a separately built `-race` binary (race detector,
//	                               deadlock watchdog, byte-stream preservation) — explored, not proved. Scenario
//	                               kinds (by id mod 10): graceful, chaos, keyupdate (rig/ku.go), deadline (rig/dl.go),
//	                               reneg (rig/reneg.go: HelloRequests against a TLS 1.0-1.2 client that is used from
//	                               many goroutines), tail (rig/tail.go: calls racing the last flight of Handshake)
package c34

import (
	"bytes"
	"fmt"
	"hash/fnv"
	"os"
	"os/exec"
	"path/filepath"
	"regexp"
	"runtime"
	"sort"
	"strings"
	"sync"
	"time"

	"zv/internal/zv"
	"zv/props/c34/rig"
)

func init() {
	zv.Register(&zv.Prop{
		ID: "C34", Topic: "c34", Gen: gen, Exec: execLine, Timeout: 6 * time.Hour, // outer watchdog only: every limit of the rig itself is load-corrected (rig/load.go)
		Rule: "seq lines: every sequence over {Handshake,Write,Close,CloseWrite} up to length 4 (quick) / 6 (thorough) for TLS 1.2 " +
			"and 1.3 plus random longer ones; stress lines: batches of 20 seeded concurrent scenarios run under the race detector: 2 graceful, " +
			"6 chaos (TLS 1.2 / 1.3), 2 key-update (TLS 1.3: both ends initiate KeyUpdate with/without update_requested at random points " +
			"while both ends read and write; optional slow link for the KeyUpdate record) and 2 deadline scenarios (TLS 1.2 / 1.3: a second " +
			"goroutine fires and clears SetReadDeadline/SetDeadline while a Read is blocked at a chosen split point of a record delivered in " +
			"pieces), 4 renegotiation scenarios (TLS 1.0 / 1.1 / 1.2 client with RenegotiateFreelyAsClient / OnceAsClient / Never; the peer sends " +
			"HelloRequests at random points while a reader, 1-3 writers and 2-5 goroutines hammering Handshake / ConnectionState / Read(nil) / " +
			"VerifyHostname / Set*Deadline use the client Conn; the peer completes the renegotiation (verif hook: exact-stream oracle), answers " +
			"with a fatal alert, or goes silent and then closes / lets the client deadline expire / waits for Close: watchdog) and 4 " +
			"handshake-tail scenarios (client or server, TLS 1.2 full / resumed and TLS 1.3: Handshake on a transport that delays its first writes by 0.3-8 ms, with or " +
			"without working write deadlines, while other goroutines issue CloseWrite / Close / Write / Set*Deadline / ConnectionState / Handshake " +
			"when the write of the final flight is entered: Handshake may only fail the way a racing Close / expired deadline explains, a successful " +
			"CloseWrite is seen by the peer as EOF after exactly the acknowledged data); non-trivial = sequence containing a Close or " +
			"CloseWrite, every stress batch",
	})
}

func gen(g *zv.Gen) {
	maxLen := g.N(4, 6)
	var rec func(prefix string)
	rec = func(prefix string) {
		for _, v := range []string{"12", "13"} {
			p := prefix
			if p == "" {
				p = "-"
			}
			g.Emit("c34 seq " + v + " " + p)
		}
		if len(prefix) == maxLen {
			return
		}
		for _, c := range "HWCS" {
			rec(prefix + string(c))
		}
	}
	rec("")
	for i := 0; i < g.N(300, 3000); i++ {
		n := maxLen + 1 + g.Rng.Intn(8)
		b := make([]byte, n)
		for j := range b {
			b[j] = "HWCSWW"[g.Rng.Intn(6)]
		}
		g.Emit(fmt.Sprintf("c34 seq %d %s", 12+g.Rng.Intn(2), b))
	}
	// stress batches: 20 scenarios each
	for i := 0; i < g.N(20, 600); i++ {
		g.Emit(fmt.Sprintf("c34 stress %d %d", 1+g.Rng.Intn(1<<40), batchSize))
	}
}

const batchSize = 20

func execLine(line string) zv.Out {
	f := strings.Fields(line)
	if len(f) != 4 || f[0] != "c34" {
		return zv.Out{Go: "bad-op"}
	}
	switch f[1] {
	case "seq":
		ver := 12
		if f[2] == "13" {
			ver = 13
		}
		ops := f[3]
		if ops == "-" {
			ops = ""
		}
		alone.RLock()
		out, err := rig.RunSeq(ver, ops)
		alone.RUnlock()
		if err == rig.ErrSeqHang {
			// timing class: only if it happens again in 2 of up to 3 runs with nothing else of this check running
			alone.Lock()
			hangs, runs := 0, 0
			for runs < 3 && hangs < 2 && runs-hangs < 2 {
				runs++
				if out, err = rig.RunSeq(ver, ops); err == rig.ErrSeqHang {
					hangs++
				} else if err != nil {
					break
				}
			}
			alone.Unlock()
			if hangs >= 2 {
				err = fmt.Errorf("%v [in %d of %d isolated re-runs as well]", rig.ErrSeqHang, hangs, runs)
			}
		}
		if err != nil {
			// environment trouble (no loopback …) is not a property violation, but must not pass silently either
			return zv.Out{Go: "rig-error", Viol: "rig: " + err.Error(), Tags: []string{"rig-error"}}
		}
		tags := []string{"seq", "tls1." + f[2][1:], fmt.Sprintf("seqlen=%d", len(ops))}
		for _, k := range []string{"closed", "shutdown", "early", "err"} {
			if strings.Contains(out, k) {
				tags = append(tags, "outcome:"+k)
			}
		}
		return zv.Out{Go: out, Tags: tags, Trivial: !strings.ContainsAny(ops, "CS")}
	case "stress", "one":
		return execStress(f[1], f[2], f[3])
	}
	return zv.Out{Go: "bad-op"}
}

// ---- the race-instrumented runner -------------------------------------------------------------

var (
	raceOnce sync.Once
	raceBin  string
	raceErr  string
	// alone: read-locked by every case while it runs; write-locked for the isolated re-runs of a scenario that
	// failed with a symptom of the timing class (nothing else of this check runs meanwhile)
	alone sync.RWMutex
)

func goDir() string {
	_, file, _, ok := runtime.Caller(0)
	if ok {
		d := filepath.Dir(filepath.Dir(filepath.Dir(file)))
		if _, err := os.Stat(filepath.Join(d, "go.mod")); err == nil {
			return d
		}
	}
	if exe, err := os.Executable(); err == nil {
		d := filepath.Join(filepath.Dir(filepath.Dir(exe)), "go")
		if _, err := os.Stat(filepath.Join(d, "go.mod")); err == nil {
			return d
		}
	}
	return ""
}

func goEnv() []string {
	var env []string
	for _, kv := range os.Environ() {
		switch strings.SplitN(kv, "=", 2)[0] {
		case "GOFLAGS", "GOPROXY", "GOTOOLCHAIN", "GOSUMDB", "GONOSUMDB", "GONOSUMCHECK", "GOMEMLIMIT", "GORACE", "GOMAXPROCS":
			continue
		}
		env = append(env, kv)
	}
	return append(env, "GOFLAGS=-mod=mod", "GOPROXY=off")
}

func buildRace() {
	d := goDir()
	if d == "" {
		raceErr = "cannot locate the harness source directory (go.mod) to build the -race runner"
		return
	}
	// one binary per (harness source tree, zcrypto tree): runs of other workspaces on the same machine must not
	// replace the runner under our feet (each scenario batch executes the path anew)
	h := fnv.New32a()
	h.Write([]byte(d + "|" + os.Getenv("ZV_REPO")))
	final := filepath.Join(os.TempDir(), fmt.Sprintf("zv-c34-racecmd-%08x", h.Sum32()))
	out := fmt.Sprintf("%s.%d", final, os.Getpid())
	cmd := exec.Command("go", "build", "-race", "-tags", "verif", "-o", out, "./props/c34/racecmd")
	cmd.Dir = d
	cmd.Env = goEnv()
	rig.StartLoadMeter()
	b, err := cmd.CombinedOutput()
	if err != nil {
		raceErr = "go build -race failed: " + err.Error() + "\n" + string(b)
		return
	}
	// atomic replace: concurrent runs keep executing the inode they started; no per-run litter in TempDir
	if err := os.Rename(out, final); err != nil {
		raceBin = out
		return
	}
	raceBin = final
}

func runRace(args []string, procs string, limit time.Duration) (stdout, stderr string, err error, timedOut bool) {
	cmd := exec.Command(raceBin, args...)
	cmd.Env = append(goEnv(), "GORACE=halt_on_error=0 exitcode=66", "GOMAXPROCS="+procs)
	var so, se bytes.Buffer
	cmd.Stdout, cmd.Stderr = &so, &se
	if e := cmd.Start(); e != nil {
		return "", "", e, false
	}
	done := make(chan error, 1)
	go func() { done <- cmd.Wait() }()
	stop := make(chan struct{})
	defer close(stop)
	select {
	case err = <-done:
	case <-rig.LoadTimer(limit, 0, stop): // load-corrected
		cmd.Process.Kill()
		<-done
		timedOut = true
	}
	return so.String(), se.String(), err, timedOut
}

var violRe = regexp.MustCompile(`(?m)^VIOL (\d+) (.*)$`)
var scenRe = regexp.MustCompile(`SCENARIO (\d+) (\w+) (\d+)`)

// Symptoms of the TIMING class: anything that a starved machine could produce on a correct tree although every
// limit of the rig is load-corrected — hangs (watchdog, stall, runner limit) and every error text that speaks of a
// timeout (the library's own 5 s close_notify deadline is in real time). They are reported only if the scenario,
// re-run ALONE (no other case of this check running, same GOMAXPROCS), fails the same way in 2 of up to 3 runs.
// Data races and value mismatches (wrong bytes, wrong EOF, HandshakeComplete=false between two successes, …) are
// reported at once. The stale-timeout oracle of the deadline scenarios is a value mismatch: it compares a returned
// timeout with the deadlines the scenario itself had in force.
func timingFamily(v string) string {
	switch {
	case strings.Contains(v, "although no deadline was in force"):
		return ""
	case strings.Contains(v, "deadlock:"), strings.Contains(v, "did not reach EOF"), strings.Contains(v, "stalled:"),
		strings.Contains(v, "runner did not finish"), strings.Contains(v, "rig:"):
		return "hang"
	case strings.Contains(v, "i/o timeout"), strings.Contains(v, "timeout"), strings.Contains(v, "timed out"), strings.Contains(v, "deadline exceeded"):
		return "timeout"
	}
	return ""
}

// raceReport extracts the first data-race report of a runner's stderr ("" if none).
func raceReport(se string) string {
	i := strings.Index(se, "WARNING: DATA RACE")
	if i < 0 {
		return ""
	}
	scen := "?"
	if ms := scenRe.FindAllStringSubmatch(se[:i], -1); len(ms) > 0 {
		scen = strings.Join(ms[len(ms)-1][1:], " ")
	}
	rep := se[i:]
	if j := strings.Index(rep[1:], "=================="); j > 0 {
		rep = rep[:j+1]
	}
	return "data race reported by the race detector in scenario " + scen + " (replay: c34 one " + strings.Fields(scen)[0] + " 1):\n" + summarise(rep)
}

const (
	batchLimit = 600 * time.Second // load-corrected, see runRace
	oneLimit   = 400 * time.Second
)

func execStress(kind, a, b string) zv.Out {
	raceOnce.Do(buildRace)
	if raceErr != "" {
		return zv.Out{Viol: raceErr, Tags: []string{"race-build-failed"}}
	}
	// GOMAXPROCS of the runner: a function of the batch seed, spread over 2 / 4 / 8 / 1
	dsum := 0
	for _, ch := range a {
		dsum += int(ch)
	}
	procs := []string{"2", "4", "8", "1"}[dsum%4]
	args := []string{"batch", a, b}
	if kind == "one" {
		args = []string{"one", a}
	}
	alone.RLock()
	so, se, werr, to := runRace(args, procs, batchLimit)
	alone.RUnlock()
	tags := []string{"stress-batch", "GOMAXPROCS=" + procs}
	tags = append(tags, fmt.Sprintf("scenarios-ok=%s", bucket(strings.Count(so, "\nOK ")+btoi(strings.HasPrefix(so, "OK ")))))
	for _, m := range []string{"graceful 12", "graceful 13", "chaos 12", "chaos 13", "keyupdate 13", "deadline 12", "deadline 13",
		"reneg 10", "reneg 11", "reneg 12", "tail 12", "tail 13"} {
		if strings.Contains(so, " "+m+" ") {
			tags = append(tags, "ran:"+strings.Replace(m, " ", "/tls", 1))
		}
	}
	tags = append(tags, modeTags(so)...)
	if r := raceReport(se); r != "" {
		return zv.Out{Viol: r, Tags: append(tags, "DATA-RACE")}
	}
	// the failing scenario and its symptom
	id, v := "", ""
	if m := violRe.FindStringSubmatch(so); m != nil {
		id, v = m[1], m[2]
	} else if to {
		v = fmt.Sprintf("stress runner did not finish within %v (load-corrected)", batchLimit)
		if ms := scenRe.FindAllStringSubmatch(se, -1); len(ms) > 0 {
			id = ms[len(ms)-1][1]
			v += ": stuck in scenario " + strings.Join(ms[len(ms)-1][1:], " ")
		}
	} else if werr != nil || !strings.Contains(so, "done") {
		return zv.Out{Viol: "stress runner failed: " + fmt.Sprint(werr) + " " + tail(so, 400) + "\n" + tail(se, 1500), Tags: append(tags, "runner-failed")}
	}
	if v == "" {
		return zv.Out{Tags: tags}
	}
	fam := timingFamily(v)
	if fam == "" || kind == "one" || id == "" {
		if id == "" {
			return zv.Out{Viol: v + "\n" + tail(se, 800), Tags: append(tags, "runner-timeout")}
		}
		return zv.Out{Viol: "scenario " + id + " (replay: c34 one " + id + " 1): " + v, Tags: append(tags, "SCENARIO-VIOLATION")}
	}
	// timing class: re-run the scenario alone, up to 3 times; report if it fails the same way twice
	alone.Lock()
	defer alone.Unlock()
	same, runs := 0, 0
	for runs < 3 && same < 2 && runs-same < 2 {
		runs++
		so2, se2, _, to2 := runRace([]string{"one", id}, procs, oneLimit)
		if r := raceReport(se2); r != "" {
			return zv.Out{Viol: r + "\n(isolated re-run after: " + v + ")", Tags: append(tags, "DATA-RACE")}
		}
		v2 := ""
		if m2 := violRe.FindStringSubmatch(so2); m2 != nil {
			v2 = m2[2]
		} else if to2 {
			v2 = "stress runner did not finish"
		}
		switch {
		case v2 == "":
		case timingFamily(v2) == "":
			// a symptom that is not a matter of time: reported as it is
			return zv.Out{Viol: "scenario " + id + " (replay: c34 one " + id + " 1): " + v2 + "\n(isolated re-run after: " + v + ")", Tags: append(tags, "SCENARIO-VIOLATION")}
		case timingFamily(v2) == fam:
			same++
		}
	}
	if same < 2 {
		return zv.Out{Tags: append(tags, "timing-symptom-not-reproduced-in-isolation:"+fam)}
	}
	return zv.Out{Viol: fmt.Sprintf("scenario %s (replay: c34 one %s 1): %s [same symptom in %d of %d isolated re-runs]", id, id, v, same, runs),
		Tags: append(tags, "SCENARIO-VIOLATION")}
}

var (
	kuRe = regexp.MustCompile(`(?m)^OK \d+ keyupdate .* keyupdates=(\d+) requested=(\d+) slowlink=(\d+)`)
	rnRe = regexp.MustCompile(`(?m)^OK \d+ reneg (\d+) .* peer=([\w-]+) policy=(\w+) helloreqs=(\d+) renegs=(\d+) refused=(\d+) writeretries=(\d+)`)
	tlRe = regexp.MustCompile(`(?m)^OK \d+ tail (\d+) .* x=(\w+) resumed=(\w+) slow=\w+ racers=(\S+) disruptive=(\w+) nodeadlines=(\w+) closewriteok=(\w+)`)
	dlRe = regexp.MustCompile(`(?m)^OK \d+ deadline .* timeouts=(\d+) gates=\[([\d ]+)\] gatetimeouts=\[([\d ]+)\] spans=(\d+) alertgates=(\d+) keyupdates=(\d+)`)
)

// modeTags: what the key-update and deadline scenarios of a batch actually exercised (evidence histogram).
func modeTags(so string) []string {
	set := map[string]bool{}
	for _, m := range kuRe.FindAllStringSubmatch(so, -1) {
		if m[1] != "0" {
			set["keyupdate:sent"] = true
		}
		if m[2] != "0" {
			set["keyupdate:update_requested-answered-under-concurrent-writes"] = true
		}
		if m[3] != "0" {
			set["keyupdate:slow-link-for-the-KeyUpdate-record"] = true
		}
	}
	classes := []string{"record-boundary", "inside-header", "after-header", "inside-body", "before-last-byte"}
	for _, m := range dlRe.FindAllStringSubmatch(so, -1) {
		if m[1] != "0" {
			set["deadline:reader-saw-timeout"] = true
		}
		if m[4] != "0" {
			set["deadline:piece-spans-into-next-record-header"] = true
		}
		if m[5] != "0" {
			set["deadline:look-ahead-alert-record-held-back"] = true
		}
		if m[6] != "0" {
			set["deadline:with-key-updates"] = true
		}
		for i, v := range strings.Fields(m[3]) {
			if v != "0" && i < len(classes) {
				set["deadline:fired-while-Read-blocked:"+classes[i]] = true
			}
		}
	}
	for _, m := range rnRe.FindAllStringSubmatch(so, -1) {
		if m[4] != "0" {
			set["reneg:HelloRequest-sent:peer="+m[2]] = true
			set["reneg:policy="+m[3]] = true
		}
		if m[5] != "0" {
			set["reneg:renegotiation-completed-under-concurrent-use"] = true
		}
		if m[6] != "0" {
			set["reneg:declined-by-the-client"] = true
		}
		if m[7] != "0" {
			set["reneg:Write-met-the-cleared-handshake-flag-and-was-retried"] = true
		}
	}
	for _, m := range tlRe.FindAllStringSubmatch(so, -1) {
		end := m[2] + "/tls" + m[1]
		if m[3] == "true" {
			end += "-resumed"
		}
		set["tail:"+end] = true
		for _, k := range strings.Split(m[4], "+") {
			set["tail:racing-call:"+k] = true
		}
		if m[6] == "true" {
			set["tail:transport-ignores-write-deadlines"] = true
		}
		if m[7] == "true" {
			set["tail:CloseWrite-succeeded-while-racing-Handshake:"+end] = true
		}
	}
	var out []string
	for k := range set {
		out = append(out, k)
	}
	sort.Strings(out)
	return out
}

func btoi(b bool) int {
	if b {
		return 1
	}
	return 0
}

func bucket(n int) string {
	if n >= batchSize {
		return fmt.Sprint(batchSize)
	}
	return fmt.Sprintf("<%d", batchSize)
}

func tail(s string, n int) string {
	if len(s) > n {
		return "…" + s[len(s)-n:]
	}
	return s
}

func summarise(rep string) string {
	var out []string
	lines := strings.Split(rep, "\n")
	for i := 0; i < len(lines) && len(out) < 16; i++ {
		l := strings.TrimRight(lines[i], " ")
		if strings.HasPrefix(l, "WARNING") {
			out = append(out, l)
			continue
		}
		if strings.HasPrefix(l, "Read at") || strings.HasPrefix(l, "Write at") || strings.HasPrefix(l, "Previous") {
			out = append(out, l)
			for k := 1; k <= 5 && i+k < len(lines); k++ {
				if strings.TrimSpace(lines[i+k]) == "" {
					break
				}
				out = append(out, "  "+strings.TrimSpace(lines[i+k]))
			}
		}
	}
	return strings.Join(out, "\n")
}
