// Package c34: concurrent use of a zcrypto tls.Conn.
//
//	T2  `c34 seq <ver> <ops>`      deterministic single-goroutine sequences of Handshake/Write/Close/CloseWrite on a
//	                               real Conn over loopback TCP, outcomes compared with the Lean model of the
//	                               activeCall / closeNotify protocol run with one thread
//	T3  `c34 stress <seed> <n>`    n concurrent scenarios in a separately built `-race` binary (race detector,
//	                               deadlock watchdog, byte-stream preservation) — explored, not proved. Scenario
//	                               kinds (by id mod 6): graceful, chaos, keyupdate (rig/ku.go), deadline (rig/dl.go)
package c34

import (
	"bytes"
	"fmt"
	"hash/fnv"
	"os"
	"os/exec"
	"path/filepath"
	"regexp"
	"runtime"
	"sort"
	"strings"
	"sync"
	"time"

	"zv/internal/zv"
	"zv/props/c34/rig"
)

func init() {
	zv.Register(&zv.Prop{
		ID: "C34", Topic: "c34", Gen: gen, Exec: execLine, Timeout: 900 * time.Second,
		Rule: "seq lines: every sequence over {Handshake,Write,Close,CloseWrite} up to length 4 (quick) / 6 (thorough) for TLS 1.2 " +
			"and 1.3 plus random longer ones; stress lines: batches of 12 seeded concurrent scenarios run under the race detector: 2 graceful, " +
			"6 chaos (TLS 1.2 / 1.3), 2 key-update (TLS 1.3: both ends initiate KeyUpdate with/without update_requested at random points " +
			"while both ends read and write; optional slow link for the KeyUpdate record) and 2 deadline scenarios (TLS 1.2 / 1.3: a second " +
			"goroutine fires and clears SetReadDeadline/SetDeadline while a Read is blocked at a chosen split point of a record delivered in " +
			"pieces); non-trivial = sequence containing a Close or CloseWrite, every stress batch",
	})
}

func gen(g *zv.Gen) {
	maxLen := g.N(4, 6)
	var rec func(prefix string)
	rec = func(prefix string) {
		for _, v := range []string{"12", "13"} {
			p := prefix
			if p == "" {
				p = "-"
			}
			g.Emit("c34 seq " + v + " " + p)
		}
		if len(prefix) == maxLen {
			return
		}
		for _, c := range "HWCS" {
			rec(prefix + string(c))
		}
	}
	rec("")
	for i := 0; i < g.N(300, 3000); i++ {
		n := maxLen + 1 + g.Rng.Intn(8)
		b := make([]byte, n)
		for j := range b {
			b[j] = "HWCSWW"[g.Rng.Intn(6)]
		}
		g.Emit(fmt.Sprintf("c34 seq %d %s", 12+g.Rng.Intn(2), b))
	}
	// stress batches: 12 scenarios each
	for i := 0; i < g.N(20, 800); i++ {
		g.Emit(fmt.Sprintf("c34 stress %d 12", 1+g.Rng.Intn(1<<40)))
	}
}

func execLine(line string) zv.Out {
	f := strings.Fields(line)
	if len(f) != 4 || f[0] != "c34" {
		return zv.Out{Go: "bad-op"}
	}
	switch f[1] {
	case "seq":
		ver := 12
		if f[2] == "13" {
			ver = 13
		}
		ops := f[3]
		if ops == "-" {
			ops = ""
		}
		out, err := rig.RunSeq(ver, ops)
		if err != nil {
			// environment trouble (no loopback …) is not a property violation, but must not pass silently either
			return zv.Out{Go: "rig-error", Viol: "rig: " + err.Error(), Tags: []string{"rig-error"}}
		}
		tags := []string{"seq", "tls1." + f[2][1:], fmt.Sprintf("seqlen=%d", len(ops))}
		for _, k := range []string{"closed", "shutdown", "early", "err"} {
			if strings.Contains(out, k) {
				tags = append(tags, "outcome:"+k)
			}
		}
		return zv.Out{Go: out, Tags: tags, Trivial: !strings.ContainsAny(ops, "CS")}
	case "stress", "one":
		return execStress(f[1], f[2], f[3])
	}
	return zv.Out{Go: "bad-op"}
}

// ---- the race-instrumented runner -------------------------------------------------------------

var (
	raceOnce sync.Once
	raceBin  string
	raceErr  string
)

func goDir() string {
	_, file, _, ok := runtime.Caller(0)
	if ok {
		d := filepath.Dir(filepath.Dir(filepath.Dir(file)))
		if _, err := os.Stat(filepath.Join(d, "go.mod")); err == nil {
			return d
		}
	}
	if exe, err := os.Executable(); err == nil {
		d := filepath.Join(filepath.Dir(filepath.Dir(exe)), "go")
		if _, err := os.Stat(filepath.Join(d, "go.mod")); err == nil {
			return d
		}
	}
	return ""
}

func goEnv() []string {
	var env []string
	for _, kv := range os.Environ() {
		switch strings.SplitN(kv, "=", 2)[0] {
		case "GOFLAGS", "GOPROXY", "GOTOOLCHAIN", "GOSUMDB", "GONOSUMDB", "GONOSUMCHECK", "GOMEMLIMIT", "GORACE", "GOMAXPROCS":
			continue
		}
		env = append(env, kv)
	}
	return append(env, "GOFLAGS=-mod=mod", "GOPROXY=off")
}

func buildRace() {
	d := goDir()
	if d == "" {
		raceErr = "cannot locate the harness source directory (go.mod) to build the -race runner"
		return
	}
	// one binary per (harness source tree, zcrypto tree): runs of other workspaces on the same machine must not
	// replace the runner under our feet (each scenario batch executes the path anew)
	h := fnv.New32a()
	h.Write([]byte(d + "|" + os.Getenv("ZV_REPO")))
	final := filepath.Join(os.TempDir(), fmt.Sprintf("zv-c34-racecmd-%08x", h.Sum32()))
	out := fmt.Sprintf("%s.%d", final, os.Getpid())
	cmd := exec.Command("go", "build", "-race", "-tags", "verif", "-o", out, "./props/c34/racecmd")
	cmd.Dir = d
	cmd.Env = goEnv()
	b, err := cmd.CombinedOutput()
	if err != nil {
		raceErr = "go build -race failed: " + err.Error() + "\n" + string(b)
		return
	}
	// atomic replace: concurrent runs keep executing the inode they started; no per-run litter in TempDir
	if err := os.Rename(out, final); err != nil {
		raceBin = out
		return
	}
	raceBin = final
}

func runRace(args []string, procs string, limit time.Duration) (stdout, stderr string, err error, timedOut bool) {
	cmd := exec.Command(raceBin, args...)
	cmd.Env = append(goEnv(), "GORACE=halt_on_error=0 exitcode=66", "GOMAXPROCS="+procs)
	var so, se bytes.Buffer
	cmd.Stdout, cmd.Stderr = &so, &se
	if e := cmd.Start(); e != nil {
		return "", "", e, false
	}
	done := make(chan error, 1)
	go func() { done <- cmd.Wait() }()
	select {
	case err = <-done:
	case <-time.After(limit):
		cmd.Process.Kill()
		<-done
		timedOut = true
	}
	return so.String(), se.String(), err, timedOut
}

var violRe = regexp.MustCompile(`(?m)^VIOL (\d+) (.*)$`)
var scenRe = regexp.MustCompile(`SCENARIO (\d+) (\w+) (\d+)`)

func isTimeoutClass(v string) bool {
	return strings.Contains(v, "deadlock:") || strings.Contains(v, "did not reach EOF")
}

func execStress(kind, a, b string) zv.Out {
	raceOnce.Do(buildRace)
	if raceErr != "" {
		return zv.Out{Viol: raceErr, Tags: []string{"race-build-failed"}}
	}
	// GOMAXPROCS of the runner: a function of the batch seed, spread over 2 / 4 / 8 / 1
	dsum := 0
	for _, ch := range a {
		dsum += int(ch)
	}
	procs := []string{"2", "4", "8", "1"}[dsum%4]
	args := []string{"batch", a, b}
	if kind == "one" {
		args = []string{"one", a}
	}
	so, se, werr, to := runRace(args, procs, 600*time.Second)
	tags := []string{"stress-batch", "GOMAXPROCS=" + procs}
	tags = append(tags, fmt.Sprintf("scenarios-ok=%s", bucket(strings.Count(so, "\nOK ")+btoi(strings.HasPrefix(so, "OK ")))))
	for _, m := range []string{"graceful 12", "graceful 13", "chaos 12", "chaos 13", "keyupdate 13", "deadline 12", "deadline 13"} {
		if strings.Contains(so, " "+m+" ") {
			tags = append(tags, "ran:"+strings.Replace(m, " ", "/tls", 1))
		}
	}
	tags = append(tags, modeTags(so)...)
	if i := strings.Index(se, "WARNING: DATA RACE"); i >= 0 {
		scen := "?"
		if ms := scenRe.FindAllStringSubmatch(se[:i], -1); len(ms) > 0 {
			scen = strings.Join(ms[len(ms)-1][1:], " ")
		}
		rep := se[i:]
		if j := strings.Index(rep[1:], "=================="); j > 0 {
			rep = rep[:j+1]
		}
		return zv.Out{Viol: "data race reported by the race detector in scenario " + scen + " (replay: c34 one " + strings.Fields(scen)[0] + " 1):\n" + summarise(rep),
			Tags: append(tags, "DATA-RACE")}
	}
	if to {
		return zv.Out{Viol: "stress runner did not finish within 600 s\n" + tail(se, 800), Tags: append(tags, "runner-timeout")}
	}
	if m := violRe.FindStringSubmatch(so); m != nil {
		v := m[2]
		if isTimeoutClass(v) && kind != "one" {
			// a stall must reproduce in 2 of 3 runs before it is reported (DESIGN §5a risk 5)
			again := 0
			for k := 0; k < 2; k++ {
				so2, _, _, to2 := runRace([]string{"one", m[1]}, procs, 300*time.Second)
				if m2 := violRe.FindStringSubmatch(so2); to2 || (m2 != nil && isTimeoutClass(m2[2])) {
					again++
				}
			}
			if again == 0 {
				return zv.Out{Tags: append(tags, "stall-not-reproduced")}
			}
			v += fmt.Sprintf(" [reproduced in %d of 2 re-runs]", again)
		}
		return zv.Out{Viol: "scenario " + m[1] + " (replay: c34 one " + m[1] + " 1): " + v, Tags: append(tags, "SCENARIO-VIOLATION")}
	}
	if werr != nil || !strings.Contains(so, "done") {
		return zv.Out{Viol: "stress runner failed: " + fmt.Sprint(werr) + " " + tail(so, 400) + "\n" + tail(se, 1500), Tags: append(tags, "runner-failed")}
	}
	return zv.Out{Tags: tags}
}

var (
	kuRe = regexp.MustCompile(`(?m)^OK \d+ keyupdate .* keyupdates=(\d+) requested=(\d+) slowlink=(\d+)`)
	dlRe = regexp.MustCompile(`(?m)^OK \d+ deadline .* timeouts=(\d+) gates=\[([\d ]+)\] gatetimeouts=\[([\d ]+)\] spans=(\d+) alertgates=(\d+) keyupdates=(\d+)`)
)

// modeTags: what the key-update and deadline scenarios of a batch actually exercised (evidence histogram).
func modeTags(so string) []string {
	set := map[string]bool{}
	for _, m := range kuRe.FindAllStringSubmatch(so, -1) {
		if m[1] != "0" {
			set["keyupdate:sent"] = true
		}
		if m[2] != "0" {
			set["keyupdate:update_requested-answered-under-concurrent-writes"] = true
		}
		if m[3] != "0" {
			set["keyupdate:slow-link-for-the-KeyUpdate-record"] = true
		}
	}
	classes := []string{"record-boundary", "inside-header", "after-header", "inside-body", "before-last-byte"}
	for _, m := range dlRe.FindAllStringSubmatch(so, -1) {
		if m[1] != "0" {
			set["deadline:reader-saw-timeout"] = true
		}
		if m[4] != "0" {
			set["deadline:piece-spans-into-next-record-header"] = true
		}
		if m[5] != "0" {
			set["deadline:look-ahead-alert-record-held-back"] = true
		}
		if m[6] != "0" {
			set["deadline:with-key-updates"] = true
		}
		for i, v := range strings.Fields(m[3]) {
			if v != "0" && i < len(classes) {
				set["deadline:fired-while-Read-blocked:"+classes[i]] = true
			}
		}
	}
	var out []string
	for k := range set {
		out = append(out, k)
	}
	sort.Strings(out)
	return out
}

func btoi(b bool) int {
	if b {
		return 1
	}
	return 0
}

func bucket(n int) string {
	if n >= 12 {
		return "12"
	}
	return "<12"
}

func tail(s string, n int) string {
	if len(s) > n {
		return "…" + s[len(s)-n:]
	}
	return s
}

func summarise(rep string) string {
	var out []string
	lines := strings.Split(rep, "\n")
	for i := 0; i < len(lines) && len(out) < 16; i++ {
		l := strings.TrimRight(lines[i], " ")
		if strings.HasPrefix(l, "WARNING") {
			out = append(out, l)
			continue
		}
		if strings.HasPrefix(l, "Read at") || strings.HasPrefix(l, "Write at") || strings.HasPrefix(l, "Previous") {
			out = append(out, l)
			for k := 1; k <= 5 && i+k < len(lines); k++ {
				if strings.TrimSpace(lines[i+k]) == "" {
					break
				}
				out = append(out, "  "+strings.TrimSpace(lines[i+k]))
			}
		}
	}
	return strings.Join(out, "\n")
}
