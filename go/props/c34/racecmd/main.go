// racecmd runs C34 stress scenarios; it is built with `go build -race -tags verif` by the harness, which
// searches its stderr for race reports and its stdout for VIOL lines.
//
//	racecmd batch <seed> <count>     scenarios seed*1000 … seed*1000+count-1
//	racecmd one <id>                 a single scenario
package main

import (
	"fmt"
	"os"
	"strconv"
	"time"

	"zv/props/c34/rig"
)

func run(id uint64) bool {
	// of 6 consecutive ids: 1 graceful, 3 chaos, 1 keyupdate (TLS 1.3 only), 1 deadline
	mode := []string{"graceful", "chaos", "chaos", "keyupdate", "deadline", "chaos"}[id%6]
	ver := 12 + int(id>>1)%2
	if mode == "keyupdate" {
		ver = 13
	}
	fmt.Fprintf(os.Stderr, "SCENARIO %d %s %d\n", id, mode, ver)
	var v string
	var st rig.Stats
	extra := ""
	t0 := time.Now()
	switch mode {
	case "keyupdate":
		v, st = rig.RunKeyUpdateScenario(id, 45*time.Second)
		extra = fmt.Sprintf(" keyupdates=%d requested=%d slowlink=%d", st.KeyUpdates, st.KeyUpdateReqs, st.Delayed)
	case "deadline":
		v, st = rig.RunDeadlineScenario(id, ver, 45*time.Second)
		extra = fmt.Sprintf(" timeouts=%d gates=%v gatetimeouts=%v spans=%d alertgates=%d keyupdates=%d", st.Timeouts, st.Gates, st.GateTimeouts, st.Spans, st.AlertGates, st.KeyUpdates)
	default:
		v, st = rig.RunScenario(id, mode, ver, 45*time.Second)
	}
	if v != "" {
		fmt.Printf("VIOL %d %s tls1.%d: %s\n", id, mode, ver-10, v)
		return false
	}
	fmt.Printf("OK %d %s %d workers=%d writes=%d bytes=%d%s ms=%d\n", id, mode, ver, st.Workers, st.Writes, st.Bytes, extra, time.Since(t0).Milliseconds())
	return true
}

func main() {
	if len(os.Args) == 3 && os.Args[1] == "one" {
		id, _ := strconv.ParseUint(os.Args[2], 10, 64)
		run(id)
		fmt.Println("done")
		return
	}
	if len(os.Args) != 4 || os.Args[1] != "batch" {
		fmt.Println("usage")
		os.Exit(2)
	}
	seed, _ := strconv.ParseUint(os.Args[2], 10, 64)
	n, _ := strconv.Atoi(os.Args[3])
	for i := 0; i < n; i++ {
		if !run(seed*1000 + uint64(i)) {
			break // leaked goroutines of a failed scenario would disturb the next one
		}
	}
	fmt.Println("done")
}
