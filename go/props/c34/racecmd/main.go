// racecmd runs C34 stress scenarios; it is built with `go build -race -tags verif` by the harness, which
// searches its stderr for race reports and its stdout for VIOL lines.
//
//	racecmd batch <seed> <count>     scenarios seed*1000 … seed*1000+count-1
//	racecmd one <id>                 a single scenario
//	racecmd only <mode> <seed> <n>   the first n scenarios of one kind from seed*1000 on
package main

import (
	"fmt"
	"os"
	"strconv"
	"strings"
	"time"

	"zv/props/c34/rig"
)

func modeOf(id uint64) string {
	return []string{"graceful", "chaos", "reneg", "keyupdate", "deadline", "chaos", "tail", "chaos", "reneg", "tail"}[id%10]
}

func run(id uint64) bool {
	// of 10 consecutive ids: 1 graceful, 3 chaos, 1 keyupdate (TLS 1.3 only), 1 deadline, 2 reneg (TLS 1.0-1.2), 2 tail
	mode := modeOf(id)
	ver := 12 + int(id>>1)%2
	tailX := 0
	switch mode {
	case "keyupdate":
		ver = 13
	case "reneg":
		ver = rig.RenegVersion(id)
	case "tail":
		ver, tailX = rig.TailParams(id)
	}
	fmt.Fprintf(os.Stderr, "SCENARIO %d %s %d (load factor %.1f)\n", id, mode, ver, rig.LoadFactor())
	var v string
	var st rig.Stats
	extra := ""
	t0 := time.Now()
	switch mode {
	case "keyupdate":
		v, st = rig.RunKeyUpdateScenario(id, 45*time.Second)
		extra = fmt.Sprintf(" keyupdates=%d requested=%d slowlink=%d", st.KeyUpdates, st.KeyUpdateReqs, st.Delayed)
	case "deadline":
		v, st = rig.RunDeadlineScenario(id, ver, 45*time.Second)
		extra = fmt.Sprintf(" timeouts=%d gates=%v gatetimeouts=%v spans=%d alertgates=%d keyupdates=%d", st.Timeouts, st.Gates, st.GateTimeouts, st.Spans, st.AlertGates, st.KeyUpdates)
	case "reneg":
		v, st = rig.RunRenegScenario(id, ver, 30*time.Second)
		extra = fmt.Sprintf(" peer=%s policy=%s helloreqs=%d renegs=%d refused=%d writeretries=%d", st.RenegMode, st.RenegPolicy, st.HelloReqs, st.Renegs, st.Refused, st.WriteRetries)
	case "tail":
		v, st = rig.RunTailScenario(id, ver, tailX, 30*time.Second)
		extra = fmt.Sprintf(" x=%s resumed=%v slow=%s racers=%s disruptive=%v nodeadlines=%v closewriteok=%v", st.TailX, st.TailResumed, st.TailWhere, strings.ReplaceAll(strings.Join(st.TailKinds, "+"), " ", ""), st.TailDisruptive, st.TailNoDeadlines, st.TailCloseWriteOK)
	default:
		v, st = rig.RunScenario(id, mode, ver, 45*time.Second)
	}
	if v != "" {
		fmt.Printf("VIOL %d %s tls1.%d: %s\n", id, mode, ver-10, v)
		return false
	}
	fmt.Printf("OK %d %s %d workers=%d writes=%d bytes=%d%s ms=%d\n", id, mode, ver, st.Workers, st.Writes, st.Bytes, extra, time.Since(t0).Milliseconds())
	return true
}

func main() {
	rig.StartLoadMeter()
	if len(os.Args) == 3 && os.Args[1] == "one" {
		id, _ := strconv.ParseUint(os.Args[2], 10, 64)
		run(id)
		fmt.Println("done")
		return
	}
	if len(os.Args) == 5 && os.Args[1] == "only" {
		// development aid: the first <count> scenarios of kind <mode> from seed*1000 on
		seed, _ := strconv.ParseUint(os.Args[3], 10, 64)
		n, _ := strconv.Atoi(os.Args[4])
		for id := seed * 1000; n > 0; id++ {
			if modeOf(id) == os.Args[2] {
				n--
				if !run(id) {
					break
				}
			}
		}
		fmt.Println("done")
		return
	}
	if len(os.Args) != 4 || os.Args[1] != "batch" {
		fmt.Println("usage")
		os.Exit(2)
	}
	seed, _ := strconv.ParseUint(os.Args[2], 10, 64)
	n, _ := strconv.Atoi(os.Args[3])
	for i := 0; i < n; i++ {
		if !run(seed*1000 + uint64(i)) {
			break // leaked goroutines of a failed scenario would disturb the next one
		}
	}
	fmt.Println("done")
}
