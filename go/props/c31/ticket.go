package c31

// Ticket stream of C31: correspondence (T2) of the Lean model ZV.Model.C31 with the real
// encryptTicket / decryptTicket / sessionState(TLS13).marshal+unmarshal / checkForResumption (1.2, 1.3) /
// Config.ticketKeys through the hook tls/zv_c31_verif.go, and the T3 oracles that need no handshake:
// an independent implementation of the ticket format (crypto/aes CTR + crypto/hmac written from the
// layout), decrypt(encrypt(s)) = s, "altered / foreign / rotated-out tickets are never accepted".
//
// Line formats (hex lower case, "-" = empty, lists joined by ","):
//   c31 key <k32>                                              -> <name> <aes> <mac>
//   c31 setkeys <keys>                                         -> panic | <name>,…
//   c31 enc <keys> <iv> <state> <ks>                           -> ok <ticket> | err
//   c31 dec <keys> <ticket> <oracle> <expect>                  -> ok <plaintext> <old> | none
//   c31 m12 <vers> <suite> <createdAt> <ms> <certs>            -> <bytes> | panic
//   c31 u12 <bytes>                                            -> ok <vers> <suite> <createdAt> <ms> <certs> | err
//   c31 m13 <suite> <createdAt> <secret> <certs> <ocsp> <scts> -> <bytes> | panic
//   c31 u13 <bytes>                                            -> ok <suite> <createdAt> <secret> <certs> <ocsp> <scts> | err
//   c31 res12 <keys> <ticket> <oracle> <disabled> <now> <vers> <helloVers> <clientSuites> <serverSuites> <auth> <flags> <expect>
//                                                              -> full | resume <suite> <old> <vers> <createdAt> <ms> <certs>
//     vers = c.vers, the version NEGOTIATED for the connection; helloVers = hs.clientHello.vers, the version the
//     client OFFERED (its maximum).  The two are chosen independently: the decision must follow vers only.
//   c31 res13 <keys> <disabled> <now> <suite> <modes> <auth> <nbinders> <id>;<id>… <expect>   id = <ticket>/<oracle>/<secret|n>
//                                                              -> none | psk <i> | err <didResume>
//   c31 rot <cfg> <cfc|n> <chunks> <times>    cfg = <disabled>/<legacy32|->/<keys>   -> per call <name8>@<created>,… joined by ";" | panic
// oracle = <aeskey>:<iv>:<keystream> for the key whose name the ticket carries (AES-CTR is not modelled; its
// keystream is handed to the model as a value), "-" when no key of the list has that name.
// expect (ignored by the model): v = valid under current key, o = valid under an old key, x = must be rejected /
// must not resume, r = must resume, ? = no expectation.

import (
	"bytes"
	"crypto/aes"
	"crypto/cipher"
	"crypto/hmac"
	"crypto/sha256"
	"crypto/sha512"
	"fmt"
	"io"
	"net"
	"strconv"
	"strings"
	"time"

	"github.com/zmap/zcrypto/tls"

	"zv/internal/zv"
)

// ---------- small codecs ----------

func hexList(l [][]byte) string {
	if len(l) == 0 {
		return "-"
	}
	var ss []string
	for _, b := range l {
		if len(b) == 0 {
			ss = append(ss, "_")
		} else {
			ss = append(ss, zv.Hex(b))
		}
	}
	return strings.Join(ss, ",")
}

func unHexList(s string) [][]byte {
	if s == "-" {
		return nil
	}
	var out [][]byte
	for _, x := range strings.Split(s, ",") {
		if x == "_" {
			out = append(out, []byte{})
		} else {
			out = append(out, zv.UnHex(x))
		}
	}
	return out
}

// optional values: "n" = nil
func optHex(b []byte) string {
	if b == nil {
		return "n"
	}
	return zv.Hex(b)
}
func unOptHex(s string) []byte {
	if s == "n" {
		return nil
	}
	if s == "-" {
		return []byte{}
	}
	return zv.UnHex(s)
}
func optHexList(l [][]byte) string {
	if l == nil {
		return "n"
	}
	return hexList(l)
}
func unOptHexList(s string) [][]byte {
	if s == "n" {
		return nil
	}
	if s == "-" {
		return [][]byte{}
	}
	return unHexList(s)
}

func u16List(l []uint16) string {
	if len(l) == 0 {
		return "-"
	}
	var ss []string
	for _, x := range l {
		ss = append(ss, strconv.Itoa(int(x)))
	}
	return strings.Join(ss, ",")
}
func unU16List(s string) []uint16 {
	out := []uint16{}
	if s == "-" {
		return out
	}
	for _, x := range strings.Split(s, ",") {
		n, err := strconv.Atoi(x)
		if err != nil {
			panic("bad number " + x)
		}
		out = append(out, uint16(n))
	}
	return out
}

func keysStr(keys [][32]byte) string {
	if len(keys) == 0 {
		return "-"
	}
	var ss []string
	for _, k := range keys {
		ss = append(ss, zv.Hex(k[:]))
	}
	return strings.Join(ss, ",")
}
func unKeys(s string) [][32]byte {
	var out [][32]byte
	if s == "-" {
		return out
	}
	for _, x := range strings.Split(s, ",") {
		var k [32]byte
		b := zv.UnHex(x)
		if len(b) != 32 {
			panic("key material must be 32 bytes")
		}
		copy(k[:], b)
		out = append(out, k)
	}
	return out
}

func b01(b bool) string {
	if b {
		return "1"
	}
	return "0"
}

// ---------- independent reference implementation of the ticket format ----------

type refKey struct{ name, aes, mac []byte }

func refKeyOf(k [32]byte) refKey {
	h := sha512.Sum512(k[:])
	return refKey{h[0:16], h[16:32], h[32:48]}
}

func keystream(aesKey, iv []byte, n int) []byte {
	blk, err := aes.NewCipher(aesKey)
	if err != nil {
		panic(err)
	}
	out := make([]byte, n)
	cipher.NewCTR(blk, iv).XORKeyStream(out, out)
	return out
}

func refEncrypt(keys [][32]byte, iv, state []byte) []byte {
	if len(keys) == 0 {
		return nil
	}
	k := refKeyOf(keys[0])
	ks := keystream(k.aes, iv, len(state))
	t := append(append([]byte{}, k.name...), iv...)
	for i := range state {
		t = append(t, state[i]^ks[i])
	}
	m := hmac.New(sha256.New, k.mac)
	m.Write(t)
	return m.Sum(t)
}

// refDecrypt: (plaintext, index of the key) or (nil, -1).
func refDecrypt(keys [][32]byte, t []byte) ([]byte, int) {
	if len(t) < 16+16+32 {
		return nil, -1
	}
	for i, km := range keys {
		k := refKeyOf(km)
		if !bytes.Equal(k.name, t[:16]) {
			continue
		}
		m := hmac.New(sha256.New, k.mac)
		m.Write(t[:len(t)-32])
		if !hmac.Equal(m.Sum(nil), t[len(t)-32:]) {
			return nil, -1
		}
		ct := t[32 : len(t)-32]
		ks := keystream(k.aes, t[16:32], len(ct))
		pt := make([]byte, len(ct))
		for j := range ct {
			pt[j] = ct[j] ^ ks[j]
		}
		return pt, i
	}
	return nil, -1
}

// oracleFor: the keystream value handed to the model for this (key list, ticket).
func oracleFor(keys [][32]byte, t []byte) string {
	if len(t) < 64 {
		return "-"
	}
	for _, km := range keys {
		k := refKeyOf(km)
		if bytes.Equal(k.name, t[:16]) {
			return zv.Hex(k.aes) + ":" + zv.Hex(t[16:32]) + ":" + zv.Hex(keystream(k.aes, t[16:32], len(t)-64))
		}
	}
	return "-"
}

// ---------- building the receiver of the real code ----------

type nullConn struct{}

func (nullConn) Read(p []byte) (int, error)         { return 0, io.EOF }
func (nullConn) Write(p []byte) (int, error)        { return len(p), nil }
func (nullConn) Close() error                       { return nil }
func (nullConn) LocalAddr() net.Addr                { return nil }
func (nullConn) RemoteAddr() net.Addr               { return nil }
func (nullConn) SetDeadline(t time.Time) error      { return nil }
func (nullConn) SetReadDeadline(t time.Time) error  { return nil }
func (nullConn) SetWriteDeadline(t time.Time) error { return nil }

type connParams struct {
	keys     [][32]byte
	disabled bool
	now      int64
	vers     uint16
	suites   []uint16
	auth     int
	rand     []byte // bytes config.rand() yields AFTER the 32 bytes the legacy-key initialisation consumes
}

// newConn goes through the public Config API (SetSessionTicketKeys) and the real Config.ticketKeys.
func newConn(p connParams) *tls.Conn {
	filler := bytes.Repeat([]byte{0xa5}, 32)
	cfg := &tls.Config{
		Rand:                   bytes.NewReader(append(filler, p.rand...)),
		Time:                   func() time.Time { return time.Unix(p.now, 0) },
		SessionTicketsDisabled: len(p.keys) == 0,
		CipherSuites:           p.suites,
		ClientAuth:             tls.ClientAuthType(p.auth),
	}
	if len(p.keys) > 0 {
		cfg.SetSessionTicketKeys(p.keys)
	}
	c := tls.ZVC31Conn(nullConn{}, cfg, p.vers)
	// the flag is read again by checkForResumption; set after the key list was fetched so that the
	// guard itself (not the empty key list a disabled Config yields) decides
	if p.disabled {
		cfg.SessionTicketsDisabled = true
	}
	return c
}

// ---------- Exec ----------

func catchPanic(f func() string) (out string) {
	defer func() {
		if r := recover(); r != nil {
			out = "panic"
		}
	}()
	return f()
}

func state12Str(s *tls.ZVC31State) string {
	return fmt.Sprintf("%d %d %d %s %s", s.Vers, s.CipherSuite, s.CreatedAt, zv.Hex(s.MasterSecret), hexList(s.Certificates))
}

func execTicket(line string) zv.Out {
	f := strings.Fields(line)
	if len(f) < 2 {
		return zv.Out{Trivial: true}
	}
	switch f[1] {
	case "key":
		var k [32]byte
		copy(k[:], zv.UnHex(f[2]))
		n, a, m := tls.ZVC31TicketKey(k)
		r := refKeyOf(k)
		viol := ""
		if !bytes.Equal(n, r.name) || !bytes.Equal(a, r.aes) || !bytes.Equal(m, r.mac) {
			viol = "ticketKeyFromBytes differs from SHA-512 slicing (name|aes|hmac = bytes 0..16|16..32|32..48)"
		}
		return zv.Out{Go: zv.Hex(n) + " " + zv.Hex(a) + " " + zv.Hex(m), Viol: viol, Tags: []string{"key"}}
	case "setkeys":
		keys := unKeys(f[2])
		out := catchPanic(func() string {
			cfg := &tls.Config{Rand: bytes.NewReader(make([]byte, 64)), Time: func() time.Time { return time.Unix(1, 0) }}
			cfg.SetSessionTicketKeys(keys)
			ks, _ := tls.ZVC31Keys(cfg, nil)
			var ss []string
			for _, k := range ks {
				ss = append(ss, zv.Hex(k[0]))
			}
			return strings.Join(ss, ",")
		})
		viol := ""
		if (out == "panic") != (len(keys) == 0) {
			viol = "SetSessionTicketKeys: panic iff the key list is empty does not hold"
		}
		return zv.Out{Go: out, Viol: viol, Tags: []string{"setkeys", fmt.Sprintf("setkeys:n=%d", len(keys))}}
	case "enc":
		return execEnc(f)
	case "dec":
		return execDec(f)
	case "m12":
		return execM12(f)
	case "u12":
		st, ok := tls.ZVC31UnmarshalState(zv.UnHex(f[2]), false)
		if !ok {
			return zv.Out{Go: "err", Tags: []string{"u12:err"}}
		}
		// T3: an accepted encoding re-marshals to itself (the parser accepts only the encoder's image)
		viol := ""
		if !bytes.Equal(tls.ZVC31MarshalState(st), zv.UnHex(f[2])) {
			viol = "sessionState: unmarshal accepted bytes that marshal does not reproduce"
		}
		return zv.Out{Go: "ok " + state12Str(st), Viol: viol, Tags: []string{"u12:ok", fmt.Sprintf("u12:certs=%d", len(st.Certificates))}}
	case "m13":
		return execM13(f)
	case "u13":
		st, ok := tls.ZVC31UnmarshalState13(zv.UnHex(f[2]))
		if !ok {
			return zv.Out{Go: "err", Tags: []string{"u13:err"}}
		}
		tags := []string{"u13:ok", fmt.Sprintf("u13:certs=%d", len(st.Certificates))}
		if st.OCSPStaple != nil {
			tags = append(tags, "u13:ocsp")
		}
		if st.SCTs != nil {
			tags = append(tags, "u13:scts")
		}
		return zv.Out{Go: fmt.Sprintf("ok %d %d %s %s %s %s", st.CipherSuite, st.CreatedAt, zv.Hex(st.ResumptionSecret),
			hexList(st.Certificates), optHex(st.OCSPStaple), hexList(st.SCTs)), Tags: tags}
	case "res12":
		return execRes12(f)
	case "res13":
		return execRes13(f)
	case "rot":
		return execRot(f)
	}
	return zv.Out{Trivial: true}
}

func execEnc(f []string) zv.Out {
	keys, iv, state, ks := unKeys(f[2]), zv.UnHex(f[3]), zv.UnHex(f[4]), zv.UnHex(f[5])
	c := newConn(connParams{keys: keys, rand: iv, now: 1700000000, vers: tls.VersionTLS12})
	t, err := tls.ZVC31Encrypt(c, state)
	if err != nil {
		viol := ""
		if len(keys) != 0 {
			viol = "encryptTicket failed although ticket keys are configured: " + err.Error()
		}
		return zv.Out{Go: "err", Viol: viol, Tags: []string{"enc:err"}}
	}
	viol := ""
	if len(keys) == 0 {
		viol = "encryptTicket succeeded without ticket keys"
	} else {
		k := refKeyOf(keys[0])
		if !bytes.Equal(ks, keystream(k.aes, iv, len(state))) {
			viol = "harness: keystream on the line is not AES-CTR(aesKey of keys[0], iv)"
		} else if ref := refEncrypt(keys, iv, state); !bytes.Equal(ref, t) {
			viol = "encryptTicket output differs from the reference ticket name|iv|AES-CTR(state)|HMAC-SHA256(name|iv|ct): " + zv.Hex(ref)
		} else if pt, old := tls.ZVC31Decrypt(c, t); pt == nil || !bytes.Equal(pt, state) || old {
			viol = fmt.Sprintf("decryptTicket(encryptTicket(s)) != (s,false): got %s old=%v", zv.Hex(pt), old)
		} else if len(t) > 0 {
			// a flipped bit anywhere must be rejected
			m := append([]byte{}, t...)
			pos := (int(iv[0])*256 + int(iv[1])) % len(m)
			m[pos] ^= 1 << (iv[2] % 8)
			if pt, _ := tls.ZVC31Decrypt(c, m); pt != nil {
				viol = fmt.Sprintf("ticket with bit flipped at byte %d accepted", pos)
			}
		}
	}
	return zv.Out{Go: "ok " + zv.Hex(t), Viol: viol, Tags: []string{"enc:ok", fmt.Sprintf("enc:nkeys=%d", len(keys)), fmt.Sprintf("enc:len<=%d", (len(state)/32+1)*32)}}
}

func execDec(f []string) zv.Out {
	keys, t, oracle, expect := unKeys(f[2]), zv.UnHex(f[3]), f[4], f[5]
	c := newConn(connParams{keys: keys, now: 1700000000, vers: tls.VersionTLS12})
	pt, old := tls.ZVC31Decrypt(c, t)
	rpt, ridx := refDecrypt(keys, t)
	viol := ""
	switch {
	case oracle != oracleFor(keys, t):
		viol = "harness: keystream oracle on the line does not belong to this (keys, ticket)"
	case (pt == nil) != (rpt == nil) || !bytes.Equal(pt, rpt) || old != (ridx > 0):
		viol = fmt.Sprintf("decryptTicket = (%s,%v) but the reference ticket format gives (%s, key index %d)", zv.Hex(pt), old, zv.Hex(rpt), ridx)
	case expect == "x" && pt != nil:
		viol = "altered / foreign / rotated-out ticket was accepted by decryptTicket"
	case expect == "v" && (pt == nil || old):
		viol = "ticket issued under the current key: expected (plaintext,false)"
	case expect == "o" && (pt == nil || !old):
		viol = "ticket issued under an old key still in the list: expected (plaintext,true)"
	}
	tags := []string{"dec:expect=" + expect}
	out := "none"
	if pt != nil {
		out = "ok " + zv.Hex(pt) + " " + b01(old)
		tags = append(tags, "dec:ok old="+b01(old))
	} else {
		switch {
		case len(t) < 64:
			tags = append(tags, "dec:none short")
		case oracle == "-":
			tags = append(tags, "dec:none no-key")
		default:
			tags = append(tags, "dec:none bad-mac")
		}
	}
	return zv.Out{Go: out, Viol: viol, Tags: tags}
}

func execM12(f []string) zv.Out {
	vers, _ := strconv.Atoi(f[2])
	suite, _ := strconv.Atoi(f[3])
	created, _ := strconv.ParseUint(f[4], 10, 64)
	st := &tls.ZVC31State{Vers: uint16(vers), CipherSuite: uint16(suite), CreatedAt: created, MasterSecret: zv.UnHex(f[5]), Certificates: unHexList(f[6])}
	viol := ""
	out := catchPanic(func() string {
		b := tls.ZVC31MarshalState(st)
		back, ok := tls.ZVC31UnmarshalState(b, false)
		if len(st.MasterSecret) == 0 {
			if ok {
				viol = "sessionState with empty master secret unmarshals"
			}
		} else if !ok || state12Str(back) != state12Str(st) {
			viol = "sessionState: unmarshal(marshal(s)) != s"
		}
		return zv.Hex(b)
	})
	if out == "panic" && len(st.MasterSecret) < 65536 {
		viol = "sessionState.marshal panicked on a state within the field bounds"
	}
	return zv.Out{Go: out, Viol: viol, Tags: []string{"m12", fmt.Sprintf("m12:certs=%d", len(st.Certificates))}}
}

func execM13(f []string) zv.Out {
	suite, _ := strconv.Atoi(f[2])
	created, _ := strconv.ParseUint(f[3], 10, 64)
	st := &tls.ZVC31State13{CipherSuite: uint16(suite), CreatedAt: created, ResumptionSecret: zv.UnHex(f[4]),
		Certificates: unHexList(f[5]), OCSPStaple: unOptHex(f[6]), SCTs: unOptHexList(f[7])}
	out := catchPanic(func() string { return zv.Hex(tls.ZVC31MarshalState13(st)) })
	viol := ""
	if out == "panic" && len(st.ResumptionSecret) < 256 {
		viol = "sessionStateTLS13.marshal panicked on a state within the field bounds"
	}
	return zv.Out{Go: out, Viol: viol, Tags: []string{"m13", fmt.Sprintf("m13:certs=%d", len(st.Certificates))}}
}

func hasU16(l []uint16, x uint16) bool {
	for _, y := range l {
		if x == y {
			return true
		}
	}
	return false
}

func execRes12(f []string) zv.Out {
	keys, t, oracle := unKeys(f[2]), zv.UnHex(f[3]), f[4]
	disabled := f[5] == "1"
	now, _ := strconv.ParseInt(f[6], 10, 64)
	vers, _ := strconv.Atoi(f[7])
	hvers, _ := strconv.Atoi(f[8])
	cs, ss := unU16List(f[9]), unU16List(f[10])
	auth, _ := strconv.Atoi(f[11])
	flags, _ := strconv.Atoi(f[12])
	expect := f[13]
	c := newConn(connParams{keys: keys, disabled: disabled, now: now, vers: uint16(vers), suites: ss, auth: auth})
	resume, suite, st := tls.ZVC31Check12V(c, uint16(hvers), t, cs, flags&8 != 0, flags&4 != 0, flags&2 != 0, flags&1 != 0)
	rpt, ridx := refDecrypt(keys, t)
	viol := ""
	out := "full"
	tags := []string{"res12:expect=" + expect}
	switch {
	case hvers == vers:
		tags = append(tags, "res12:offered=negotiated")
	case hvers > vers:
		tags = append(tags, "res12:offered>negotiated")
	default:
		tags = append(tags, "res12:offered<negotiated")
	}
	// the ticket's own version (reference decryption; sessionState starts with uint16 vers)
	tvers := -1
	if len(rpt) >= 2 {
		tvers = int(rpt[0])<<8 | int(rpt[1])
	}
	if tvers >= 0 && tvers != vers && tvers == hvers {
		tags = append(tags, "res12:ticket-version=offered≠negotiated")
	}
	if oracle != oracleFor(keys, t) {
		viol = "harness: keystream oracle on the line does not belong to this (keys, ticket)"
	}
	if resume {
		out = fmt.Sprintf("resume %d %s %s", suite, b01(st.UsedOldKey), state12Str(st))
		tags = append(tags, "res12:resume old="+b01(st.UsedOldKey))
		switch {
		case rpt == nil:
			viol = "resumption from a ticket the reference ticket format rejects (not authentic under a current key)"
		case disabled:
			viol = "resumption although SessionTicketsDisabled"
		case st == nil || !bytes.Equal(tls.ZVC31MarshalState(st), rpt):
			viol = "resumed session state is not the content of the presented ticket"
		case st.Vers != uint16(vers):
			viol = fmt.Sprintf("resumed a version %#x session on a connection that negotiated %#x (client offered %#x)", st.Vers, vers, hvers)
		case suite != st.CipherSuite || !hasU16(cs, suite) || !hasU16(ss, suite):
			viol = fmt.Sprintf("resumed with suite %#x; session has %#x, must be offered by the client and configured on the server", suite, st.CipherSuite)
		case st.UsedOldKey != (ridx > 0):
			viol = "usedOldKey wrong"
		case now-int64(st.CreatedAt) > 7*24*3600 && int64(st.CreatedAt) >= 0 && st.CreatedAt < 1<<40:
			viol = "resumed from a ticket older than maxSessionTicketLifetime"
		case expect == "x":
			viol = "scenario that must not resume was resumed"
		}
	} else {
		tags = append(tags, "res12:full")
		if expect == "r" {
			viol = fmt.Sprintf("valid ticket in a matching scenario did not resume (ticket version %#x, negotiated %#x, client offered %#x)", tvers, vers, hvers)
		}
	}
	return zv.Out{Go: out, Viol: viol, Tags: tags}
}

var hash13 = map[uint16]int{0x1301: 256, 0x1302: 384, 0x1303: 256}

func execRes13(f []string) zv.Out {
	keys := unKeys(f[2])
	disabled := f[3] == "1"
	now, _ := strconv.ParseInt(f[4], 10, 64)
	suite, _ := strconv.Atoi(f[5])
	modes := zv.UnHex(f[6])
	auth, _ := strconv.Atoi(f[7])
	nb, _ := strconv.Atoi(f[8])
	expect := f[10]
	var labels, secrets [][]byte
	var ages []uint32
	viol := ""
	if f[9] != "-" {
		for _, id := range strings.Split(f[9], ";") {
			p := strings.Split(id, "/")
			l := zv.UnHex(p[0])
			labels = append(labels, l)
			secrets = append(secrets, unOptHex(p[2]))
			if len(p) == 4 {
				a, _ := strconv.ParseUint(p[3], 10, 32)
				for len(ages) < len(labels)-1 {
					ages = append(ages, 0)
				}
				ages = append(ages, uint32(a))
			}
			if p[1] != oracleFor(keys, l) {
				viol = "harness: keystream oracle on the line does not belong to this (keys, ticket)"
			}
		}
	}
	c := newConn(connParams{keys: keys, disabled: disabled, now: now, vers: tls.VersionTLS13, auth: auth})
	var err error
	var using, did bool
	var sel uint16
	tags := []string{"res13:expect=" + expect, fmt.Sprintf("res13:ids=%d", len(labels))}
	if ages == nil {
		err, using, sel, did = tls.ZVC31Check13(c, uint16(suite), modes, labels, secrets, nb)
		tags = append(tags, "res13:ages=absent")
	} else {
		err, using, sel, did = tls.ZVC31Check13A(c, uint16(suite), modes, labels, ages, secrets, nb)
		for _, a := range ages {
			switch {
			case a == 0:
				tags = append(tags, "res13:age=0")
			case a <= 604800000:
				tags = append(tags, "res13:age<=7d")
			default:
				tags = append(tags, "res13:age>7d")
			}
		}
	}
	out := "none"
	switch {
	case err != nil:
		out = "err " + b01(did)
		tags = append(tags, "res13:err didResume="+b01(did))
	case using:
		out = fmt.Sprintf("psk %d", sel)
		tags = append(tags, fmt.Sprintf("res13:psk %d", sel))
	default:
		tags = append(tags, "res13:none")
	}
	if did && viol == "" { // a PSK was accepted (binder verified)
		i := int(sel)
		if err != nil { // selectedIdentity is only set on success; find the accepted one = first authentic, parseable ticket is enough for the oracle
			i = -1
		}
		switch {
		case disabled:
			viol = "PSK accepted although SessionTicketsDisabled"
		case expect == "x":
			viol = "scenario that must not resume accepted a PSK"
		case i >= 0:
			rpt, _ := refDecrypt(keys, labels[i])
			if rpt == nil {
				viol = "PSK accepted from a ticket the reference ticket format rejects (not authentic under a current key)"
			} else if st, ok := tls.ZVC31UnmarshalState13(rpt); !ok {
				viol = "PSK accepted from a ticket whose content does not parse"
			} else if hash13[st.CipherSuite] == 0 || hash13[st.CipherSuite] != hash13[uint16(suite)] {
				viol = fmt.Sprintf("PSK of suite %#x accepted on a connection negotiating %#x (different hash)", st.CipherSuite, suite)
			} else if i >= 5 {
				viol = "identity beyond maxClientPSKIdentities accepted"
			}
		}
	}
	if expect == "r" && !using && viol == "" {
		viol = "valid ticket in a matching scenario was not accepted as PSK"
	}
	return zv.Out{Go: out, Viol: viol, Tags: tags}
}

// ---- Config.ticketKeys histories ----

type rotCfg struct {
	disabled bool
	legacy   []byte
	keys     [][32]byte
}

func parseRotCfg(s string) *rotCfg {
	if s == "n" {
		return nil
	}
	p := strings.Split(s, "/")
	return &rotCfg{disabled: p[0] == "1", legacy: zv.UnHex(p[1]), keys: unKeys(p[2])}
}

func execRot(f []string) zv.Out {
	a, b := parseRotCfg(f[2]), parseRotCfg(f[3])
	var chunks []byte
	if f[4] != "-" {
		for _, c := range strings.Split(f[4], ",") {
			chunks = append(chunks, zv.UnHex(c)...)
		}
	}
	var times []int64
	for _, t := range strings.Split(f[5], ",") {
		n, _ := strconv.ParseInt(t, 10, 64)
		times = append(times, n)
	}
	rd := bytes.NewReader(chunks)
	now := times[0]
	mk := func(r *rotCfg) *tls.Config {
		if r == nil {
			return nil
		}
		cfg := &tls.Config{Rand: rd, Time: func() time.Time { return time.Unix(now, 0) }, SessionTicketsDisabled: r.disabled}
		copy(cfg.SessionTicketKey[:], r.legacy)
		if len(r.keys) > 0 {
			cfg.SetSessionTicketKeys(r.keys)
		}
		return cfg
	}
	ca, cb := mk(a), mk(b)
	tags := []string{"rot"}
	// auto-rotation mode: neither config carries explicit or legacy keys
	isAuto := func(r *rotCfg) bool {
		return r == nil || (!r.disabled && len(r.keys) == 0 && (len(r.legacy) == 0 || bytes.HasPrefix(r.legacy, []byte("DEPRECATED"))))
	}
	auto := isAuto(a) && isAuto(b)
	viol := ""
	type kc struct {
		name    string
		created int64
	}
	var prevKeys []kc
	out := catchPanic(func() string {
		var steps []string
		var prev string
		for _, t := range times {
			now = t
			ks, created := tls.ZVC31Keys(ca, cb)
			var ss []string
			var cur []kc
			for i, k := range ks {
				ss = append(ss, fmt.Sprintf("%s@%d", zv.Hex(k[0][:8]), created[i]))
				cur = append(cur, kc{zv.Hex(k[0]), created[i]})
			}
			if auto && viol == "" {
				// T3 (rotation histories): the encryption key is younger than 24h; a key younger than 7 days is never dropped
				if len(cur) == 0 || t-cur[0].created >= 24*3600 {
					viol = fmt.Sprintf("auto-rotation at t=%d: encryption key missing or older than ticketKeyRotation", t)
				}
				for _, p := range prevKeys {
					if t-p.created < week {
						found := false
						for _, c := range cur {
							found = found || c == p
						}
						if !found {
							viol = fmt.Sprintf("auto-rotation at t=%d dropped key %s created %d (younger than ticketKeyLifetime)", t, p.name[:16], p.created)
						}
					}
				}
				for _, c := range cur[1:] {
					if t-c.created >= week+24*3600 {
						viol = fmt.Sprintf("auto-rotation at t=%d still accepts key %s created %d (older than lifetime + one rotation period)", t, c.name[:16], c.created)
					}
				}
				prevKeys = cur
			}
			s := "-"
			if len(ss) > 0 {
				s = strings.Join(ss, ",")
			}
			if prev != "" && prev != s && len(steps) > 0 {
				tags = append(tags, "rot:changed")
			}
			prev = s
			steps = append(steps, s)
		}
		return strings.Join(steps, ";")
	})
	if out == "panic" {
		tags = append(tags, "rot:panic")
	}
	if auto {
		tags = append(tags, "rot:auto")
	}
	return zv.Out{Go: out, Viol: viol, Tags: tags}
}

// ---------- generators ----------

type tgen struct {
	g *zv.Gen
	r *zv.Rng
}

func (t *tgen) key() [32]byte {
	var k [32]byte
	copy(k[:], t.r.Bytes(32))
	return k
}
func (t *tgen) keys(n int) [][32]byte {
	var ks [][32]byte
	for i := 0; i < n; i++ {
		ks = append(ks, t.key())
	}
	return ks
}

var suites12 = []uint16{0xc02f, 0xc02b, 0xc030, 0xc013, 0xc009, 0x009c, 0x002f, 0x0035, 0x000a, 0xcca8, 0xc027, 0x003c}

const baseNow = int64(1700000000)
const week = int64(7 * 24 * 3600)

func (t *tgen) state12(vers, suite uint16, created uint64, msLen, ncerts int) *tls.ZVC31State {
	st := &tls.ZVC31State{Vers: vers, CipherSuite: suite, CreatedAt: created, MasterSecret: t.r.Bytes(msLen)}
	for i := 0; i < ncerts; i++ {
		st.Certificates = append(st.Certificates, append([]byte{0xff}, t.r.Bytes(t.r.Intn(12))...))
	}
	return st
}

func (t *tgen) state13(suite uint16, created uint64, secLen, ncerts int, ocsp, scts bool) *tls.ZVC31State13 {
	st := &tls.ZVC31State13{CipherSuite: suite, CreatedAt: created, ResumptionSecret: t.r.Bytes(secLen)}
	for i := 0; i < ncerts; i++ {
		st.Certificates = append(st.Certificates, append([]byte{0xff}, t.r.Bytes(t.r.Intn(12))...))
	}
	if ocsp {
		st.OCSPStaple = t.r.Bytes(1 + t.r.Intn(8))
	}
	if scts {
		for i := 0; i <= t.r.Intn(3); i++ {
			st.SCTs = append(st.SCTs, t.r.Bytes(1+t.r.Intn(6)))
		}
	}
	return st
}

func (t *tgen) iv() []byte { return t.r.Bytes(16) }

func (t *tgen) emitDec(keys [][32]byte, ticket []byte, expect string) {
	t.g.Emitf("c31 dec %s %s %s %s", keysStr(keys), zv.Hex(ticket), oracleFor(keys, ticket), expect)
}

// mutations of a byte string that are guaranteed to differ from it
func flipAt(b []byte, pos int, x byte) []byte {
	m := append([]byte{}, b...)
	m[pos] ^= x
	return m
}

type scen12 struct {
	keys     [][32]byte
	ticket   []byte
	disabled bool
	now      int64
	vers     uint16 // c.vers: negotiated
	hvers    uint16 // hs.clientHello.vers: offered by the client; 0 = let emitRes12 choose
	cs, ss   []uint16
	auth     int
	flags    int
}

// offeredFor picks the client's offered version for a connection that negotiated vers: equal (client maximum =
// negotiated), above (server capped lower; real clients send at most 0x0303, old draft clients 0x0304), any of the
// protocol versions including lower ones (supported_versions clients), or an arbitrary value.
func (t *tgen) offeredFor(vers uint16) uint16 {
	r := t.r
	switch p := r.Intn(100); {
	case p < 35:
		return vers
	case p < 60:
		return 0x0303
	case p < 75 && vers < 0x0304:
		return vers + 1 + uint16(r.Intn(int(0x0304-vers)))
	case p < 92:
		return uint16(0x0300 + r.Intn(5))
	case p < 96:
		return 0x03ff
	}
	return uint16(r.Intn(1 << 16))
}

func (t *tgen) emitRes12(s scen12, expect string) {
	if s.hvers == 0 {
		s.hvers = t.offeredFor(s.vers)
	}
	t.g.Emitf("c31 res12 %s %s %s %s %d %d %d %s %s %d %d %s", keysStr(s.keys), zv.Hex(s.ticket), oracleFor(s.keys, s.ticket),
		b01(s.disabled), s.now, s.vers, s.hvers, u16List(s.cs), u16List(s.ss), s.auth, s.flags, expect)
}

type id13 struct {
	ticket []byte
	secret []byte // nil = zero binder
}
type scen13 struct {
	keys     [][32]byte
	disabled bool
	now      int64
	suite    uint16
	modes    []byte
	auth     int
	nb       int
	ids      []id13
}

func (t *tgen) emitRes13(s scen13, expect string) {
	var ss []string
	// obfuscated_ticket_age of every identity (4th component; absent = 0, the three-component form is kept so that
	// both hook entry points stay exercised): zero, tiny, 7 days in ms and its neighbours (a lifetime check on the
	// client-reported age would flip there), far beyond, maximal, random.
	withAges := t.r.Chance(60)
	for _, id := range s.ids {
		item := zv.Hex(id.ticket) + "/" + oracleFor(s.keys, id.ticket) + "/" + optHex(id.secret)
		if withAges {
			ages := []uint32{0, 1, 604800000, 604800001, 604799999, 0xffffffff, 0x80000000, uint32(t.r.U64()), uint32(t.r.Intn(700000000))}
			item += fmt.Sprintf("/%d", ages[t.r.Intn(len(ages))])
		}
		ss = append(ss, item)
	}
	ids := "-"
	if len(ss) > 0 {
		ids = strings.Join(ss, ";")
	}
	t.g.Emitf("c31 res13 %s %s %d %d %s %d %d %s %s", keysStr(s.keys), b01(s.disabled), s.now, s.suite, zv.Hex(s.modes), s.auth, s.nb, ids, expect)
}

// flags usable with suite (ecdheOk=8 ecSignOk=4 rsaSignOk=2 rsaDecryptOk=1)
const allFlags = 15

func genTicket(g *zv.Gen) {
	t := &tgen{g: g, r: g.Rng.Fork()}
	r := t.r
	scale := g.N(2, 30)

	// --- ticketKeyFromBytes, SetSessionTicketKeys
	g.Emitf("c31 key %s", zv.Hex(make([]byte, 32)))
	g.Emitf("c31 key %s", zv.Hex(bytes.Repeat([]byte{0xff}, 32)))
	for i := 0; i < 40*scale; i++ {
		k := t.key()
		g.Emitf("c31 key %s", zv.Hex(k[:]))
	}
	g.Emit("c31 setkeys -")
	for n := 1; n <= 4; n++ {
		for i := 0; i < 3*scale; i++ {
			ks := t.keys(n)
			if n > 1 && i == 0 {
				ks[n-1] = ks[0] // duplicate key
			}
			g.Emitf("c31 setkeys %s", keysStr(ks))
		}
	}

	// --- encryptTicket
	for i := 0; i < 3; i++ {
		iv, st := t.iv(), r.Bytes(r.Intn(40))
		g.Emitf("c31 enc - %s %s -", zv.Hex(iv), zv.Hex(st))
	}
	for i := 0; i < 250*scale; i++ {
		ks := t.keys(1 + r.Intn(3))
		iv := t.iv()
		var st []byte
		switch r.Intn(4) {
		case 0:
			st = r.Bytes(r.Intn(20))
		case 1:
			st = tls.ZVC31MarshalState(t.state12(0x0303, suites12[r.Intn(len(suites12))], uint64(baseNow), 48, r.Intn(2)))
		case 2:
			st = tls.ZVC31MarshalState13(t.state13(0x1301, uint64(baseNow), 32, r.Intn(2), r.Bool(), r.Bool()))
		default:
			st = r.Bytes(r.Intn(150))
		}
		g.Emitf("c31 enc %s %s %s %s", keysStr(ks), zv.Hex(iv), zv.Hex(st), zv.Hex(keystream(refKeyOf(ks[0]).aes, iv, len(st))))
	}

	// --- decryptTicket: valid tickets under current / old / rotated-out / foreign keys, duplicate names
	for i := 0; i < 120*scale; i++ {
		n := 1 + r.Intn(4)
		ks := t.keys(n)
		st := r.Bytes(r.Intn(60))
		j := r.Intn(n)
		tk := refEncrypt(ks[j:], t.iv(), st) // issued when ks[j] was the current key
		if j == 0 {
			t.emitDec(ks, tk, "v")
		} else {
			t.emitDec(ks, tk, "o")
		}
		// rotated out: the issuing key is no longer in the list
		var without [][32]byte
		for x, k := range ks {
			if x != j {
				without = append(without, k)
			}
		}
		t.emitDec(without, tk, "x")
		// foreign: key list of another server
		t.emitDec(t.keys(1+r.Intn(3)), tk, "x")
		// duplicate key material in the list: first match wins
		dup := append(append([][32]byte{}, ks...), ks[j])
		if j == 0 {
			t.emitDec(dup, tk, "v")
		} else {
			t.emitDec(dup, tk, "o")
		}
		dupFront := append([][32]byte{ks[j]}, ks...)
		t.emitDec(dupFront, tk, "v")
		// rotation: a new key is prepended
		rot := append([][32]byte{t.key()}, ks...)
		t.emitDec(rot, tk, "o")
	}
	// short inputs
	for n := 0; n < 70; n += 1 + n/8 {
		t.emitDec(t.keys(2), r.Bytes(n), "x")
	}
	t.emitDec(nil, r.Bytes(80), "x")

	// --- decryptTicket: every single-byte mutation of small tickets, several flips per position
	for b := 0; b < 5*scale; b++ {
		n := 1 + r.Intn(3)
		ks := t.keys(n)
		j := r.Intn(n)
		st := r.Bytes(1 + r.Intn(16))
		tk := refEncrypt(ks[j:], t.iv(), st)
		for pos := range tk {
			for _, x := range []byte{0x01, 0x80, byte(1 + r.Intn(255))} {
				t.emitDec(ks, flipAt(tk, pos, x), "x")
			}
		}
		// truncation at every length, extension, insertion, deletion
		for l := 0; l < len(tk); l++ {
			t.emitDec(ks, tk[:l], "x")
			t.emitDec(ks, tk[len(tk)-l:], "x")
		}
		for e := 1; e <= 40; e += 1 + e/6 {
			t.emitDec(ks, append(append([]byte{}, tk...), r.Bytes(e)...), "x")
			t.emitDec(ks, append(append([]byte{}, tk...), make([]byte, e)...), "x")
			t.emitDec(ks, append(r.Bytes(e), tk...), "x")
		}
		for k := 0; k < 12; k++ {
			pos := r.Intn(len(tk))
			ins := append(append(append([]byte{}, tk[:pos]...), byte(r.Intn(256))), tk[pos:]...)
			t.emitDec(ks, ins, "x")
			del := append(append([]byte{}, tk[:pos]...), tk[pos+1:]...)
			t.emitDec(ks, del, "x")
		}
		// swapped key names: the name of every other key of the list (MAC was made with ks[j])
		for x := range ks {
			if x != j {
				sw := append(append([]byte{}, refKeyOf(ks[x]).name...), tk[16:]...)
				t.emitDec(ks, sw, "x")
			}
		}
		// MAC from another key / MAC over other data / ciphertext of another ticket with this MAC
		other := refEncrypt([][32]byte{t.key()}, tk[16:32], st)
		t.emitDec(ks, append(append([]byte{}, tk[:len(tk)-32]...), other[len(other)-32:]...), "x")
		tk2 := refEncrypt(ks[j:], t.iv(), r.Bytes(len(st)))
		t.emitDec(ks, append(append([]byte{}, tk[:32]...), tk2[32:]...), "x")
		t.emitDec(ks, append(append([]byte{}, tk2[:len(tk2)-32]...), tk[len(tk)-32:]...), "x")
	}

	// --- sessionState / sessionStateTLS13 encodings
	t.genStates(scale)

	// --- TLS 1.2 resumption decision
	t.genRes12(scale)

	// --- TLS 1.3 PSK decision
	t.genRes13(scale)

	// --- Config.ticketKeys
	t.genRot(scale)
}

func (t *tgen) genStates(scale int) {
	g, r := t.g, t.r
	m12 := func(st *tls.ZVC31State) {
		g.Emitf("c31 m12 %d %d %d %s %s", st.Vers, st.CipherSuite, st.CreatedAt, zv.Hex(st.MasterSecret), hexList(st.Certificates))
	}
	m13 := func(st *tls.ZVC31State13) {
		g.Emitf("c31 m13 %d %d %s %s %s %s", st.CipherSuite, st.CreatedAt, zv.Hex(st.ResumptionSecret), hexList(st.Certificates), optHex(st.OCSPStaple), optHexList(st.SCTs))
	}
	// corner cases
	m12(&tls.ZVC31State{Vers: 0x0303, CipherSuite: 0xc02f, CreatedAt: 0, MasterSecret: nil})
	m12(&tls.ZVC31State{Vers: 0xffff, CipherSuite: 0xffff, CreatedAt: 1<<64 - 1, MasterSecret: []byte{0}, Certificates: [][]byte{{}}})
	m12(&tls.ZVC31State{Vers: 0, CipherSuite: 0, CreatedAt: 1 << 63, MasterSecret: bytes.Repeat([]byte{7}, 300), Certificates: [][]byte{{}, {1}, {}}})
	m12(&tls.ZVC31State{Vers: 0x0303, CipherSuite: 1, CreatedAt: 5, MasterSecret: make([]byte, 65535)})
	m12(&tls.ZVC31State{Vers: 0x0303, CipherSuite: 1, CreatedAt: 5, MasterSecret: make([]byte, 65536)})
	m13(&tls.ZVC31State13{CipherSuite: 0x1301, ResumptionSecret: nil})
	m13(&tls.ZVC31State13{CipherSuite: 0x1301, ResumptionSecret: make([]byte, 255)})
	m13(&tls.ZVC31State13{CipherSuite: 0x1301, ResumptionSecret: make([]byte, 256)})
	m13(&tls.ZVC31State13{CipherSuite: 0x1301, ResumptionSecret: []byte{1}, OCSPStaple: []byte{}, SCTs: [][]byte{}})
	m13(&tls.ZVC31State13{CipherSuite: 0x1301, ResumptionSecret: []byte{1}, Certificates: [][]byte{{1}}, OCSPStaple: []byte{}, SCTs: [][]byte{}})
	m13(&tls.ZVC31State13{CipherSuite: 0x1301, ResumptionSecret: []byte{1}, Certificates: [][]byte{{1}}, SCTs: [][]byte{{}}})
	m13(&tls.ZVC31State13{CipherSuite: 0x1301, ResumptionSecret: []byte{1}, Certificates: [][]byte{{}, {}}, OCSPStaple: []byte{9}, SCTs: [][]byte{{1}, {2, 3}}})
	// encodings with an empty secret (the parsers must refuse them), written by the real encoders
	for i := 0; i < 4; i++ {
		e12 := t.state12(0x0303, 0xc02f, uint64(baseNow), 0, i)
		g.Emitf("c31 u12 %s", zv.Hex(tls.ZVC31MarshalState(e12)))
		e13 := t.state13(0x1301, uint64(baseNow), 0, i%3, i == 1, i == 2)
		g.Emitf("c31 u13 %s", zv.Hex(tls.ZVC31MarshalState13(e13)))
	}
	var bases [][]byte
	var bases13 [][]byte
	for i := 0; i < 150*scale; i++ {
		st := t.state12(uint16(0x0300+r.Intn(5)), suites12[r.Intn(len(suites12))], r.U64()>>uint(r.Intn(64)), 1+r.Intn(60), r.Intn(4))
		if r.Chance(10) && len(st.Certificates) > 0 {
			st.Certificates[0] = []byte{}
		}
		m12(st)
		b := tls.ZVC31MarshalState(st)
		g.Emitf("c31 u12 %s", zv.Hex(b))
		bases = append(bases, b)
		s3 := t.state13(uint16(0x1301+r.Intn(4)), r.U64()>>uint(r.Intn(64)), 1+r.Intn(48), r.Intn(3), r.Bool(), r.Bool())
		if r.Chance(10) && len(s3.Certificates) > 0 {
			s3.Certificates[0] = []byte{}
		}
		m13(s3)
		b3 := tls.ZVC31MarshalState13(s3)
		g.Emitf("c31 u13 %s", zv.Hex(b3))
		bases13 = append(bases13, b3)
	}
	// hand-made TLS 1.3 encodings exercising the extension grammar of unmarshalCertificate
	pre := "0304" + "00" + "1301" + "0000000000000005" + "0101"
	for _, certs := range []string{
		"000000",                       // no certificates
		"000006" + "000001aa" + "0000", // one cert, no extensions
		"00000a" + "000001aa" + "0004" + "ffff0000", // unknown extension, empty
		"00000c" + "000001aa" + "0006" + "ffff0002abcd",
		"00000f" + "000001aa" + "0009" + "00050005" + "01000001bb",                             // status_request ocsp
		"00000f" + "000001aa" + "0009" + "00050005" + "02000001bb",                             // wrong status type
		"00000e" + "000001aa" + "0008" + "00050004" + "01000000",                               // empty staple
		"000010" + "000001aa" + "000a" + "00050006" + "01000001bbcc",                           // trailing byte in ext
		"000018" + "000001aa" + "0012" + "00050005" + "01000001bb" + "00050005" + "01000001cc", // duplicate ocsp: last wins
		"00000f" + "000001aa" + "0009" + "00120005" + "00030001dd",                             // sct
		"00000c" + "000001aa" + "0006" + "00120002" + "0000",                                   // empty sct list
		"00000e" + "000001aa" + "0008" + "00120004" + "00020000",                               // empty sct
		"000018" + "000001aa" + "0012" + "00120005" + "00030001dd" + "00120005" + "00030001ee", // duplicate sct ext: appended
		"000015" + "000001aa" + "0000" + "000001bb" + "0009" + "00050005" + "02000001bb",       // non-leaf extension content ignored
		"000010" + "000001aa" + "0000" + "000001bb" + "0004" + "0005ffff",                      // non-leaf extension with bad length
		"000007" + "000001aa" + "0000" + "00",                                                  // trailing garbage in list
		"000005" + "000001aa" + "00",                                                           // truncated extensions length
		"000008" + "000001aa" + "0002" + "0005",                                                // truncated extension header
	} {
		g.Emitf("c31 u13 %s", pre+certs)
		g.Emitf("c31 u13 %s", pre+certs+"00")
	}
	for _, h := range []string{"-", "03", "0304", "030400", "0303001301000000000000000501010000 00", "0304011301000000000000000501010000 00",
		"03040013010000000000000005000000 00", "030400130100000000000000050101000000", "0304001301000000000000000502010000 00"} {
		g.Emitf("c31 u13 %s", strings.ReplaceAll(h, " ", ""))
	}
	// mutated encodings: every position of some, random positions of the others; truncations; extensions
	mut := func(op string, b []byte, all bool) {
		if all {
			for pos := range b {
				g.Emitf("c31 %s %s", op, zv.Hex(flipAt(b, pos, byte(1<<uint(r.Intn(8))))))
			}
			for l := 0; l < len(b); l++ {
				g.Emitf("c31 %s %s", op, zv.Hex(b[:l]))
			}
		} else {
			for k := 0; k < 6; k++ {
				pos := r.Intn(len(b))
				if r.Bool() && len(b) > 20 {
					pos = r.Intn(20) // the length-bearing prefix
				}
				g.Emitf("c31 %s %s", op, zv.Hex(flipAt(b, pos, byte(1+r.Intn(255)))))
			}
			g.Emitf("c31 %s %s", op, zv.Hex(b[:r.Intn(len(b))]))
		}
		g.Emitf("c31 %s %s", op, zv.Hex(append(append([]byte{}, b...), byte(r.Intn(256)))))
	}
	for i, b := range bases {
		mut("u12", b, i < 6*scale)
		mut("u13", bases13[i], i < 6*scale)
	}
}

func usableFlags(suite uint16) int {
	switch suite {
	case 0xc02f, 0xc030, 0xc013, 0xcca8, 0xc027:
		return 8 | 2
	case 0xc02b, 0xc009:
		return 8 | 4
	default:
		return 1
	}
}

func (t *tgen) genRes12(scale int) {
	r := t.r
	for i := 0; i < 60*scale; i++ {
		n := 1 + r.Intn(3)
		ks := t.keys(n)
		j := 0
		if r.Chance(30) {
			j = r.Intn(n)
		}
		suite := suites12[r.Intn(len(suites12))]
		vers := uint16(0x0303)
		if suite == 0xc013 || suite == 0x002f || suite == 0x0035 || suite == 0x000a || suite == 0xc009 {
			vers = uint16(0x0301 + r.Intn(3))
		}
		ncerts := 0
		auth := 0
		if r.Chance(30) {
			ncerts = 1 + r.Intn(2)
			auth = 1 + r.Intn(4)
		}
		st := t.state12(vers, suite, uint64(baseNow-int64(r.Intn(int(week)))), 48, ncerts)
		tk := refEncrypt(ks[j:], t.iv(), tls.ZVC31MarshalState(st))
		others := func() []uint16 {
			var l []uint16
			for _, s := range suites12 {
				if s != suite && r.Bool() {
					l = append(l, s)
				}
			}
			return l
		}
		with := func(l []uint16) []uint16 {
			pos := r.Intn(len(l) + 1)
			out := append([]uint16{}, l[:pos]...)
			out = append(out, suite)
			return append(out, l[pos:]...)
		}
		base := scen12{keys: ks, ticket: tk, now: baseNow, vers: vers, cs: with(others()), ss: with(others()), auth: auth, flags: usableFlags(suite) | r.Intn(16)}
		t.emitRes12(base, "r")
		// offered vs negotiated version: the matching scenario with every relation between the two
		// (client maximum above the negotiated version = server capped lower; equal; below = supported_versions client)
		for _, hv := range []uint16{vers, 0x0303, 0x0302, 0x0301, 0x0304, 0x0300} {
			s := base
			s.hvers = hv
			t.emitRes12(s, "r")
		}
		// one guard at a time
		s := base
		s.disabled = true
		t.emitRes12(s, "x")
		s = base
		s.now = int64(st.CreatedAt) + week + 1 + int64(r.Intn(1000))
		t.emitRes12(s, "x")
		s.now = int64(st.CreatedAt) + week // boundary: exactly the lifetime is still accepted
		t.emitRes12(s, "r")
		s.now = int64(st.CreatedAt) - int64(r.Intn(100000)) // ticket from the future
		t.emitRes12(s, "r")
		s = base
		for s.vers == vers {
			s.vers = uint16(0x0301 + r.Intn(3))
		}
		// another version was negotiated: with the client offering the ticket's version (listener sharing the keys
		// but capped lower / raised), the negotiated one, TLS 1.2, anything
		for _, hv := range []uint16{vers, s.vers, 0x0303, 0} {
			s.hvers = hv
			t.emitRes12(s, "x")
		}
		s.hvers = 0
		s = base
		s.cs = others()
		t.emitRes12(s, "x")
		s = base
		s.ss = others()
		t.emitRes12(s, "x")
		s.ss = []uint16{}
		t.emitRes12(s, "x")
		s = base
		s.flags = allFlags &^ usableFlags(suite)
		if usableFlags(suite)&8 != 0 && r.Bool() {
			s.flags = allFlags &^ 8
		}
		t.emitRes12(s, "x")
		s = base
		if ncerts == 0 {
			s.auth = 2 + 2*r.Intn(2) // RequireAny / RequireAndVerify but no certificate stored
			t.emitRes12(s, "x")
			s.auth = 1 + 2*r.Intn(2) // Request / VerifyIfGiven: fine
			t.emitRes12(s, "r")
		} else {
			s.auth = 0 // certificates stored but none wanted now
			t.emitRes12(s, "x")
		}
		// key history
		s = base
		s.keys = append([][32]byte{t.key()}, ks...)
		t.emitRes12(s, "r")
		s.keys = nil
		for x, k := range ks {
			if x != j {
				s.keys = append(s.keys, k)
			}
		}
		if len(s.keys) == 0 {
			s.keys = t.keys(1)
		}
		t.emitRes12(s, "x")
		// random combination
		for k := 0; k < 4; k++ {
			s = base
			if r.Chance(8) {
				s.disabled = true
			}
			if r.Chance(25) {
				s.now = baseNow + int64(r.Intn(int(2*week)))
			}
			if r.Chance(25) {
				s.vers = uint16(0x0301 + r.Intn(3))
			}
			if r.Chance(40) {
				s.hvers = []uint16{vers, s.vers, 0x0303, 0x0302, 0x0301}[r.Intn(5)]
			}
			if r.Chance(25) {
				s.cs = others()
			}
			if r.Chance(25) {
				s.ss = others()
			}
			if r.Chance(30) {
				s.auth = r.Intn(5)
			}
			s.flags = r.Intn(16)
			t.emitRes12(s, "?")
		}
		// altered tickets in the otherwise accepting scenario
		if i < 2*scale {
			for pos := range tk {
				s = base
				s.ticket = flipAt(tk, pos, byte(1<<uint(r.Intn(8))))
				t.emitRes12(s, "x")
			}
			for l := 0; l < len(tk); l += 1 + r.Intn(3) {
				s = base
				s.ticket = tk[:l]
				t.emitRes12(s, "x")
			}
		} else {
			for k := 0; k < 4; k++ {
				s = base
				s.ticket = flipAt(tk, r.Intn(len(tk)), byte(1+r.Intn(255)))
				t.emitRes12(s, "x")
			}
		}
		// authentic ticket whose content is not a session state (only the key holder can make these)
		s = base
		pl := tls.ZVC31MarshalState(st)
		switch r.Intn(4) {
		case 0:
			pl = pl[:r.Intn(len(pl))]
		case 1:
			pl = append(pl, 0)
		case 2:
			pl = flipAt(pl, 12+r.Intn(2), byte(1+r.Intn(255))) // master secret length
		default:
			pl = tls.ZVC31MarshalState13(t.state13(0x1301, uint64(baseNow), 32, 0, false, false))
		}
		s.ticket = refEncrypt(ks[j:], t.iv(), pl)
		t.emitRes12(s, "x")
	}
	// version grid: ticket version x negotiated version x offered version, for a suite that is legal in every
	// protocol version (so that the version test alone decides) and for a TLS 1.2-only suite
	for rep := 0; rep < scale; rep++ {
		for _, suite := range []uint16{[]uint16{0xc013, 0x002f, 0xc009, 0x0035}[r.Intn(4)], []uint16{0xc02f, 0x009c, 0xc02b, 0xcca8}[r.Intn(4)]} {
			ks := t.keys(1 + r.Intn(2))
			for _, tv := range []uint16{0x0300, 0x0301, 0x0302, 0x0303, 0x0304} {
				st := t.state12(tv, suite, uint64(baseNow-int64(r.Intn(int(week)))), 48, 0)
				tk := refEncrypt(ks, t.iv(), tls.ZVC31MarshalState(st))
				for _, cv := range []uint16{0x0301, 0x0302, 0x0303} {
					for _, hv := range []uint16{0x0300, 0x0301, 0x0302, 0x0303, 0x0304, 0xffff} {
						expect := "x"
						if tv == cv && (cv == 0x0303 || suite == 0xc013 || suite == 0x002f || suite == 0xc009 || suite == 0x0035) {
							expect = "r"
						}
						t.emitRes12(scen12{keys: ks, ticket: tk, now: baseNow, vers: cv, hvers: hv, cs: []uint16{0xc02f, suite, 0x002f}, ss: []uint16{suite, 0xc013},
							flags: usableFlags(suite)}, expect)
					}
				}
			}
		}
	}
	// createdAt corner values (uint64 -> int64 -> time.Unix wrap-around, Duration saturation)
	off := uint64(62135596800)
	for _, ca := range []uint64{0, 1, uint64(baseNow), uint64(baseNow - week), uint64(baseNow - week - 1), uint64(baseNow + week), 1<<63 - 1, 1 << 63, 1<<63 + 1, 1<<64 - 1,
		1<<63 - off, 1<<63 - off - 1, 1<<63 - off + 1, ^uint64(0) - off + 1, ^uint64(0) - off, ^uint64(0) - uint64(week) + 1, 1 << 62, 9223372036, 9223372037, 1<<63 + uint64(baseNow)} {
		ks := t.keys(1)
		st := t.state12(0x0303, 0xc02f, ca, 48, 0)
		tk := refEncrypt(ks, t.iv(), tls.ZVC31MarshalState(st))
		for _, now := range []int64{baseNow, 0, 1 << 40} {
			t.emitRes12(scen12{keys: ks, ticket: tk, now: now, vers: 0x0303, cs: []uint16{0xc02f}, ss: []uint16{0xc02f}, flags: allFlags}, "?")
		}
	}
	// every suite id around the table, all flag combinations
	for _, suite := range []uint16{0xc02f, 0xc02b, 0x002f, 0x009c, 0xc013, 0xc009, 0x1301, 0x0000, 0x5600, 0xc030, 0xc02c, 0xcca9, 0x0005, 0xc011, 0xc007, 0x0033, 0x0039, 0x009e} {
		ks := t.keys(1)
		for _, vers := range []uint16{0x0301, 0x0303} {
			st := t.state12(vers, suite, uint64(baseNow), 48, 0)
			tk := refEncrypt(ks, t.iv(), tls.ZVC31MarshalState(st))
			for fl := 0; fl < 16; fl++ {
				t.emitRes12(scen12{keys: ks, ticket: tk, now: baseNow, vers: vers, cs: []uint16{suite}, ss: []uint16{suite}, flags: fl}, "?")
			}
		}
	}
}

func (t *tgen) genRes13(scale int) {
	r := t.r
	s13 := []uint16{0x1301, 0x1302, 0x1303}
	for i := 0; i < 50*scale; i++ {
		n := 1 + r.Intn(3)
		ks := t.keys(n)
		j := 0
		if r.Chance(30) {
			j = r.Intn(n)
		}
		suite := s13[r.Intn(3)]
		neg := suite
		if suite != 0x1302 && r.Bool() {
			neg = 0x1301 + 0x1303 - suite // same hash, other AEAD: allowed
		}
		ncerts, auth := 0, 0
		if r.Chance(25) {
			ncerts, auth = 1+r.Intn(2), 1+r.Intn(4)
		}
		st := t.state13(suite, uint64(baseNow-int64(r.Intn(int(week)))), 32+16*r.Intn(2), ncerts, r.Chance(20), r.Chance(20))
		tk := refEncrypt(ks[j:], t.iv(), tls.ZVC31MarshalState13(st))
		good := id13{tk, st.ResumptionSecret}
		base := scen13{keys: ks, now: baseNow, suite: neg, modes: []byte{1}, auth: auth, nb: 1, ids: []id13{good}}
		exp := "r"
		if ncerts > 0 {
			exp = "?" // processCertsFromClient on junk certificates fails after the binder check
		}
		t.emitRes13(base, exp)
		s := base
		s.disabled = true
		t.emitRes13(s, "x")
		s = base
		s.modes = [][]byte{{}, {0}, {0, 2}, {2, 0, 3}}[r.Intn(4)]
		t.emitRes13(s, "x")
		s.modes = [][]byte{{0, 1}, {1, 0}, {2, 1, 1}}[r.Intn(3)]
		t.emitRes13(s, exp)
		s = base
		s.nb = 0
		t.emitRes13(s, "x")
		s = base
		s.ids = nil
		s.nb = 0
		t.emitRes13(s, "x")
		s = base
		s.now = int64(st.CreatedAt) + week + 1 + int64(r.Intn(1000))
		t.emitRes13(s, "x")
		s.now = int64(st.CreatedAt) + week
		t.emitRes13(s, exp)
		s = base
		if suite == 0x1302 {
			s.suite = 0x1301 + uint16(2*r.Intn(2))
		} else {
			s.suite = 0x1302
		}
		t.emitRes13(s, "x")
		s = base
		if ncerts == 0 {
			s.auth = 2 + 2*r.Intn(2)
			t.emitRes13(s, "x")
			s.auth = 1 + 2*r.Intn(2)
			t.emitRes13(s, "r")
		} else {
			s.auth = 0
			t.emitRes13(s, "x")
		}
		// wrong binder (client does not know the secret): fatal error, never a PSK
		s = base
		s.ids = []id13{{tk, nil}}
		t.emitRes13(s, "x")
		s.ids = []id13{{tk, flipAt(st.ResumptionSecret, r.Intn(len(st.ResumptionSecret)), 1)}}
		t.emitRes13(s, "x")
		// key history
		s = base
		s.keys = append([][32]byte{t.key()}, ks...)
		t.emitRes13(s, exp)
		s.keys = nil
		for x, k := range ks {
			if x != j {
				s.keys = append(s.keys, k)
			}
		}
		if len(s.keys) == 0 {
			s.keys = t.keys(1)
		}
		t.emitRes13(s, "x")
		// several identities: bad ones in front are skipped, at most 5 are looked at
		junk := func() id13 {
			switch r.Intn(4) {
			case 0:
				return id13{r.Bytes(r.Intn(100)), nil}
			case 1:
				return id13{flipAt(tk, r.Intn(len(tk)), byte(1+r.Intn(255))), st.ResumptionSecret}
			case 2:
				return id13{refEncrypt(t.keys(1), t.iv(), tls.ZVC31MarshalState13(st)), st.ResumptionSecret}
			default: // authentic but a TLS 1.2 state inside
				return id13{refEncrypt(ks, t.iv(), tls.ZVC31MarshalState(t.state12(0x0303, 0xc02f, uint64(baseNow), 48, 0))), nil}
			}
		}
		for k := 1; k <= 6; k++ {
			s = base
			s.ids = nil
			for x := 0; x < k; x++ {
				s.ids = append(s.ids, junk())
			}
			s.ids = append(s.ids, good)
			s.nb = len(s.ids)
			e := exp
			if k >= 5 {
				e = "x"
			}
			t.emitRes13(s, e)
			if k == 2 {
				s.nb = 2 // binders/identities length mismatch
				t.emitRes13(s, "x")
				s.nb = 3
				s.ids = append(s.ids, good, junk())
				s.nb = len(s.ids)
				t.emitRes13(s, exp)
			}
		}
		// altered tickets
		if i < 2*scale {
			for pos := range tk {
				s = base
				s.ids = []id13{{flipAt(tk, pos, byte(1<<uint(r.Intn(8)))), st.ResumptionSecret}}
				t.emitRes13(s, "x")
			}
			for l := 0; l < len(tk); l += 1 + r.Intn(3) {
				s = base
				s.ids = []id13{{tk[:l], st.ResumptionSecret}}
				t.emitRes13(s, "x")
			}
		} else {
			for k := 0; k < 3; k++ {
				s = base
				s.ids = []id13{{flipAt(tk, r.Intn(len(tk)), byte(1+r.Intn(255))), st.ResumptionSecret}}
				t.emitRes13(s, "x")
			}
		}
		// authentic ticket with unparsable / foreign content
		s = base
		pl := tls.ZVC31MarshalState13(st)
		switch r.Intn(3) {
		case 0:
			pl = pl[:r.Intn(len(pl))]
		case 1:
			pl = append(pl, 0)
		default:
			pl = flipAt(pl, r.Intn(3), byte(1+r.Intn(255))) // version / revision
		}
		s.ids = []id13{{refEncrypt(ks[j:], t.iv(), pl), st.ResumptionSecret}}
		t.emitRes13(s, "x")
		// unknown suite in the ticket
		st2 := *st
		st2.CipherSuite = []uint16{0x1304, 0x1305, 0xc02f, 0}[r.Intn(4)]
		s.ids = []id13{{refEncrypt(ks[j:], t.iv(), tls.ZVC31MarshalState13(&st2)), st.ResumptionSecret}}
		t.emitRes13(s, "x")
	}
}

func (t *tgen) genRot(scale int) {
	g, r := t.g, t.r
	cfgStr := func(disabled bool, legacy []byte, keys [][32]byte) string {
		return b01(disabled) + "/" + zv.Hex(legacy) + "/" + keysStr(keys)
	}
	day := int64(24 * 3600)
	for i := 0; i < 60*scale; i++ {
		// the server's own config
		var legacy []byte
		var keys [][32]byte
		switch r.Intn(6) {
		case 0:
			legacy = r.Bytes(32)
		case 1:
			legacy = append([]byte("DEPRECATED"), r.Bytes(22)...)
		case 2:
			keys = t.keys(1 + r.Intn(3))
		case 3:
			keys = t.keys(1 + r.Intn(2))
			legacy = r.Bytes(32)
		}
		a := cfgStr(r.Chance(6), legacy, keys)
		b := "n"
		if r.Chance(30) {
			var l2 []byte
			var k2 [][32]byte
			switch r.Intn(4) {
			case 0:
				l2 = r.Bytes(32)
			case 1:
				k2 = t.keys(1 + r.Intn(2))
			}
			b = cfgStr(r.Chance(15), l2, k2)
		}
		nsteps := 2 + r.Intn(12)
		var chunks, times []string
		for k := 0; k < nsteps+3; k++ {
			chunks = append(chunks, zv.Hex(r.Bytes(32)))
		}
		if r.Chance(5) {
			chunks = chunks[:r.Intn(2)] // reader runs dry: panic
		}
		now := baseNow
		var past []int64
		for k := 0; k < nsteps; k++ {
			times = append(times, strconv.FormatInt(now, 10))
			past = append(past, now)
			if r.Chance(30) { // land on / next to the expiry or rotation instant of a key created at an earlier call
				cand := past[r.Intn(len(past))] + []int64{week, week, day}[r.Intn(3)] + int64(r.Intn(3)) - 1
				if cand >= now {
					now = cand
					continue
				}
			}
			switch r.Intn(6) {
			case 0:
				now += day // exactly the rotation period
			case 1:
				now += day - 1
			case 2:
				now += int64(r.Intn(int(day)))
			case 3:
				now += int64(r.Intn(int(3 * day)))
			case 4:
				now += week - day + int64(r.Intn(3)) - 1
			default:
				now += int64(r.Intn(100))
			}
		}
		cs := "-"
		if len(chunks) > 0 {
			cs = strings.Join(chunks, ",")
		}
		g.Emitf("c31 rot %s %s %s %s", a, b, cs, strings.Join(times, ","))
	}
}
