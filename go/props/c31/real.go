package c31

// T3 for C31 with REAL resumption handshakes (zcrypto client against zcrypto server over the buffered
// in-memory transport of tlsrig).  Case lines `c31 real <seed> <version> <suite> <scenario> [args…]` are T3-only.
//
// Oracle (the property, not the implementation's behaviour):
//   R  an unmodified ticket whose issuing key is still in the server's key list, presented by the
//      unchanged client  ⇒ the handshake completes, BOTH sides report DidResume, version and suite
//      equal the original session's, both sides export the same keying material;
//   N  any modified / truncated / extended / foreign / rotated-out / cross-version / cross-suite ticket
//      ⇒ a completed FULL handshake (neither side resumed, same exported keying material) or a
//      handshake error — never a resumption;
//   V  (scenario vr) client and server version ranges chosen independently for every connection of a sequence,
//      listeners with different caps sharing the ticket keys: the session in the client's cache (version v, suite s)
//      presented when the connection negotiates v and s is still offered and configured ⇒ R at exactly (v, s);
//      otherwise (another version negotiated, suite gone) ⇒ a CLEAN full handshake at the version the two ranges
//      determine — never a resumption and never an aborted handshake;
//   always: a completed handshake has both sides agreeing on DidResume and on the exported keying
//      material; a server-side resumption implies the presented ticket is byte-identical to an issued
//      one and the version/suite are the original ones.

import (
	"bytes"
	"fmt"
	"net"
	"strconv"
	"strings"
	"sync"
	"time"

	"github.com/zmap/zcrypto/tls"

	"zv/internal/tlsrig"
	"zv/internal/zv"
)

type sessCache struct {
	mu       sync.Mutex
	stored   *tls.ClientSessionState
	puts     int
	override *tls.ClientSessionState
}

func (c *sessCache) Get(string) (*tls.ClientSessionState, bool) {
	c.mu.Lock()
	defer c.mu.Unlock()
	if c.override != nil {
		return c.override, true
	}
	return c.stored, c.stored != nil
}

func (c *sessCache) Put(_ string, s *tls.ClientSessionState) {
	c.mu.Lock()
	defer c.mu.Unlock()
	c.puts++
	c.stored = s
}

func (c *sessCache) snapshot() (*tls.ClientSessionState, int) {
	c.mu.Lock()
	defer c.mu.Unlock()
	return c.stored, c.puts
}

func (c *sessCache) present(s *tls.ClientSessionState) {
	c.mu.Lock()
	c.override = s
	c.mu.Unlock()
}

type clock struct {
	mu sync.Mutex
	t  time.Time
}

func (c *clock) now() time.Time { c.mu.Lock(); defer c.mu.Unlock(); return c.t }
func (c *clock) add(d time.Duration) {
	c.mu.Lock()
	c.t = c.t.Add(d)
	c.mu.Unlock()
}

type env struct {
	vers, suite uint16
	scfg, ccfg  *tls.Config
	cache       *sessCache
	clk         *clock
	keys        [][32]byte // candidate ticket keys K0..K3 (K0 = issuing key)
	wrapClient  func(net.Conn) net.Conn
}

func suiteKeyType(s uint16) string {
	switch s {
	case 0xc02b, 0xc02c, 0xc009, 0xc00a, 0xc023, 0xcca9:
		return "ecdsa"
	case 0x1301, 0x1302, 0x1303:
		return "ecdsa"
	}
	return "rsa"
}

func newEnv(r *zv.Rng, vers, suite uint16, explicitKeys bool) *env {
	pki := tlsrig.GetPKI()
	e := &env{vers: vers, suite: suite, cache: &sessCache{}, clk: &clock{t: time.Now()}}
	for i := 0; i < 4; i++ {
		var k [32]byte
		copy(k[:], r.Bytes(32))
		e.keys = append(e.keys, k)
	}
	e.scfg = &tls.Config{
		Certificates: []tls.Certificate{pki.Leaf[suiteKeyType(suite)]},
		MinVersion:   tls.VersionTLS10, MaxVersion: tls.VersionTLS13,
		Time: e.clk.now,
	}
	if vers != tls.VersionTLS13 {
		e.scfg.CipherSuites = []uint16{suite, 0xc02f, 0xc02b, 0xc013, 0xc009, 0x002f}
	}
	if explicitKeys {
		e.scfg.SetSessionTicketKeys([][32]byte{e.keys[0]})
	}
	e.ccfg = &tls.Config{
		ServerName: tlsrig.Host, RootCAs: pki.Roots,
		MinVersion: vers, MaxVersion: vers,
		CipherSuites:       []uint16{suite},
		ClientSessionCache: e.cache,
		Time:               e.clk.now,
	}
	return e
}

type hsOut struct {
	ok                 bool // both sides completed
	cErr, sErr         error
	cResumed, sResumed bool
	sOK                bool
	vers, suite        uint16
	ekmEq              bool
	timedOut           bool
}

func (o hsOut) String() string {
	return fmt.Sprintf("ok=%v cResumed=%v sResumed=%v vers=%04x suite=%04x ekmEq=%v cErr=%v sErr=%v timeout=%v", o.ok, o.cResumed, o.sResumed, o.vers, o.suite, o.ekmEq, o.cErr, o.sErr, o.timedOut)
}

// handshake runs one handshake with the current configs; after a completed handshake one byte is sent
// server → client so that the client processes post-handshake messages (TLS 1.3 NewSessionTicket).
func (e *env) handshake() hsOut {
	res := tlsrig.Handshake(e.ccfg, e.scfg, tlsrig.Opts{KeepOpen: true, Timeout: 40 * time.Second, WrapClient: e.wrapClient})
	o := hsOut{cErr: res.Client.Err, sErr: res.Server.Err, timedOut: res.TimedOut}
	if res.Client.Panic != nil || res.Server.Panic != nil {
		panic(fmt.Sprintf("handshake panicked: client %v server %v", res.Client.Panic, res.Server.Panic))
	}
	o.sOK = res.Server.Err == nil && !res.TimedOut
	o.ok = res.Client.Err == nil && res.Server.Err == nil && !res.TimedOut
	if res.Client.Err == nil {
		o.cResumed = res.Client.State.DidResume
		o.vers, o.suite = res.Client.State.Version, res.Client.State.CipherSuite
	}
	if res.Server.Err == nil {
		o.sResumed = res.Server.State.DidResume
		if res.Client.Err != nil {
			o.vers, o.suite = res.Server.State.Version, res.Server.State.CipherSuite
		}
	}
	if o.ok {
		o.ekmEq = len(res.Client.EKM) > 0 && bytes.Equal(res.Client.EKM, res.Server.EKM) &&
			res.Client.State.Version == res.Server.State.Version && res.Client.State.CipherSuite == res.Server.State.CipherSuite
		done := make(chan struct{})
		go func() {
			defer close(done)
			res.Server.Conn.Write([]byte{0x5a})
		}()
		res.Client.Conn.SetReadDeadline(time.Now().Add(30 * time.Second))
		var b [1]byte
		n, err := res.Client.Conn.Read(b[:])
		if err != nil || n != 1 || b[0] != 0x5a {
			o.ok = false
			o.cErr = fmt.Errorf("post-handshake byte not delivered: n=%d err=%v", n, err)
		}
		<-done
	}
	res.Client.Conn.Close()
	res.Server.Conn.Close()
	return o
}

type verdicts struct {
	viol []string
	tags map[string]bool
}

func (v *verdicts) tag(s string) { v.tags[s] = true }
func (v *verdicts) fail(f string, a ...any) {
	if len(v.viol) < 3 {
		v.viol = append(v.viol, fmt.Sprintf(f, a...))
	}
}

// always-true part of the oracle
func (v *verdicts) consistent(what string, base hsOut, o hsOut, ticketIsIssued bool) {
	if o.ok {
		if o.cResumed != o.sResumed {
			v.fail("%s: handshake completed but the sides disagree on DidResume: %v", what, o)
		}
		if !o.ekmEq {
			v.fail("%s: handshake completed but client and server export different keying material (different secrets): %v", what, o)
		}
	}
	if o.sOK && o.sResumed {
		if !ticketIsIssued {
			v.fail("%s: server resumed from a ticket that is not byte-identical to an issued one: %v", what, o)
		}
		if o.vers != base.vers || !sameSuite(o.vers, o.suite, base.suite) {
			v.fail("%s: resumed with version/suite %04x/%04x, the original session had %04x/%04x", what, o.vers, o.suite, base.vers, base.suite)
		}
	}
}

// sameSuite: up to TLS 1.2 a session is bound to its cipher suite; a TLS 1.3 PSK is bound to the suite's
// hash only (RFC 8446 §4.2.11: "compatible" = same KDF hash), the AEAD is negotiated afresh.
func sameSuite(vers, a, b uint16) bool {
	if vers == tls.VersionTLS13 {
		return (a == 0x1302) == (b == 0x1302)
	}
	return a == b
}

func (v *verdicts) mustResume(what string, base, o hsOut) {
	if o.timedOut { // machine overload, not a verdict about the ticket
		v.fail("rig: %s: handshake timed out (40 s): %v", what, o)
		return
	}
	v.consistent(what, base, o, true)
	if !(o.ok && o.cResumed && o.sResumed && o.vers == base.vers && o.suite == base.suite && o.ekmEq) {
		v.fail("%s: an authentic ticket under a listed key must resume with the original version and suite: %v", what, o)
	} else {
		v.tag("outcome=resumed")
	}
}

func (v *verdicts) mustNotResume(what string, base, o hsOut) {
	v.consistent(what, base, o, false)
	if o.sOK && o.sResumed || o.cErr == nil && o.cResumed {
		v.fail("%s: resumed although the ticket is not an authentic ticket for this handshake: %v", what, o)
		return
	}
	switch {
	case o.timedOut:
		v.tag("outcome=timeout") // counts as an error outcome, never as a resumption
	case o.ok:
		v.tag("outcome=full-handshake")
	default:
		v.tag("outcome=error")
	}
}

// mustFull: the ticket is authentic but belongs to a session that cannot be resumed on this connection (another
// version negotiated / suite no longer negotiable): the server has to fall back to a full handshake that COMPLETES
// at the expected version — a resumption (which the client must abort) or any other failure violates the property.
func (v *verdicts) mustFull(what string, base, o hsOut, wantVers uint16) {
	if o.timedOut {
		v.fail("rig: %s: handshake timed out (40 s): %v", what, o)
		return
	}
	v.consistent(what, base, o, true)
	switch {
	case o.sOK && o.sResumed || o.cErr == nil && o.cResumed:
		v.fail("%s: resumed although the session cannot be resumed on this connection: %v", what, o)
	case !o.ok:
		v.fail("%s: the handshake must fall back to a full handshake, it was aborted instead: %v", what, o)
	case o.vers != wantVers:
		v.fail("%s: full handshake negotiated %04x, the version ranges determine %04x: %v", what, o.vers, wantVers, o)
	default:
		v.tag("outcome=full-handshake")
	}
}

func (v *verdicts) either(what string, base, o hsOut) {
	v.consistent(what, base, o, true)
	switch {
	case o.ok && o.sResumed:
		v.tag("outcome=resumed")
	case o.ok:
		v.tag("outcome=full-handshake")
	default:
		v.tag("outcome=error")
	}
}

// issue runs the first (full) handshake and returns the session the client stored.
func (e *env) issue(v *verdicts) (hsOut, *tls.ClientSessionState, []byte, bool) {
	base := e.handshake()
	st, _ := e.cache.snapshot()
	if !base.ok || base.cResumed || base.sResumed || st == nil {
		v.fail("rig: initial full handshake did not produce a session: %v stored=%v", base, st != nil)
		return base, nil, nil, false
	}
	if base.vers != e.vers || base.suite != e.suite {
		v.fail("rig: negotiated %04x/%04x instead of %04x/%04x", base.vers, base.suite, e.vers, e.suite)
		return base, nil, nil, false
	}
	return base, st, tls.ZVSessionTicket(st), true
}

func region(pos, n int) string {
	switch {
	case pos < 16:
		return "region=keyname"
	case pos < 32:
		return "region=iv"
	case pos >= n-32:
		return "region=mac"
	}
	return "region=ciphertext"
}

// wireMutator rewrites the first occurrence of old in the client's outgoing byte stream.
type wireMutator struct {
	net.Conn
	old, new []byte
	done     bool
	hit      *bool
}

func (w *wireMutator) Write(p []byte) (int, error) {
	if !w.done {
		if i := bytes.Index(p, w.old); i >= 0 {
			q := append([]byte(nil), p...)
			copy(q[i:], w.new)
			w.done = true
			*w.hit = true
			if _, err := w.Conn.Write(q); err != nil {
				return 0, err
			}
			return len(p), nil
		}
	}
	return w.Conn.Write(p)
}

func execReal(line string) zv.Out {
	f := strings.Fields(line)
	seed, _ := strconv.ParseUint(f[2], 10, 64)
	vers64, _ := strconv.ParseUint(f[3], 10, 16)
	suite64, _ := strconv.ParseUint(f[4], 10, 16)
	vers, suite := uint16(vers64), uint16(suite64)
	scen := f[5]
	args := f[6:]
	r := zv.NewRng(seed)
	v := &verdicts{tags: map[string]bool{}}
	v.tag(fmt.Sprintf("real:version=%04x", vers))
	v.tag(fmt.Sprintf("real:suite=%04x", suite))
	v.tag("real:scenario=" + scen)
	atoi := func(s string) int { n, _ := strconv.Atoi(s); return n }

	switch scen {
	case "mut", "trunc", "extend", "wire":
		e := newEnv(r, vers, suite, true)
		base, st, ticket, ok := e.issue(v)
		if !ok {
			break
		}
		// sanity: the unmodified ticket resumes (otherwise "did not resume" below would be vacuous)
		v.mustResume("unmodified ticket", base, e.handshake())
		st, _ = e.cache.snapshot() // TLS 1.3 issues a fresh ticket on every handshake: use the latest
		ticket = tls.ZVSessionTicket(st)
		from, to := atoi(args[1]), atoi(args[2])
		if to > len(ticket) || to < 0 {
			to = len(ticket)
		}
		v.tag(fmt.Sprintf("ticketlen<=%d", (len(ticket)/32+1)*32))
		for pos := from; pos < to; pos++ {
			var mt []byte
			what := ""
			switch scen {
			case "mut", "wire":
				mt = append([]byte(nil), ticket...)
				switch args[0] {
				case "bit":
					mt[pos] ^= 1 << uint(r.Intn(8))
				case "inv":
					mt[pos] ^= 0xff
				default: // "rnd": any other value
					mt[pos] ^= byte(1 + r.Intn(255))
				}
				what = fmt.Sprintf("%s byte %d/%d (%s) changed %02x→%02x", scen, pos, len(ticket), region(pos, len(ticket)), ticket[pos], mt[pos])
				v.tag(region(pos, len(ticket)))
			case "trunc":
				mt = append([]byte(nil), ticket[:pos]...)
				what = fmt.Sprintf("ticket truncated to %d of %d bytes", pos, len(ticket))
			case "extend":
				mt = append(append([]byte(nil), ticket...), r.Bytes(pos+1)...)
				what = fmt.Sprintf("ticket extended by %d bytes", pos+1)
			}
			if scen == "wire" {
				hit := false
				e.cache.present(st)
				e.wrapClient = func(c net.Conn) net.Conn { return &wireMutator{Conn: c, old: ticket, new: mt, hit: &hit} }
				o := e.handshake()
				e.wrapClient = nil
				if !hit {
					v.fail("rig: ticket bytes not found in the client's first flight")
					break
				}
				v.mustNotResume(what, base, o)
			} else {
				e.cache.present(tls.ZVSessionWithTicket(st, mt))
				v.mustNotResume(what, base, e.handshake())
			}
		}
		// … and afterwards the authentic ticket still resumes (the mutations did not poison the server)
		e.cache.present(st)
		v.mustResume("unmodified ticket after the mutated ones", base, e.handshake())

	case "rot": // key rotation history: args = lists like 1.0,2.1.0  (indices into K0..K3; K0 issued the ticket)
		e := newEnv(r, vers, suite, true)
		base, _, ticket, ok := e.issue(v)
		if !ok {
			break
		}
		inFinal := true
		pos0 := 0
		if len(args) > 0 && args[0] != "-" {
			for _, step := range strings.Split(args[0], ",") {
				var ks [][32]byte
				inFinal, pos0 = false, -1
				for i, d := range strings.Split(step, ".") {
					k := atoi(d)
					ks = append(ks, e.keys[k])
					if k == 0 && pos0 < 0 {
						inFinal, pos0 = true, i
					}
				}
				e.scfg.SetSessionTicketKeys(ks)
			}
		}
		e.cache.present(nil)
		_, puts0 := e.cache.snapshot()
		o := e.handshake()
		switch {
		case inFinal && pos0 == 0:
			v.tag("key=current")
			v.mustResume("ticket under the current key", base, o)
		case inFinal:
			v.tag("key=old-but-listed")
			v.mustResume("ticket under an old but still listed key", base, o)
			// the server refreshes tickets sealed under an old key
			st2, puts1 := e.cache.snapshot()
			if o.ok && (puts1 == puts0 || st2 == nil || bytes.Equal(tls.ZVSessionTicket(st2)[:16], ticket[:16])) {
				v.fail("ticket under an old key resumed but no ticket under the current key was issued (puts %d→%d)", puts0, puts1)
			} else if o.ok {
				v.tag("refreshed-under-current-key")
				v.mustResume("refreshed ticket", base, e.handshake())
			}
		default:
			v.tag("key=rotated-out")
			v.mustNotResume("ticket whose key was rotated out", base, o)
		}

	case "foreign": // ticket issued by another server (other keys) / by the same keys on another Config
		e := newEnv(r, vers, suite, true)
		base, st, _, ok := e.issue(v)
		if !ok {
			break
		}
		e2 := newEnv(r, vers, suite, args[0] == "explicit")
		e2.cache = e.cache
		e2.ccfg.ClientSessionCache = e.cache
		if args[0] == "samekeys" {
			e2.scfg.SetSessionTicketKeys([][32]byte{e.keys[0]})
			v.mustResume("ticket presented to a second server configured with the same key", base, e2.handshake())
		} else {
			e.cache.present(st)
			v.mustNotResume("ticket of a foreign server ("+args[0]+" keys)", base, e2.handshake())
		}

	case "cross": // ticket of one protocol version presented in a handshake of another
		e := newEnv(r, vers, suite, true)
		base, st, _, ok := e.issue(v)
		if !ok {
			break
		}
		tv, ts := uint16(atoi(args[0])), uint16(atoi(args[1]))
		e.ccfg.MinVersion, e.ccfg.MaxVersion = tv, tv
		e.ccfg.CipherSuites = []uint16{ts}
		e.scfg.Certificates = []tls.Certificate{tlsrig.GetPKI().Leaf[suiteKeyType(ts)]}
		e.scfg.CipherSuites = nil
		if tv != tls.VersionTLS13 {
			e.scfg.CipherSuites = []uint16{ts}
		}
		e.cache.present(tls.ZVSessionAs(st, tv, ts))
		v.tag(fmt.Sprintf("presented-as=%04x/%04x", tv, ts))
		if tv == tls.VersionTLS13 && vers == tls.VersionTLS13 && sameSuite(tv, ts, suite) {
			// RFC 8446 allows resuming under another AEAD with the same hash: the ticket is authentic
			v.tag("tls13-same-hash-other-aead")
			v.either("TLS 1.3 ticket offered with another suite of the same hash", base, e.handshake())
			break
		}
		v.mustNotResume(fmt.Sprintf("ticket of a %04x/%04x session presented as %04x/%04x", vers, suite, tv, ts), base, e.handshake())

	case "age": // default (auto-rotated) keys or explicit keys, clock advanced by args[1] hours
		e := newEnv(r, vers, suite, args[0] == "explicit")
		base, _, _, ok := e.issue(v)
		if !ok {
			break
		}
		h := atoi(args[1])
		e.clk.add(time.Duration(h) * time.Hour)
		o := e.handshake()
		v.tag("keys=" + args[0])
		switch {
		case h <= 6*24+23:
			v.tag("age<7d")
			v.mustResume(fmt.Sprintf("ticket aged %dh (< 7 days; the issuing key is still listed)", h), base, o)
		default:
			v.tag("age>7d")
			v.either(fmt.Sprintf("ticket aged %dh", h), base, o)
			// The expired ticket was refused and the full handshake issued a NEW ticket under the current key:
			// that ticket is fresh and must resume.
			if o.ok && !o.sResumed {
				base2 := o
				v.tag("fresh-ticket-after-expired-one")
				v.mustResume(fmt.Sprintf("ticket issued by the full handshake that followed a refused %dh-old ticket", h), base2, e.handshake())
			}
		}

	case "cfg": // server configuration changed between issue and resumption
		e := newEnv(r, vers, suite, true)
		base, _, _, ok := e.issue(v)
		if !ok {
			break
		}
		switch args[0] {
		case "disabled":
			e.scfg.SessionTicketsDisabled = true
			v.mustNotResume("SessionTicketsDisabled set on the server", base, e.handshake())
		case "clientauth":
			e.scfg.ClientAuth = tls.RequireAnyClientCert
			e.ccfg.Certificates = []tls.Certificate{tlsrig.GetPKI().Client["ecdsa"]}
			v.mustNotResume("server now requires a client certificate the session does not have", base, e.handshake())
		case "suite-removed":
			if vers == tls.VersionTLS13 {
				break
			}
			e.scfg.CipherSuites = []uint16{0xc02f, 0xc02b, 0xc013, 0xc009, 0x002f}
			for i, s := range e.scfg.CipherSuites {
				if s == suite {
					e.scfg.CipherSuites = append(e.scfg.CipherSuites[:i:i], e.scfg.CipherSuites[i+1:]...)
					break
				}
			}
			// the client still offers only the old suite: no resumption and no common suite either
			v.mustNotResume("session's suite removed from the server configuration", base, e.handshake())
		case "replay":
			st, _ := e.cache.snapshot()
			e.cache.present(st)
			v.mustResume("first use", base, e.handshake())
			v.mustResume("second use of the same ticket", base, e.handshake())
		}
		v.tag("cfg=" + args[0])
	case "cfclock":
		// GetConfigForClient returns a Config with SessionTicketsDisabled: Config.ticketKeys(configForClient) takes
		// configForClient.mutex.RLock() and (tls/common.go) returns nil on that branch.  Is the read lock released?
		// A later writer on that Config (SetSessionTicketKeys takes mutex.Lock()) shows it: it must return.
		// OBSERVATION only (tag), not a violation: the property text speaks about which tickets resume.
		e := newEnv(r, vers, suite, true)
		inner := e.scfg.Clone()
		inner.SessionTicketsDisabled = args[0] == "disabled"
		e.scfg.GetConfigForClient = func(*tls.ClientHelloInfo) (*tls.Config, error) { return inner, nil }
		o1 := e.handshake()
		if !o1.ok {
			v.fail("handshake through GetConfigForClient (%s) failed: %v", args[0], o1)
			break
		}
		o2 := e.handshake()
		if args[0] == "disabled" {
			v.mustNotResume("per-client Config has SessionTicketsDisabled", o1, o2)
		} else {
			v.mustResume("per-client Config (tickets enabled, keys of the outer Config)", o1, o2)
		}
		done := make(chan struct{})
		go func() { defer close(done); inner.SetSessionTicketKeys([][32]byte{e.keys[1]}) }()
		select {
		case <-done:
			v.tag("obs:cfc-" + args[0] + ":SetSessionTicketKeys-returned")
		case <-time.After(2 * time.Second):
			v.tag("obs:cfc-" + args[0] + ":SetSessionTicketKeys-BLOCKED(read-lock-leaked-by-ticketKeys)")
		}
	case "vr":
		execVR(r, v, vers, suite, args)
	default:
		v.fail("harness: unknown scenario %s", scen)
	}
	out := zv.Out{}
	for t := range v.tags {
		out.Tags = append(out.Tags, t)
	}
	if len(v.viol) > 0 {
		out.Viol = strings.Join(v.viol, " | ")
	}
	return out
}

// ---------- scenario vr: independent client / server version ranges, listeners sharing the ticket keys ----------
//
//   c31 real <seed> <vers> <suite> vr <explicit|auto> <pref> <step> <step> …
//   step = <cmin>-<cmax>/<smin>-<smax>/<listener>/<client suites>/<server suites>     (hex, suites joined by ".")
// <vers> = the version step 0 must negotiate, <suite> fixes the certificate type (all suites of a line share it),
// pref = s: PreferServerCipherSuites.  Listener: same = the issuing Config itself (caps changed), clone = a Clone()
// of it, newcfg = a fresh Config given the same explicit ticket keys (second server of a ticket-key group), gcfc = the
// issuing Config's clone returns the capped Config from GetConfigForClient (keys come from the outer Config).
// Every step is one connection of the SAME client (cache kept, client version range / suites per step).

type vrStep struct {
	cmin, cmax, smin, smax uint16
	listener               string
	cs, ss                 []uint16
}

func hex16(s string) uint16 { n, _ := strconv.ParseUint(s, 16, 16); return uint16(n) }

func parseVRStep(a string) (st vrStep, ok bool) {
	p := strings.Split(a, "/")
	if len(p) != 5 {
		return st, false
	}
	c, s := strings.Split(p[0], "-"), strings.Split(p[1], "-")
	if len(c) != 2 || len(s) != 2 {
		return st, false
	}
	st.cmin, st.cmax, st.smin, st.smax = hex16(c[0]), hex16(c[1]), hex16(s[0]), hex16(s[1])
	st.listener = p[2]
	for _, x := range strings.Split(p[3], ".") {
		st.cs = append(st.cs, hex16(x))
	}
	for _, x := range strings.Split(p[4], ".") {
		st.ss = append(st.ss, hex16(x))
	}
	return st, true
}

func (s vrStep) String() string {
	h := func(l []uint16) string {
		var o []string
		for _, x := range l {
			o = append(o, fmt.Sprintf("%04x", x))
		}
		return strings.Join(o, ".")
	}
	return fmt.Sprintf("%04x-%04x/%04x-%04x/%s/%s/%s", s.cmin, s.cmax, s.smin, s.smax, s.listener, h(s.cs), h(s.ss))
}

func min16(a, b uint16) uint16 {
	if a < b {
		return a
	}
	return b
}

func versName(v uint16) string {
	switch v {
	case 0x0301:
		return "1.0"
	case 0x0302:
		return "1.1"
	case 0x0303:
		return "1.2"
	case 0x0304:
		return "1.3"
	}
	return fmt.Sprintf("%04x", v)
}

func execVR(r *zv.Rng, v *verdicts, vers, suite uint16, args []string) {
	if len(args) < 3 {
		v.fail("harness: vr needs <keys> <pref> <step>…")
		return
	}
	explicit := args[0] == "explicit"
	e := newEnv(r, vers, suite, explicit)
	e.scfg.PreferServerCipherSuites = args[1] == "s"
	v.tag("keys=" + args[0])
	orig := e.scfg
	if !explicit {
		// auto-rotated keys live in the Config that generated them and are copied by Clone(): let the issuing
		// Config generate its key first (as a server that has already served a connection), so that its clones
		// and the GetConfigForClient wrapper belong to the same ticket-key group
		tls.ZVC31Keys(orig, nil)
	}
	var have bool         // a session is in the client's cache
	var cv, csuite uint16 // its version and suite
	var base hsOut        // the handshake that created it
	for i, a := range args[2:] {
		st, ok := parseVRStep(a)
		if !ok {
			v.fail("harness: bad vr step %q", a)
			return
		}
		// --- client of this connection
		e.ccfg.MinVersion, e.ccfg.MaxVersion = st.cmin, st.cmax
		e.ccfg.CipherSuites = st.cs
		// --- listener of this connection
		apply := func(c *tls.Config) *tls.Config {
			c.MinVersion, c.MaxVersion = st.smin, st.smax
			c.CipherSuites = st.ss
			return c
		}
		switch st.listener {
		case "same":
			e.scfg = apply(orig)
		case "clone":
			e.scfg = apply(orig.Clone())
		case "newcfg":
			if !explicit {
				v.fail("harness: listener newcfg needs explicit keys")
				return
			}
			c := &tls.Config{Certificates: orig.Certificates, Time: orig.Time, PreferServerCipherSuites: orig.PreferServerCipherSuites}
			c.SetSessionTicketKeys([][32]byte{e.keys[0]})
			e.scfg = apply(c)
		case "gcfc":
			inner := apply(&tls.Config{Certificates: orig.Certificates, Time: orig.Time, PreferServerCipherSuites: orig.PreferServerCipherSuites})
			outer := orig.Clone()
			outer.GetConfigForClient = func(*tls.ClientHelloInfo) (*tls.Config, error) { return inner, nil }
			e.scfg = outer
		default:
			v.fail("harness: unknown listener %s", st.listener)
			return
		}
		v.tag("listener=" + st.listener)
		want := min16(st.cmax, st.smax) // the version the two ranges determine (the generator keeps them overlapping)
		offered := min16(st.cmax, 0x0303)
		switch {
		case want < offered:
			v.tag("negotiated<offered")
		default:
			v.tag("negotiated=offered")
		}
		_, puts0 := e.cache.snapshot()
		o := e.handshake()
		what := fmt.Sprintf("connection %d (client %s..%s, listener %s %s..%s ⇒ TLS %s)", i, versName(st.cmin), versName(st.cmax), st.listener,
			versName(st.smin), versName(st.smax), versName(want))
		switch {
		case !have:
			// nothing to present: the issuing handshake
			if !o.ok || o.cResumed || o.sResumed {
				v.fail("rig: %s: full handshake without a session failed: %v", what, o)
				return
			}
			if o.vers != want || i == 0 && o.vers != vers {
				v.fail("rig: %s: negotiated %04x", what, o.vers)
				return
			}
			v.tag("step=issue")
		case cv == want && hasSuite(st.cs, csuite, want) && hasSuite(st.ss, csuite, want):
			v.tag("step=resumable")
			v.tag("resumable-at=" + versName(want))
			if want < offered {
				v.tag("resumable-below-client-max")
			}
			v.mustResume(fmt.Sprintf("%s presenting the current-key ticket of a TLS %s / %04x session", what, versName(cv), csuite), base, o)
			if len(v.viol) > 0 {
				return
			}
		default:
			kind := "other-version"
			if cv == want {
				kind = "suite-not-negotiable"
			}
			v.tag("step=not-resumable:" + kind)
			if cv > want {
				v.tag("ticket-version>negotiated")
			} else if cv < want {
				v.tag("ticket-version<negotiated")
			}
			v.mustFull(fmt.Sprintf("%s presenting the ticket of a TLS %s / %04x session (%s)", what, versName(cv), csuite, kind), base, o, want)
			if len(v.viol) > 0 {
				return
			}
		}
		// what the client holds now
		if cst, puts1 := e.cache.snapshot(); cst != nil && puts1 != puts0 {
			nv, ns, _ := tls.ZVSessionInfo(cst)
			if nv != o.vers || !sameSuite(nv, ns, o.suite) {
				v.fail("%s: the client stored a session %04x/%04x after a %04x/%04x handshake", what, nv, ns, o.vers, o.suite)
				return
			}
			if !(o.sResumed && have) {
				base = o
			} else if nv != cv || ns != csuite {
				v.fail("%s: the ticket issued on resumption is for %04x/%04x, the session is %04x/%04x", what, nv, ns, cv, csuite)
				return
			}
			have, cv, csuite = true, nv, ns
		} else if !have {
			v.fail("rig: %s: no session ticket was stored", what)
			return
		}
	}
}

// hasSuite: is the session's suite among l for a handshake at version vers (TLS 1.3 suites are not configurable:
// both sides use the default list, the lines carry only TLS ≤ 1.2 ids)
func hasSuite(l []uint16, s, vers uint16) bool {
	if vers == tls.VersionTLS13 {
		return true
	}
	for _, x := range l {
		if x == s {
			return true
		}
	}
	return false
}

type realCfg struct {
	vers  uint16
	suite uint16
}

var realCfgs = []realCfg{
	{tls.VersionTLS12, 0xc02f}, {tls.VersionTLS12, 0xc030}, {tls.VersionTLS12, 0xc02b}, {tls.VersionTLS12, 0xcca8},
	{tls.VersionTLS12, 0xc013}, {tls.VersionTLS12, 0x009c}, {tls.VersionTLS12, 0x002f},
	{tls.VersionTLS13, 0x1301}, {tls.VersionTLS13, 0x1302}, {tls.VersionTLS13, 0x1303},
	{tls.VersionTLS11, 0xc013}, {tls.VersionTLS10, 0x002f},
}

// suite pools of scenario vr, by certificate type: legal in every protocol version / TLS 1.2 only
var vrAny = map[string][]uint16{"rsa": {0xc013, 0xc014, 0x002f, 0x0035}, "ecdsa": {0xc009, 0xc00a}}
var vr12 = map[string][]uint16{"rsa": {0xc02f, 0xc030, 0xcca8, 0x009c, 0xc027}, "ecdsa": {0xc02b, 0xc02c, 0xcca9}}

var vrVersions = []uint16{0x0301, 0x0302, 0x0303, 0x0304}
var vrListeners = []string{"same", "clone", "newcfg", "gcfc"}

type vrGen struct {
	g  *zv.Gen
	kt string
}

// suites: a preference list out of the pools that always contains `must` (so that every pair of lists of a line has
// a suite in common that is legal at every version); a version-independent suite comes first with probability
// anyFirst % (then a session negotiated at TLS 1.2 has a suite that is also legal below — the version test alone
// stands between its ticket and a resumption at a lower version).
func (x vrGen) suites(must uint16, anyFirst int) []uint16 {
	r := x.g.Rng
	var l []uint16
	for _, s := range vrAny[x.kt] {
		if s != must && r.Chance(40) {
			l = append(l, s)
		}
	}
	pos := r.Intn(len(l) + 1)
	l = append(l[:pos:pos], append([]uint16{must}, l[pos:]...)...)
	var m []uint16
	for _, s := range vr12[x.kt] {
		if r.Chance(45) {
			m = append(m, s)
		}
	}
	if r.Chance(anyFirst) {
		return append(l, m...)
	}
	return append(m, l...)
}

// mins: client and server minimums ≤ the version that will be negotiated
func (x vrGen) mins(cmax, smax uint16) (cmin, smin uint16) {
	r := x.g.Rng
	want := min16(cmax, smax)
	pick := func() uint16 {
		if r.Chance(50) {
			return 0x0301
		}
		return 0x0301 + uint16(r.Intn(int(want-0x0301)+1))
	}
	return pick(), pick()
}

func (x vrGen) step(cmax, smax uint16, listener string, must uint16, anyFirst int) vrStep {
	cmin, smin := x.mins(cmax, smax)
	return vrStep{cmin: cmin, cmax: cmax, smin: smin, smax: smax, listener: listener, cs: x.suites(must, anyFirst), ss: x.suites(must, anyFirst)}
}

func (x vrGen) emit(keys string, steps []vrStep) {
	r := x.g.Rng
	var ss []string
	for _, s := range steps {
		ss = append(ss, s.String())
	}
	pref := "c"
	if r.Chance(30) {
		pref = "s"
	}
	suite := vrAny[x.kt][0]
	x.g.Emitf("c31 real %d %d %d vr %s %s %s", r.U64()>>1, min16(steps[0].cmax, steps[0].smax), suite, keys, pref, strings.Join(ss, " "))
}

// genVR: client and server version ranges chosen independently for the issuing and for the resuming connections.
// A line is the sequence  issue on A · again on A (must resume) · connection to a listener B sharing the keys with
// other caps / other client range (resumes iff it negotiates the session's version) · back on A · random further steps.
func genVR(g *zv.Gen) {
	r := g.Rng
	listenerFor := func(keys string) string {
		l := vrListeners[r.Intn(len(vrListeners))]
		for keys == "auto" && l == "newcfg" {
			l = vrListeners[r.Intn(len(vrListeners))]
		}
		return l
	}
	line := func(cM1, sM1, cM2, sM2 uint16, lB string, keys string, anyFirst int) {
		x := vrGen{g: g, kt: []string{"rsa", "ecdsa"}[r.Intn(2)]}
		must := vrAny[x.kt][r.Intn(len(vrAny[x.kt]))]
		lA := "same"
		if r.Chance(30) {
			lA = listenerFor(keys)
		}
		a := x.step(cM1, sM1, lA, must, anyFirst)
		a2 := a
		if r.Chance(50) { // the same negotiated version reached by other ranges (client max moved above the server cap, …)
			want := min16(cM1, sM1)
			c2, s2 := want+uint16(r.Intn(int(0x0304-want)+1)), want
			if r.Bool() {
				c2, s2 = s2, c2
			}
			a2.cmax, a2.smax = c2, s2
			a2.cmin, a2.smin = x.mins(c2, s2)
		}
		b := x.step(cM2, sM2, lB, must, anyFirst)
		if r.Chance(60) { // keep the suite lists: only the versions differ
			b.cs, b.ss = a.cs, a.ss
		}
		steps := []vrStep{a, a2, b, a}
		for n := r.Intn(3); n > 0; n-- {
			c := x.step(vrVersions[r.Intn(4)], vrVersions[r.Intn(4)], listenerFor(keys), must, anyFirst)
			if r.Chance(50) {
				c.cs, c.ss = a.cs, a.ss
			}
			steps = append(steps, c)
		}
		x.emit(keys, steps)
	}
	keysOf := func() string {
		if r.Chance(25) {
			return "auto"
		}
		return "explicit"
	}
	// grid over the four maxima (issuing client / server, resuming client / server)
	reps := g.N(1, 6)
	for rep := 0; rep < reps; rep++ {
		for _, cM1 := range vrVersions {
			for _, sM1 := range vrVersions {
				for _, cM2 := range vrVersions {
					for _, sM2 := range vrVersions {
						if g.Quick && cM2 != cM1 && sM2 != sM1 && r.Chance(50) {
							continue
						}
						keys := keysOf()
						line(cM1, sM1, cM2, sM2, listenerFor(keys), keys, 60)
					}
				}
			}
		}
	}
	// the two situations in which offered and negotiated version differ, for every listener kind:
	// (1) sessions negotiated below the client's maximum; (2) a ticket presented to a listener capped below its version
	for _, l := range vrListeners {
		for _, keys := range []string{"explicit", "auto"} {
			if keys == "auto" && (l == "newcfg" || g.Quick) {
				continue
			}
			for _, cM := range vrVersions[1:] {
				for _, sM := range vrVersions {
					if sM < cM {
						line(cM, sM, cM, sM, l, keys, 50)  // (1) stays below the client's maximum
						line(cM, cM, cM, sM, l, keys, 100) // (2) issued at the client's maximum, then a lower cap
						line(cM, sM, cM, cM, l, keys, 100) // … and the reverse: cap lifted
					}
				}
			}
		}
	}
}

func genReal(g *zv.Gen) {
	r := g.Rng
	emit := func(c realCfg, scen string, args ...string) {
		g.Emitf("c31 real %d %d %d %s %s", r.U64()>>1, c.vers, c.suite, scen, strings.Join(args, " "))
	}
	genVR(g)
	const chunk = 24
	for ci, c := range realCfgs {
		main := ci < 4 || c.vers == tls.VersionTLS13 // quick: every byte position for the main configurations
		kinds := []string{"rnd"}
		if !g.Quick {
			kinds = []string{"rnd", "bit", "inv", "bit", "rnd"}
		}
		for _, k := range kinds {
			if g.Quick && !main {
				// sampled: one chunk per region
				for _, from := range []int{0, 16, 40, 90} {
					emit(c, "mut", k, strconv.Itoa(from+r.Intn(8)), strconv.Itoa(from+8+r.Intn(8)))
				}
				continue
			}
			for from := 0; from < 400; from += chunk { // tickets are < 400 bytes; the range is clipped to the ticket
				emit(c, "mut", k, strconv.Itoa(from), strconv.Itoa(from+chunk))
				if from > 200 {
					break
				}
			}
		}
		// on-the-wire mutation (client unaware): sampled in quick, every position in thorough
		if g.Quick {
			for _, from := range []int{0, 16, 40, 100} {
				emit(c, "wire", "rnd", strconv.Itoa(from+r.Intn(8)), strconv.Itoa(from+10))
			}
		} else {
			for from := 0; from < 200; from += chunk {
				emit(c, "wire", "bit", strconv.Itoa(from), strconv.Itoa(from+chunk))
			}
		}
		// truncation at every length (thorough) / sampled, extension
		if g.Quick {
			emit(c, "trunc", "-", "0", "4")
			emit(c, "trunc", "-", strconv.Itoa(14+r.Intn(4)), strconv.Itoa(34))
			emit(c, "trunc", "-", strconv.Itoa(60+r.Intn(20)), "400")
		} else {
			for from := 0; from < 200; from += chunk {
				emit(c, "trunc", "-", strconv.Itoa(from), strconv.Itoa(from+chunk))
			}
		}
		emit(c, "extend", "-", "0", strconv.Itoa(g.N(3, 20)))
		// key rotation histories of 0..3 steps over K0..K3
		hist := []string{"-", "0", "0.1", "1.0", "1.2.0", "1", "1.2", "1.0,2.1.0", "1.0,2.1", "1.0,2.1.0,3.2.1", "0.1,1.0,0", "1,0", "1.0,1,1.0", "2.0.0", "0.0"}
		for _, h := range hist {
			emit(c, "rot", h)
		}
		for i := g.N(4, 60); i > 0; i-- {
			var steps []string
			for s := r.Intn(4); s > 0; s-- {
				var ks []string
				for k := 1 + r.Intn(3); k > 0; k-- {
					ks = append(ks, strconv.Itoa(r.Intn(4)))
				}
				steps = append(steps, strings.Join(ks, "."))
			}
			if len(steps) == 0 {
				steps = []string{"-"}
			}
			emit(c, "rot", strings.Join(steps, ","))
		}
		emit(c, "foreign", "explicit")
		emit(c, "foreign", "auto")
		emit(c, "foreign", "samekeys")
		for _, h := range []int{0, 1, 23, 25, 49, 24 * 6, 24*6 + 23, 24*7 + 1, 24 * 8, 24 * 20} {
			emit(c, "age", "auto", strconv.Itoa(h))
			if h < 200 {
				emit(c, "age", "explicit", strconv.Itoa(h))
			}
		}
		for _, k := range []string{"disabled", "clientauth", "suite-removed", "replay"} {
			emit(c, "cfg", k)
		}
		if !g.Quick || ci%4 == 0 { // each "disabled" case waits 2 s for the blocked writer
			emit(c, "cfclock", "disabled")
		}
		emit(c, "cfclock", "enabled")
		// cross-version / cross-suite presentation
		for _, t := range realCfgs {
			if t == c {
				continue
			}
			if g.Quick && r.Chance(50) {
				continue
			}
			emit(c, "cross", strconv.Itoa(int(t.vers)), strconv.Itoa(int(t.suite)))
		}
	}
}
