// Package c31: session tickets (tls/ticket.go, checkForResumption of TLS 1.2 and 1.3, ticket key handling).
//   ticket.go — model correspondence (T2) through the hook tls/zv_c31_verif.go + T3 reference implementation
//   real.go   — T3 with real resumption handshakes
package c31

import (
	"strings"
	"time"

	"zv/internal/zv"
)

func exec(line string) zv.Out {
	f := strings.Fields(line)
	if len(f) > 1 && f[1] == "real" {
		return execReal(line)
	}
	return execTicket(line)
}

func init() {
	zv.Register(&zv.Prop{ID: "C31", Topic: "c31",
		Gen:  func(g *zv.Gen) { genTicket(g); genReal(g) },
		Exec: exec, Timeout: 300 * time.Second, // a real-handshake case is ~30 handshakes; generous for a loaded machine
		Rule: "ticket stream: for random ticket-key lists (1..4 keys, duplicates, rotations) and session states: encryptTicket/decryptTicket on valid tickets under current / old / rotated-out / foreign keys, every single-byte mutation (several flips per position on small tickets, one flip per position on full-size tickets), truncation at every length, extensions, swapped key names; sessionState / sessionStateTLS13 marshal+unmarshal on valid and mutated encodings; the real checkForResumption of TLS 1.2 and TLS 1.3 on scenario grids (expired, wrong version, offered (client hello) version chosen independently of the negotiated one: equal / above / below, grid ticket version x negotiated x offered, suite not offered / not configured / not usable with the key, tickets disabled, client-certificate requirements, PSK modes, binder good/bad/missing, >5 identities) and on every mutated ticket; Config.ticketKeys auto-rotation histories. A case is one distinct line; T3 = independent crypto/aes+crypto/hmac reference of the ticket format, decrypt(encrypt(s)) = s, altered/foreign/rotated-out tickets never accepted or resumed, resumed sessions keep version and suite. real stream (T3 only): real zcrypto client/server resumption handshakes for TLS 1.0-1.3 x 12 (version, suite) configurations: every ticket byte position mutated (cache-presented, consistent client; and on the wire), truncation / extension, foreign servers, key-rotation histories of 0..3 SetSessionTicketKeys calls over 4 keys, auto-rotated keys with an advanced clock, cross-version / cross-suite presentation, server configuration changes, replay, sequences of connections with independently chosen client and server version ranges (maxima and minimums, issuing and resuming connections) over listeners sharing the ticket keys (same Config re-capped, Clone, fresh Config with the same keys, GetConfigForClient; explicit and auto keys): the cached session resumes at exactly its (version, suite) whenever that version is negotiated and the suite still negotiable, otherwise a completed full handshake at the version the ranges determine, never an aborted one; oracle = authentic ticket under a listed key resumes with the original version/suite and equal exporter output on both sides, anything else gives a full handshake or an error, never a resumption"})
}
