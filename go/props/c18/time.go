package c18

// time.Time stream of C18. Lines whose schema is a bare `time` (all `tu` lines, and the `tm` / `tm26` lines with schema
// `time`) are model-compared (lean/ZV/Model/C18Time.lean over lean/ZV/Model/Time.lean); time fields inside structs and
// slices are T3 only (the deep embedding ZV.Model.C18 has no time leaf; Out.Go stays empty).
//
//	c18 tm   <schema> p=<params> <values>   Marshal + round trip to the second + idempotent re-marshal + reference
//	                                        encoder (every encoded time leaf must be the expected UTCTime /
//	                                        GeneralizedTime TLV) + "year outside 0..9999 must be rejected"
//	c18 tm26 <schema> p=<params> <values>   same, for schemas containing a `generalized` + IMPLICIT-tagged time field
//	                                        (DESIGN.md D26: marshalled as GeneralizedTime, decoded as UTCTime); kept in
//	                                        a sub-stream of its own, emitted last, so that a known_findings.json entry
//	                                        can match exactly that class
//	c18 tu   time p=<params> <der>          strict Unmarshal of a hand-made UTCTime / GeneralizedTime TLV compared with
//	                                        the harness' own reference parser (accept/reject, instant, zone, rest)
//
// Value token of a time: T<unix seconds>.<nanoseconds>@<zone offset in seconds>.

import (
	"bytes"
	"fmt"
	"reflect"
	"strconv"
	"strings"
	"time"

	"github.com/zmap/zcrypto/encoding/asn1"

	"zv/internal/zv"
)

func TimeTok(t time.Time) string {
	_, off := t.Zone()
	return fmt.Sprintf("T%d.%d@%d", t.Unix(), t.Nanosecond(), off)
}

func ParseTimeTok(tok string) time.Time {
	if len(tok) < 2 || tok[0] != 'T' {
		panic("value: bad time " + tok)
	}
	at := strings.IndexByte(tok, '@')
	dot := strings.IndexByte(tok, '.')
	if at < 0 || dot < 0 || dot > at {
		panic("value: bad time " + tok)
	}
	sec, e1 := strconv.ParseInt(tok[1:dot], 10, 64)
	ns, e2 := strconv.ParseInt(tok[dot+1:at], 10, 64)
	off, e3 := strconv.Atoi(tok[at+1:])
	if e1 != nil || e2 != nil || e3 != nil || ns < 0 || ns > 999999999 {
		panic("value: bad time " + tok)
	}
	t := time.Unix(sec, ns)
	if off == 0 {
		return t.UTC() // the zero instant becomes exactly time.Time{}
	}
	return t.In(time.FixedZone("", off))
}

var zeroUnix = time.Time{}.Unix()

func inUTCTimeRange(y int) bool { return 1950 <= y && y < 2050 }

func timeInDomain(p Prm, t time.Time) string {
	_, off := t.Zone()
	if off%60 != 0 || off <= -86400 || off >= 86400 {
		return "time zone offset not a whole number of minutes below 24h"
	}
	y := t.Year()
	if y < 0 || y > 9999 {
		return "time year outside 0..9999"
	}
	if p.Time == "utc" && !inUTCTimeRange(y) {
		return "utc time outside 1950..2049"
	}
	if p.HasTag && !p.Explicit && p.Time != "generalized" && !inUTCTimeRange(y) {
		return "implicit time outside 1950..2049 without generalized"
	}
	// A time at the zero instant with a sub-second part is not time.Time{}, but reads back as time.Time{} (times travel
	// to the second). Where the field itself or ANY enclosing struct is OPTIONAL, the decoded value can then be a zero
	// value that Marshal leaves out, so the re-marshalled bytes differ. The documented domain has no such time.
	if t.Unix() == zeroUnix && off == 0 && t.Nanosecond() != 0 {
		return "time at the zero instant that is not time.Time{}"
	}
	return ""
}

type timeLeaf struct {
	t time.Time
	p Prm
}

// timeLeaves lists the time values that Marshal has to encode (fields omitted as optional zero values are skipped).
func timeLeaves(s *Sch, tag string, v reflect.Value, out *[]timeLeaf) {
	p := ParsePrm(tag)
	if p.Optional && !p.HasDefault && reflect.DeepEqual(v.Interface(), reflect.Zero(v.Type()).Interface()) {
		return
	}
	switch s.Kind {
	case "time":
		*out = append(*out, timeLeaf{v.Interface().(time.Time), p})
	case "S":
		for i, f := range s.Fields {
			timeLeaves(f.S, f.Tag, v.Field(i), out)
		}
	case "L", "LS":
		if p.OmitEmpty && v.Len() == 0 {
			return
		}
		for i := 0; i < v.Len(); i++ {
			timeLeaves(s.Elem, "", v.Index(i), out)
		}
	}
}

func timeYearUnrepresentable(s *Sch, tag string, v reflect.Value) bool {
	var ls []timeLeaf
	timeLeaves(s, tag, v, &ls)
	for _, l := range ls {
		if y := l.t.Year(); y < 0 || y > 9999 {
			return true
		}
	}
	return false
}

// HasGeneralizedImplicit: the schema contains a time field with `generalized` and an IMPLICIT tag (D26 class).
func HasGeneralizedImplicit(s *Sch, tag string) bool {
	p := ParsePrm(tag)
	switch s.Kind {
	case "time":
		return p.Time == "generalized" && p.HasTag && !p.Explicit
	case "S":
		for _, f := range s.Fields {
			if HasGeneralizedImplicit(f.S, f.Tag) {
				return true
			}
		}
	case "L", "LS":
		return HasGeneralizedImplicit(s.Elem, "")
	}
	return false
}

func hasTime(s *Sch) bool {
	switch s.Kind {
	case "time":
		return true
	case "S":
		for _, f := range s.Fields {
			if hasTime(f.S) {
				return true
			}
		}
	case "L", "LS":
		return hasTime(s.Elem)
	}
	return false
}

// refTimeContent is the harness' own encoder of the content octets.
func refTimeContent(t time.Time, generalized bool) []byte {
	y, mo, d := t.Date()
	h, mi, s := t.Clock()
	_, off := t.Zone()
	var b strings.Builder
	if generalized {
		fmt.Fprintf(&b, "%04d", y)
	} else {
		fmt.Fprintf(&b, "%02d", y%100)
	}
	fmt.Fprintf(&b, "%02d%02d%02d%02d%02d", int(mo), d, h, mi, s)
	switch {
	case off == 0:
		b.WriteByte('Z')
	case off > 0:
		fmt.Fprintf(&b, "+%02d%02d", off/3600, off%3600/60)
	default:
		fmt.Fprintf(&b, "-%02d%02d", -off/3600, -off%3600/60)
	}
	return []byte(b.String())
}

func timeRefCheck(s *Sch, tag string, v reflect.Value, der []byte) string {
	var ls []timeLeaf
	timeLeaves(s, tag, v, &ls)
	for _, l := range ls {
		gen := l.p.Time == "generalized" || !inUTCTimeRange(l.t.Year())
		c := refTimeContent(l.t, gen)
		needle := append([]byte{byte(len(c))}, c...)
		what := "content"
		if !l.p.HasTag || l.p.Explicit {
			ut := byte(23)
			what = "UTCTime"
			if gen {
				ut, what = 24, "GeneralizedTime"
			}
			needle = append([]byte{ut}, needle...)
		}
		if !bytes.Contains(der, needle) {
			return fmt.Sprintf("Marshal's output %s does not contain the expected %s TLV %s (%q) for the time %s", hx(der), what, hx(needle), c, TimeTok(l.t))
		}
	}
	return ""
}

func timeTags(s *Sch, tag string, v reflect.Value, tags map[string]bool) {
	var ls []timeLeaf
	timeLeaves(s, tag, v, &ls)
	for _, l := range ls {
		y := l.t.Year()
		switch {
		case y < 0, y > 9999:
			tags["time:year-unrepresentable"] = true
		case y == 0 || y == 9999 || (1949 <= y && y <= 1951) || (2049 <= y && y <= 2051) || y == 1999 || y == 2000 || y == 1969 || y == 2068:
			tags[fmt.Sprintf("time:year=%d", y)] = true
		case inUTCTimeRange(y):
			tags["time:year-in-1952..2048"] = true
		default:
			tags["time:year-other"] = true
		}
		_, off := l.t.Zone()
		switch {
		case off == 0:
			tags["time:zone=utc"] = true
		case off%60 == 0:
			tags["time:zone=whole-minutes"] = true
		default:
			tags["time:zone=with-seconds"] = true
		}
		if l.t.Nanosecond() != 0 {
			tags["time:fractional-seconds"] = true
		}
		k := l.p.Time
		if k == "" {
			k = "default"
		}
		tags["time:kind="+k] = true
		switch {
		case !l.p.HasTag:
			tags["time:universal"] = true
		case l.p.Explicit:
			tags["time:explicit"] = true
		default:
			tags["time:implicit"] = true
		}
	}
	if len(ls) == 0 && hasTime(s) {
		tags["time:omitted/empty"] = true
	}
}

// ---------- decode side: reference parser ----------

// refParseTime: the harness' own strict reading of UTCTime (YYMMDDhhmm[ss] + zone) / GeneralizedTime
// (YYYYMMDDhhmmss + zone) contents, zone = "Z" or +hhmm / -hhmm other than 0000 (hh <= 24, mm <= 59, the range the
// decoder's strict re-serialisation test lets through). UTCTime years 50..99 are 19xx, 00..49 are 20xx.
func refParseTime(c []byte, generalized bool) (t time.Time, ok bool) {
	i := 0
	for i < len(c) && '0' <= c[i] && c[i] <= '9' {
		i++
	}
	digits, zone := c[:i], c[i:]
	num := func(b []byte) int {
		n := 0
		for _, x := range b {
			n = n*10 + int(x-'0')
		}
		return n
	}
	var y int
	hasSec := true
	switch {
	case generalized && len(digits) == 14:
		y = num(digits[:4])
		digits = digits[4:]
	case !generalized && (len(digits) == 10 || len(digits) == 12):
		hasSec = len(digits) == 12
		y = num(digits[:2])
		if y >= 50 {
			y += 1900
		} else {
			y += 2000
		}
		digits = digits[2:]
	default:
		return t, false
	}
	mo, d, h, mi, s := num(digits[0:2]), num(digits[2:4]), num(digits[4:6]), num(digits[6:8]), 0
	if hasSec {
		s = num(digits[8:10])
	}
	if mo < 1 || mo > 12 || d < 1 || d > 31 || h > 23 || mi > 59 || s > 59 {
		return t, false
	}
	loc := time.UTC
	switch {
	case len(zone) == 1 && zone[0] == 'Z':
	case len(zone) == 5 && (zone[0] == '+' || zone[0] == '-'):
		for _, x := range zone[1:] {
			if x < '0' || x > '9' {
				return t, false
			}
		}
		zh, zm := num(zone[1:3]), num(zone[3:5])
		if zh > 24 || zm > 59 || zh*60+zm == 0 {
			return t, false
		}
		off := zh*3600 + zm*60
		if zone[0] == '-' {
			off = -off
		}
		loc = time.FixedZone("", off)
	default:
		return t, false
	}
	t = time.Date(y, time.Month(mo), d, h, mi, s, 0, loc)
	if ty, tm, td := t.Date(); ty != y || int(tm) != mo || td != d { // day of month beyond the month's length
		return t, false
	}
	return t, true
}

// execTimeDecode: `c18 tu time p=<params> <der>`; der is [wrapper] tag len content [trailing] with single-byte
// headers. No oracle (only "no panic") for shapes the reference does not cover.
func execTimeDecode(tag string, der []byte, tagset map[string]bool) (out zv.Out) {
	p := ParsePrm(tag)
	var got time.Time
	rest, err := asn1.UnmarshalWithParams(der, &got, tag)
	if err != nil {
		tagset["tu:reject"] = true
		out.Go = "err"
	} else {
		tagset["tu:accept"] = true
		out.Go = fmt.Sprintf("ok %s %d", TimeTok(got), len(rest))
	}
	if p.Optional || p.Set || p.Str != "" || p.HasDefault || (p.Application && p.Private) || (p.HasTag && (p.Tag < 0 || p.Tag > 30)) ||
		(p.Time == "generalized" && p.HasTag && !p.Explicit) {
		tagset["tu:no-oracle"] = true
		return out
	}
	// reference reading of the headers
	b := der
	hdr := func() (tg byte, body []byte, ok, known bool) {
		if len(b) < 2 {
			return 0, nil, false, true
		}
		if b[0]&0x1f == 0x1f || b[1] >= 0x80 {
			return 0, nil, false, false
		}
		l := int(b[1])
		if l > len(b)-2 {
			return 0, nil, false, true
		}
		tg, body = b[0], b[2:2+l]
		b = b[2+l:]
		return tg, body, true, true
	}
	expect := func(ok bool, t time.Time, nrest int, why string) {
		switch {
		case !ok && err == nil:
			out.Viol = fmt.Sprintf("strict Unmarshal accepts %s as %s although %s", hx(der), TimeTok(got), why)
		case ok && err != nil:
			out.Viol = fmt.Sprintf("strict Unmarshal rejects the valid time encoding %s (%s): %v", hx(der), TimeTok(t), err)
		case ok:
			_, o1 := got.Zone()
			_, o2 := t.Zone()
			if got.Unix() != t.Unix() || o1 != o2 || got.Nanosecond() != 0 {
				out.Viol = fmt.Sprintf("Unmarshal decodes %s as %s, expected %s", hx(der), TimeTok(got), TimeTok(t))
			} else if len(rest) != nrest {
				out.Viol = fmt.Sprintf("Unmarshal of %s leaves %d bytes, expected %d", hx(der), len(rest), nrest)
			}
		}
	}
	tg, body, ok, known := hdr()
	if !known {
		tagset["tu:no-oracle"] = true
		return out
	}
	if !ok {
		expect(false, time.Time{}, 0, "the header is truncated")
		return out
	}
	nrest := len(b)
	if p.Explicit {
		if tg != byte(p.class()<<6|0x20|p.Tag) {
			expect(false, time.Time{}, 0, "the explicit wrapper does not carry the expected class/tag")
			return out
		}
		b = body
		tg, body, ok, known = hdr()
		if !known || len(b) != 0 { // inconsistent wrappers are outside the reference
			tagset["tu:no-oracle"] = true
			return out
		}
		if !ok {
			expect(false, time.Time{}, 0, "the element inside the explicit wrapper is truncated")
			return out
		}
	}
	generalized := false
	switch {
	case p.HasTag && !p.Explicit:
		if tg != byte(p.class()<<6|p.Tag) {
			expect(false, time.Time{}, 0, "the identifier octet is not the expected implicit tag (primitive)")
			return out
		}
	case tg == 23:
	case tg == 24:
		generalized = true
	default:
		expect(false, time.Time{}, 0, "the identifier octet is neither UTCTime nor GeneralizedTime (primitive, universal)")
		return out
	}
	t, valid := refParseTime(body, generalized)
	if valid {
		tagset["tu:valid"] = true
		if generalized {
			tagset["tu:generalizedtime"] = true
		} else {
			tagset["tu:utctime"] = true
			tagset[fmt.Sprintf("tu:utctime-len=%d", len(body))] = true
		}
	} else {
		tagset["tu:invalid"] = true
	}
	expect(valid, t, nrest, fmt.Sprintf("%q is not a valid time string of that type", body))
	return out
}

// ---------- generators ----------

var timeYears = []int{-1, 0, 1, 1600, 1899, 1900, 1949, 1950, 1951, 1968, 1969, 1970, 1999, 2000, 2001, 2038, 2049, 2050, 2051, 2068, 2069, 2099, 2100, 9999, 10000}
var timeYearsUTC = []int{1950, 1950, 1951, 1968, 1969, 1970, 1999, 2000, 2001, 2038, 2049, 2049}
var timeMoments = [][5]int{{1, 1, 0, 0, 0}, {12, 31, 23, 59, 59}, {2, 28, 23, 59, 59}, {2, 29, 12, 0, 0}, {7, 14, 12, 30, 15}, {3, 1, 0, 0, 1}}
var timeZonesOK = []int{3600, -3600, 19800, -43200, 50400, 86340, -86340, 60, -60, 7200, -18000}
var timeZonesOdd = []int{30, 3630, -59, 86400, -90000, 1}
var timeNanos = []int{1, 500000000, 999999999, 1000}

func genTimeVal(r *zv.Rng, p Prm) time.Time {
	if p.Optional && r.Chance(25) {
		return time.Time{}
	}
	years := timeYears
	if (p.Time == "utc" || (p.HasTag && !p.Explicit && p.Time != "generalized")) && !r.Chance(12) {
		years = timeYearsUTC
	}
	off := 0
	switch c := r.Intn(100); {
	case c < 55:
	case c < 92:
		off = timeZonesOK[r.Intn(len(timeZonesOK))]
	default:
		off = timeZonesOdd[r.Intn(len(timeZonesOdd))]
	}
	loc := time.UTC
	if off != 0 {
		loc = time.FixedZone("", off)
	}
	ns := 0
	if r.Chance(25) {
		ns = timeNanos[r.Intn(len(timeNanos))]
	}
	var t time.Time
	switch c := r.Intn(100); {
	case c < 70:
		m := timeMoments[r.Intn(len(timeMoments))]
		t = time.Date(years[r.Intn(len(years))], time.Month(m[0]), m[1], m[2], m[3], m[4], ns, loc)
	case c < 85:
		y := years[r.Intn(len(years))]
		t = time.Date(y, time.Month(1+r.Intn(12)), 1+r.Intn(28), r.Intn(24), r.Intn(60), r.Intn(60), ns, loc)
	default:
		lo, hi := 0, 10000
		if len(years) == len(timeYearsUTC) {
			lo, hi = 1950, 2050
		}
		t = time.Date(lo+r.Intn(hi-lo), time.Month(1+r.Intn(12)), 1+r.Intn(31), r.Intn(24), r.Intn(60), r.Intn(60), ns, loc)
	}
	return t
}

// genTimeTag draws the parameters of a time field. allow26: `generalized` may meet an IMPLICIT tag.
func genTimeTag(r *zv.Rng, used map[string]bool, allow26 bool) string {
	var parts []string
	opt := r.Chance(30)
	tagged := opt || r.Chance(45)
	explicit := false
	if tagged {
		cls, clsName := 2, ""
		if c := r.Intn(100); c < 12 {
			cls, clsName = 1, "application"
		} else if c < 24 {
			cls, clsName = 3, "private"
		}
		n := genTagNum(r)
		if r.Chance(12) {
			n = 23 + r.Intn(2) // the universal numbers of UTCTime / GeneralizedTime in another class
		}
		for used[fmt.Sprintf("%d/%d", cls, n)] {
			n++
		}
		used[fmt.Sprintf("%d/%d", cls, n)] = true
		if opt {
			parts = append(parts, "optional")
		}
		if r.Chance(50) {
			explicit = true
			parts = append(parts, "explicit")
		}
		if clsName != "" {
			parts = append(parts, clsName)
		}
		parts = append(parts, "tag:"+strconv.Itoa(n))
	}
	switch c := r.Intn(100); {
	case c < 45:
	case c < 72:
		parts = append(parts, "utc")
	default:
		if tagged && !explicit && !allow26 {
			parts = append([]string{"explicit"}, parts...)
		}
		parts = append(parts, "generalized")
	}
	if len(parts) > 1 && r.Chance(30) {
		i, j := r.Intn(len(parts)), r.Intn(len(parts))
		parts[i], parts[j] = parts[j], parts[i]
	}
	return strings.Join(parts, ",")
}

var timeNeighbours = []string{"i64", "str", "bool", "oct", "oid"}

// GenTimeSch draws a schema with at least a chance of time fields at every level.
func GenTimeSch(r *zv.Rng, depth int, allow26 bool) *Sch {
	c := r.Intn(100)
	switch {
	case depth > 0 && c < 50:
		n := 1 + r.Intn(4)
		s := &Sch{Kind: "S"}
		used := map[string]bool{}
		for i := 0; i < n; i++ {
			f := GenTimeSch(r, depth-1, allow26)
			var tag string
			switch f.Kind {
			case "time":
				tag = genTimeTag(r, used, allow26)
			default:
				tag = GenTag(r, f, false, used, i == n-1)
			}
			s.Fields = append(s.Fields, Fld{tag, f})
		}
		return s
	case depth > 0 && c < 65:
		e := GenTimeSch(r, depth-1, allow26)
		return &Sch{Kind: "L", Elem: e}
	case c < 90 || depth == 0 && c < 95:
		return &Sch{Kind: "time"}
	}
	return &Sch{Kind: timeNeighbours[r.Intn(len(timeNeighbours))]}
}

func emitTime(g *zv.Gen, op string, s *Sch, tag string) {
	val := GenValStr(g.Rng, s, tag, false)
	g.Emitf("c18 %s %s p=%s %s", op, s.String(), tag, val)
	if op == "tm" && FitsExt(s) {
		emitExtDecode(g, s, tag, val)
	}
}

// FitsExt: the schema lies in the extended embedding of lean/ZV/Model/C18Ext.lean - a struct each of whose fields is a
// time.Time or a type without time.Time inside (any type of the old embedding).
func FitsExt(s *Sch) bool {
	if s.Kind != "S" {
		return false
	}
	for _, f := range s.Fields {
		if f.S.Kind != "time" && hasTime(f.S) {
			return false
		}
	}
	return true
}

// extTags: which branches of the extended model a tm line reaches.
func extTags(s *Sch, tag string, tags map[string]bool) {
	nt := 0
	for i, f := range s.Fields {
		if f.S.Kind != "time" {
			tags["ext:neighbour:"+f.S.Kind] = true
			continue
		}
		nt++
		p := ParsePrm(f.Tag)
		if p.Optional {
			if i == len(s.Fields)-1 {
				tags["ext:optional-time-last"] = true
			} else {
				tags["ext:optional-time-inner"] = true
			}
		}
		if p.Explicit {
			tags["ext:time-explicit"] = true
		} else if p.HasTag {
			tags["ext:time-implicit"] = true
		}
		if p.Time != "" {
			tags["ext:time-"+p.Time] = true
		}
	}
	tags[fmt.Sprintf("ext:time-fields:%d", nt)] = true
	if tag != "" {
		tags["ext:top-params"] = true
	}
}

// emitExtDecode: the encoding (by the real code) of an extended-embedding value and mutants of it, for the decode op xu.
func emitExtDecode(g *zv.Gen, s *Sch, tag string, val string) {
	r := g.Rng
	var der []byte
	func() {
		defer func() { recover() }()
		t := s.Type()
		v := BuildStr(s, t, val)
		der, _ = asn1.MarshalWithParams(v.Interface(), tag)
	}()
	if der == nil || len(der) > 600 {
		return
	}
	g.Emitf("c18 xu %s p=%s %s", s.String(), tag, hx(der))
	for i := 0; i < 2; i++ {
		m, _ := Mutate(r, der)
		g.Emitf("c18 xu %s p=%s %s", s.String(), tag, hx(m))
	}
	if r.Chance(30) {
		g.Emitf("c18 xu %s p=%s %s", s.String(), tag, hx(append(append([]byte{}, der...), r.Bytes(1+r.Intn(3))...)))
	}
}

func tlv(tag byte, content []byte) []byte {
	return append([]byte{tag, byte(len(content))}, content...)
}

func genTime(g *zv.Gen) {
	r := g.Rng
	// 1. bare time x every decoration x boundary years x moments x zones x (whole / fractional seconds)
	decos := []string{"", "utc", "generalized", "explicit,tag:0", "explicit,tag:0,utc", "explicit,tag:1,generalized", "tag:0", "tag:2,utc",
		"application,tag:3", "private,tag:4", "application,explicit,tag:5", "private,explicit,tag:6,generalized", "explicit,tag:31", "tag:128,utc",
		// tag numbers that coincide with the universal numbers of the two time types (the decoder's "GeneralizedTime on the
		// wire" substitution must look at the class as well)
		"tag:24", "tag:24,utc", "private,tag:24", "application,tag:23", "explicit,tag:24,utc"}
	zones := []int{0, 3600, -3600, 19800, 30}
	for _, d := range decos {
		for _, y := range timeYears {
			for _, m := range timeMoments {
				for zi, off := range zones {
					if g.Quick && zi >= 3 && (y+m[0]+zi)%3 != 0 {
						continue
					}
					loc := time.UTC
					if off != 0 {
						loc = time.FixedZone("", off)
					}
					ns := 0
					if (y+m[1]+zi)%4 == 0 {
						ns = 999999999
					}
					g.Emitf("c18 tm time p=%s %s", d, TimeTok(time.Date(y, time.Month(m[0]), m[1], m[2], m[3], m[4], ns, loc)))
				}
			}
		}
	}
	// the seconds around every boundary of the UTCTime window and of the representable years, in UTC and in zones that
	// put the local year and the UTC year on different sides
	for _, y := range []int{0, 1950, 2000, 2050, 10000} {
		edge := time.Date(y, 1, 1, 0, 0, 0, 0, time.UTC)
		for _, ds := range []int{-3601, -3600, -61, -60, -2, -1, 0, 1, 59, 60, 3599, 3600} {
			for _, off := range []int{0, 3600, -3600, 60, -60} {
				t := edge.Add(time.Duration(ds) * time.Second)
				if off != 0 {
					t = t.In(time.FixedZone("", off))
				}
				for _, d := range []string{"", "utc", "generalized", "tag:0", "explicit,tag:0"} {
					g.Emitf("c18 tm time p=%s %s", d, TimeTok(t))
				}
			}
		}
	}
	// 2. fixed shapes: validity-like pairs, optional pairs, neighbours on both sides, slices of times
	shapes := []string{
		"S2;p=;time;p=utc;time",
		"S2;p=generalized;time;p=;time",
		"S2;p=optional,explicit,tag:0;time;p=optional,tag:1;time",
		"S3;p=optional,tag:0,utc;time;p=optional,explicit,tag:1,generalized;time;p=;bool",
		"S3;p=;i64;p=generalized;time;p=;str",
		"S3;p=tag:0;time;p=tag:1,utc;time;p=explicit,tag:2,generalized;time",
		"L;time",
		"S1;p=explicit,tag:0;L;time",
		"S2;p=optional,tag:3;L;time;p=;time",
		"L;S2;p=;time;p=optional,explicit,tag:0,generalized;time",
		"S2;p=application,tag:1;time;p=private,explicit,tag:1;time",
	}
	for _, sh := range shapes {
		s := ParseSch(sh)
		for i, n := 0, g.N(60, 1500); i < n; i++ {
			emitTime(g, "tm", s, "")
		}
	}
	// 2b. extended embedding: the same struct shapes under top-level parameters (MarshalWithParams / UnmarshalWithParams)
	for _, sh := range shapes {
		s := ParseSch(sh)
		if !FitsExt(s) {
			continue
		}
		for _, top := range []string{"explicit,tag:1", "tag:2", "application,tag:3", "private,explicit,tag:40", "optional", "set", "optional,tag:0", "utc", "ia5"} {
			for i, n := 0, g.N(6, 100); i < n; i++ {
				emitTime(g, "tm", s, top)
			}
		}
	}
	// 3. random schemas with time fields at every level
	for i, n := 0, g.N(4000, 150000); i < n; i++ {
		s := GenTimeSch(r, 1+r.Intn(3), false)
		tag := ""
		if s.Kind == "time" {
			tag = genTimeTag(r, map[string]bool{}, false)
			tag = strings.ReplaceAll(strings.ReplaceAll(tag, "optional,", ""), "optional", "")
			tag = strings.Trim(strings.ReplaceAll(tag, ",,", ","), ",")
		}
		emitTime(g, "tm", s, tag)
	}
	// 4. decode side: hand-made contents around every guard of parseUTCTime / parseGeneralizedTime
	uYears := []string{"49", "50", "51", "68", "69", "99", "00"}
	gYears := []string{"0000", "0001", "1949", "1950", "1951", "2049", "2050", "2051", "9999"}
	dates := []string{"0101", "0229", "0228", "1231", "0230", "0431", "1301", "0001", "0100", "0132"}
	clocks := []string{"000000", "235959", "240000", "236000", "235960", "0000", "1230", "123015"}
	zs := []string{"Z", "+0000", "-0000", "+0100", "-0100", "+0530", "+2400", "+2430", "+2500", "+0060", "+0160", "-1200", "", "z", "+01", "+01000", ".5Z", ",5Z", ".000Z", "Z ", "+01:00"}
	tuDecos := []string{"", "utc", "generalized", "tag:0", "tag:0,utc", "explicit,tag:0", "explicit,tag:0,generalized", "application,tag:3", "private,explicit,tag:2", "tag:24", "application,tag:24,utc", "tag:23"}
	emitTU := func(d string, ut byte, content []byte) {
		p := ParsePrm(d)
		tg := ut
		if p.HasTag && !p.Explicit {
			tg = byte(p.class()<<6 | p.Tag)
		}
		if r.Chance(6) {
			tg = []byte{23, 24, 0x37, 0x38, 22, 0x80, 0x83, 0xa0}[r.Intn(8)]
		}
		enc := tlv(tg, content)
		if p.Explicit {
			w := byte(p.class()<<6 | 0x20 | p.Tag)
			if r.Chance(4) {
				w ^= []byte{0x20, 0x40, 0x01}[r.Intn(3)]
			}
			enc = tlv(w, enc)
		}
		if r.Chance(8) {
			enc = append(enc, r.Bytes(1+r.Intn(3))...)
		}
		if len(enc) > 2 && r.Chance(3) {
			enc = enc[:len(enc)-1-r.Intn(2)]
		}
		g.Emitf("c18 tu time p=%s %s", d, hx(enc))
	}
	for _, dt := range dates {
		for _, ck := range clocks {
			for _, z := range zs {
				if g.Quick && r.Chance(55) {
					continue
				}
				d := tuDecos[r.Intn(len(tuDecos))]
				for _, y := range uYears {
					emitTU(d, 23, []byte(y+dt+ck+z))
					emitTPC(g, 23, []byte(y+dt+ck+z))
				}
				for _, y := range gYears {
					emitTU(d, 24, []byte(y+dt+ck+z))
					emitTPC(g, 24, []byte(y+dt+ck+z))
				}
			}
		}
	}
	// valid strings with one character replaced / inserted / removed
	for i, n := 0, g.N(3000, 100000); i < n; i++ {
		gen := r.Bool()
		t := genTimeVal(r, Prm{})
		if y := t.Year(); y < 0 || y > 9999 || (!gen && !inUTCTimeRange(y)) {
			continue
		}
		c := refTimeContent(t, gen)
		if !gen && r.Chance(20) && c[len(c)-1] == 'Z' {
			c = append(c[:10:10], 'Z') // the form without seconds
		}
		if r.Chance(75) {
			pos := r.Intn(len(c))
			ch := "0123456789Z+-. 9936"[r.Intn(19)]
			switch r.Intn(3) {
			case 0:
				c[pos] = ch
			case 1:
				c = append(c[:pos:pos], append([]byte{ch}, c[pos:]...)...)
			default:
				c = append(c[:pos:pos], c[pos+1:]...)
			}
		}
		ut := byte(23)
		if gen {
			ut = 24
		}
		emitTU(tuDecos[r.Intn(len(tuDecos))], ut, c)
		emitTPC(g, ut, c)
	}
	// 5. LAST (so that these expected failures can never crowd other violations out of the report): the D26 class,
	// `generalized` + IMPLICIT tag
	for _, y := range []int{1949, 1950, 2000, 2049, 2050, 9999} {
		g.Emitf("c18 tm26 time p=generalized,tag:0 %s", TimeTok(time.Date(y, 7, 14, 12, 30, 15, 0, time.UTC)))
	}
	g.Emitf("c18 tm26 time p=application,generalized,tag:1 %s", TimeTok(time.Date(2024, 2, 29, 23, 59, 59, 0, time.FixedZone("", 3600))))
	g.Emitf("c18 tm26 time p=private,tag:2,generalized %s", TimeTok(time.Date(1999, 12, 31, 23, 59, 59, 0, time.UTC)))
	for _, sh := range []string{
		"S2;p=generalized,tag:0;time;p=;i64",
		"S2;p=;time;p=optional,generalized,tag:1;time",
		"S1;p=explicit,tag:0;S1;p=tag:0,generalized;time",
		"L;S1;p=generalized,tag:5;time",
	} {
		s := ParseSch(sh)
		for i := 0; i < 3; i++ {
			emitTime(g, "tm26", s, "")
		}
	}
	for i := 0; i < 4; i++ {
		for {
			s := GenTimeSch(r, 1+r.Intn(2), true)
			if s.Kind != "time" && HasGeneralizedImplicit(s, "") {
				emitTime(g, "tm26", s, "")
				break
			}
		}
	}
}
