package c18

import (
	"fmt"
	"math/big"
	"reflect"
	"strconv"
	"strings"
	"time"
	"unicode/utf8"

	"github.com/zmap/zcrypto/encoding/asn1"
)

// Prm is the harness' own reading of a tag string (independent of common.go).
type Prm struct {
	Optional, Explicit, Application, Private, Set, OmitEmpty bool
	HasDefault                                                bool
	Default                                                   int64
	HasTag                                                    bool
	Tag                                                       int
	Str                                                       string // "", ia5, printable, numeric, utf8
	Time                                                      string
}

func ParsePrm(tag string) Prm {
	var p Prm
	if tag == "" {
		return p
	}
	for _, part := range strings.Split(tag, ",") {
		switch {
		case part == "optional":
			p.Optional = true
		case part == "explicit":
			p.Explicit = true
			p.HasTag = true
		case part == "application":
			p.Application = true
			p.HasTag = true
		case part == "private":
			p.Private = true
			p.HasTag = true
		case part == "set":
			p.Set = true
		case part == "omitempty":
			p.OmitEmpty = true
		case part == "ia5" || part == "printable" || part == "numeric" || part == "utf8":
			p.Str = part
		case part == "utc" || part == "generalized":
			p.Time = part
		case strings.HasPrefix(part, "default:"):
			if d, err := strconv.ParseInt(part[8:], 10, 64); err == nil {
				p.HasDefault, p.Default = true, d
			}
		case strings.HasPrefix(part, "tag:"):
			if d, err := strconv.Atoi(part[4:]); err == nil {
				p.HasTag, p.Tag = true, d
			}
		}
	}
	return p
}

func (p Prm) class() int {
	if !p.HasTag {
		return 0
	}
	if p.Application {
		return 1
	}
	if p.Private {
		return 3
	}
	return 2
}

func isPrintableByte(b byte, star, amp bool) bool {
	return 'a' <= b && b <= 'z' || 'A' <= b && b <= 'Z' || '0' <= b && b <= '9' || '\'' <= b && b <= ')' ||
		'+' <= b && b <= '/' || b == ' ' || b == ':' || b == '=' || b == '?' || (star && b == '*') || (amp && b == '&')
}

func isIntKind(k string) bool { return k == "i64" || k == "i32" || k == "enum" }

// InDomain is the documented domain of the round-trip property, decided by the harness independently of the
// code under test: "" = in domain, else the reason it is outside.
//   - tag parameters fit the type (default on optional integers, string kinds on strings, set on sequences,
//     omitempty on optional slices, no application+private), Flag fields are optional, RawValue fields carry no
//     tag parameters, and are optional only in last position
//   - in a struct every optional field is tagged, and tagged fields have pairwise distinct (class, tag)
//   - an omitempty slice that is empty is nil (nil and empty slices are otherwise identified by the comparison)
//   - integers fit their type (Enumerated: int32), *big.Int non-nil, OIDs well formed with arcs in [0, 2^31),
//     BitStrings with consistent length and zero padding, strings valid for their kind (IMPLICIT-tagged strings
//     without a string kind: PrintableString alphabet incl. '*' and '&'), RawValue.FullBytes = one canonical TLV
//     agreeing with Class/Tag/IsCompound/Bytes
//   - time.Time (T3-only stream, see time.go): year 0..9999 in the value's own zone, zone offset a whole number of
//     minutes below 24 h; `utc` only on years 1950..2049; an IMPLICIT-tagged time without `generalized` only on
//     years 1950..2049 (the wire form does not say which of the two time types follows); an optional field holding
//     the zero instant is exactly time.Time{}
func InDomain(s *Sch, tag string, v reflect.Value, last bool) string {
	p := ParsePrm(tag)
	if p.Application && p.Private {
		return "application+private"
	}
	if p.HasTag && (p.Tag < 0 || p.Tag > 2147483647) {
		return "tag range"
	}
	if p.HasDefault && !(p.Optional && isIntKind(s.Kind)) {
		return "default on non-optional or non-integer"
	}
	if p.HasDefault && (s.Kind == "i32" || s.Kind == "enum") && (p.Default < -2147483648 || p.Default > 2147483647) {
		return "default range"
	}
	if p.Str != "" && s.Kind != "str" {
		return "string kind on non-string"
	}
	if p.Time != "" && s.Kind != "time" {
		return "time kind on non-time"
	}
	if p.Set && !(s.Kind == "S" || s.Kind == "L") {
		return "set on non-sequence"
	}
	if p.OmitEmpty && !(p.Optional && (s.Kind == "oct" || s.Kind == "L" || s.Kind == "LS")) {
		return "omitempty on non-optional or non-slice"
	}
	if p.OmitEmpty && !v.IsNil() && v.Len() == 0 {
		return "omitempty field holding an empty non-nil slice (decodes as nil; nil is the canonical empty value there)"
	}
	switch s.Kind {
	case "i64":
	case "i32":
	case "enum":
		if v.Int() < -2147483648 || v.Int() > 2147483647 {
			return "enumerated range"
		}
	case "big":
		if v.IsNil() {
			return "nil big.Int"
		}
	case "bool":
	case "flag":
		if !p.Optional {
			return "non-optional Flag"
		}
	case "oct":
	case "str":
		b := []byte(v.String())
		switch p.Str {
		case "":
			if !utf8.Valid(b) {
				return "invalid UTF-8"
			}
			if p.HasTag && !p.Explicit {
				for _, c := range b {
					if !isPrintableByte(c, true, true) {
						return "implicit string without kind, non-printable"
					}
				}
			}
		case "utf8":
			if !utf8.Valid(b) {
				return "invalid UTF-8"
			}
		case "ia5":
			for _, c := range b {
				if c > 127 {
					return "non-IA5"
				}
			}
		case "printable":
			for _, c := range b {
				if !isPrintableByte(c, true, false) {
					return "non-printable"
				}
			}
		case "numeric":
			for _, c := range b {
				if !('0' <= c && c <= '9' || c == ' ') {
					return "non-numeric"
				}
			}
		}
	case "oid":
		o := v.Interface().(asn1.ObjectIdentifier)
		if len(o) < 2 || o[0] < 0 || o[0] > 2 || o[1] < 0 || (o[0] < 2 && o[1] >= 40) || o[0]*40+o[1] > 2147483647 {
			return "malformed OID"
		}
		for _, a := range o[2:] {
			if a < 0 || a > 2147483647 {
				return "OID arc range"
			}
		}
	case "bits":
		b := v.Interface().(asn1.BitString)
		if b.BitLength < 0 || len(b.Bytes) != (b.BitLength+7)/8 {
			return "BitString length"
		}
		if pad := (8 - b.BitLength%8) % 8; pad > 0 && b.Bytes[len(b.Bytes)-1]&(1<<uint(pad)-1) != 0 {
			return "BitString padding"
		}
	case "raw":
		if p.HasTag || p.Set || (p.Optional && !last) {
			return "RawValue with tag parameters / optional not last"
		}
		r := v.Interface().(asn1.RawValue)
		if p.Optional && len(r.FullBytes) == 0 && len(r.Bytes) == 0 && r.Class == 0 && r.Tag == 0 && !r.IsCompound {
			return ""
		}
		if r.Class < 0 || r.Class > 3 || r.Tag < 0 || r.Tag > 2147483647 {
			return "RawValue class/tag"
		}
		want := append(HeaderBytes(r.Class, r.Tag, r.IsCompound, len(r.Bytes)), r.Bytes...)
		if string(want) != string(r.FullBytes) {
			return "RawValue.FullBytes not the canonical TLV"
		}
	case "time":
		if why := timeInDomain(p, v.Interface().(time.Time)); why != "" {
			return why
		}
	case "S":
		seen := map[string]bool{}
		for i, f := range s.Fields {
			fp := ParsePrm(f.Tag)
			if fp.Optional && !fp.HasTag && !(f.S.Kind == "raw") {
				return "optional field without tag"
			}
			if fp.HasTag {
				k := fmt.Sprintf("%d/%d", fp.class(), fp.Tag)
				if seen[k] {
					return "duplicate (class,tag) in struct"
				}
				seen[k] = true
			}
			if why := InDomain(f.S, f.Tag, v.Field(i), i == len(s.Fields)-1); why != "" {
				return why
			}
		}
		for i, f := range s.Fields { // a RawValue must not look like one of the struct's tagged (optional) fields
			if f.S.Kind == "raw" {
				r := v.Field(i).Interface().(asn1.RawValue)
				if seen[fmt.Sprintf("%d/%d", r.Class, r.Tag)] {
					return "RawValue carrying the tag of a sibling field"
				}
			}
		}
	case "L", "LS":
		if s.Elem.Kind == "flag" {
			return "slice of Flag"
		}
		for i := 0; i < v.Len(); i++ {
			if why := InDomain(s.Elem, "", v.Index(i), true); why != "" {
				return why
			}
		}
	}
	return ""
}

// HeaderBytes is the harness' own DER identifier+length encoder.
func HeaderBytes(class, tag int, compound bool, length int) []byte {
	b := byte(class << 6)
	if compound {
		b |= 0x20
	}
	var out []byte
	if tag < 31 {
		out = append(out, b|byte(tag))
	} else {
		out = append(out, b|0x1f)
		var d []byte
		for t := tag; ; t >>= 7 {
			d = append([]byte{byte(t & 0x7f)}, d...)
			if t>>7 == 0 {
				break
			}
		}
		for i := range d[:len(d)-1] {
			d[i] |= 0x80
		}
		out = append(out, d...)
	}
	if length < 128 {
		return append(out, byte(length))
	}
	var l []byte
	for n := length; n > 0; n >>= 8 {
		l = append([]byte{byte(n)}, l...)
	}
	out = append(out, 0x80|byte(len(l)))
	return append(out, l...)
}

// Equal compares an original and a decoded value as the property does: nil and empty slices are identified,
// SET OF members are compared as multisets (of their canonical dumps), *big.Int by value.
func Equal(s *Sch, tag string, a, b reflect.Value) bool {
	p := ParsePrm(tag)
	switch s.Kind {
	case "big":
		if a.IsNil() || b.IsNil() {
			return a.IsNil() == b.IsNil()
		}
		return a.Interface().(*big.Int).Cmp(b.Interface().(*big.Int)) == 0
	case "oct":
		return string(a.Bytes()) == string(b.Bytes())
	case "oid":
		return a.Interface().(asn1.ObjectIdentifier).Equal(b.Interface().(asn1.ObjectIdentifier))
	case "bits":
		x, y := a.Interface().(asn1.BitString), b.Interface().(asn1.BitString)
		return x.BitLength == y.BitLength && string(x.Bytes) == string(y.Bytes)
	case "raw":
		x, y := a.Interface().(asn1.RawValue), b.Interface().(asn1.RawValue)
		return x.Class == y.Class && x.Tag == y.Tag && x.IsCompound == y.IsCompound && string(x.Bytes) == string(y.Bytes) && string(x.FullBytes) == string(y.FullBytes)
	case "time":
		// to the second, same instant and same zone offset (sub-second precision is not representable)
		x, y := a.Interface().(time.Time), b.Interface().(time.Time)
		_, ox := x.Zone()
		_, oy := y.Zone()
		return x.Unix() == y.Unix() && ox == oy
	case "S":
		for i, f := range s.Fields {
			if !Equal(f.S, f.Tag, a.Field(i), b.Field(i)) {
				return false
			}
		}
		return true
	case "L", "LS":
		if a.Len() != b.Len() {
			return false
		}
		if p.Set || s.Kind == "LS" {
			used := make([]bool, b.Len())
		outer:
			for i := 0; i < a.Len(); i++ {
				for j := 0; j < b.Len(); j++ {
					if !used[j] && Equal(s.Elem, "", a.Index(i), b.Index(j)) {
						used[j] = true
						continue outer
					}
				}
				return false
			}
			return true
		}
		for i := 0; i < a.Len(); i++ {
			if !Equal(s.Elem, "", a.Index(i), b.Index(i)) {
				return false
			}
		}
		return true
	default:
		return reflect.DeepEqual(a.Interface(), b.Interface())
	}
}
