package c18

// Time core stream of C18: ties the shared Lean model lean/ZV/Model/Time.lean (calendar, time.Parse / Time.Format for the
// three ASN.1 layouts, parseUTCTime / parseGeneralizedTime, appendUTCTime / appendGeneralizedTime) to the Go code. Every
// line is model-compared (T2); `tac` and `tpc` also carry a T3 oracle.
//
//	c18 tp  <um|us|g> <hex>                 time.Parse(layout, s)                     ok <time> | err
//	c18 tf  <um|us|g> <time>                t.Format(layout)                          ok <hex>
//	c18 tc  <unix> <off>                    time.Unix(unix,0).In(FixedZone(off)) broken down   y/m/d/h/mi/s
//	c18 td  <y> <m> <d> <h> <mi> <s> <off>  time.Date(…, FixedZone(off)).Unix()       <unix>
//	c18 tpc <u|g> s <hex>                   parseUTCTime / parseGeneralizedTime (strict; hook)  ok <time> | err
//	c18 tac <u|g> <time>                    appendUTCTime / appendGeneralizedTime (hook)        ok <hex> | err
//
// layouts: um = "0601021504Z0700", us = "060102150405Z0700", g = "20060102150405Z0700". <time> = T<unix>.<nsec>@<off>.

import (
	"bytes"
	"fmt"
	"strconv"
	"time"

	"github.com/zmap/zcrypto/encoding/asn1"

	"zv/internal/zv"
)

var timeLayouts = map[string]string{"um": "0601021504Z0700", "us": "060102150405Z0700", "g": "20060102150405Z0700"}

func fixedLoc(off int) *time.Location {
	if off == 0 {
		return time.UTC
	}
	return time.FixedZone("", off)
}

func atoiOr(s string) int {
	n, err := strconv.Atoi(s)
	if err != nil {
		panic("bad integer " + s)
	}
	return n
}

// timeContentOracle: the content-level round trip (theorems utctime_roundtrip / gentime_roundtrip): what append wrote is
// accepted by the strict parser and denotes the instant shifted by the sub-minute part of the zone offset, in the zone
// truncated to whole minutes (for whole-minute zones: the same instant and zone).
func timeContentOracle(kind string, t time.Time, enc []byte) string {
	_, off := t.Zone()
	if off <= -90000 || off >= 90000 {
		return "" // the two digits for the zone hours wrap at 100 and the parser refuses hours above 24: outside the theorem
	}
	var back time.Time
	var err error
	if kind == "u" {
		back, err = asn1.ZVParseUTCTime(enc)
	} else {
		back, err = asn1.ZVParseGeneralizedTime(enc)
	}
	if err != nil {
		return fmt.Sprintf("the strict parser rejects %q written by the encoder for %s: %v", enc, TimeTok(t), err)
	}
	_, boff := back.Zone()
	if back.Unix() != t.Unix()+int64(off%60) || boff != off-off%60 || back.Nanosecond() != 0 {
		return fmt.Sprintf("%q written for %s parses as %s", enc, TimeTok(t), TimeTok(back))
	}
	return ""
}

func execTimeCore(f []string) (out zv.Out, handled bool) {
	if len(f) < 2 {
		return out, false
	}
	tag := func(s string) { out.Tags = append(out.Tags, s) }
	switch f[1] {
	case "tp":
		tag("op:tp")
		t, err := time.Parse(timeLayouts[f[2]], string(unhx(f[3])))
		if err != nil {
			out.Go = "err"
			tag("tp:" + f[2] + ":reject")
		} else {
			out.Go = "ok " + TimeTok(t)
			tag("tp:" + f[2] + ":accept")
			if t.Nanosecond() != 0 {
				tag("tp:fraction-accepted")
			}
		}
	case "tf":
		tag("op:tf")
		t := ParseTimeTok(f[3])
		out.Go = "ok " + hx([]byte(t.Format(timeLayouts[f[2]])))
		if y := t.Year(); y < 0 || y > 9999 {
			tag("tf:year-outside-0..9999")
		}
	case "tc":
		tag("op:tc")
		u, _ := strconv.ParseInt(f[2], 10, 64)
		t := time.Unix(u, 0).In(fixedLoc(atoiOr(f[3])))
		y, mo, d := t.Date()
		h, mi, s := t.Clock()
		out.Go = fmt.Sprintf("%d/%d/%d/%d/%d/%d", y, int(mo), d, h, mi, s)
		// T3: the conversion is inverted by time.Date
		if back := time.Date(y, mo, d, h, mi, s, 0, t.Location()).Unix(); back != u {
			out.Viol = fmt.Sprintf("time.Date of the broken-down time of %d gives %d", u, back)
		}
	case "td":
		tag("op:td")
		t := time.Date(atoiOr(f[2]), time.Month(atoiOr(f[3])), atoiOr(f[4]), atoiOr(f[5]), atoiOr(f[6]), atoiOr(f[7]), 0, fixedLoc(atoiOr(f[8])))
		out.Go = strconv.FormatInt(t.Unix(), 10)
		if t.Day() != atoiOr(f[4]) {
			tag("td:day-normalised")
		}
	case "tpc":
		tag("op:tpc")
		if f[3] != "s" {
			panic("c18 tpc: only the strict mode runs in this (parallel) stream")
		}
		in := unhx(f[4])
		var t time.Time
		var err error
		if f[2] == "u" {
			t, err = asn1.ZVParseUTCTime(in)
		} else {
			t, err = asn1.ZVParseGeneralizedTime(in)
		}
		if err != nil {
			out.Go = "err"
			tag("tpc:" + f[2] + ":reject")
			break
		}
		out.Go = "ok " + TimeTok(t)
		tag("tpc:" + f[2] + ":accept")
		// T3 (canonical decoding): an accepted content is what the encoder of the same package writes for the decoded
		// value, except for the UTCTime form without seconds (which the encoder never writes)
		var re []byte
		if f[2] == "u" {
			re, err = asn1.ZVAppendUTCTime(t)
		} else {
			re, err = asn1.ZVAppendGeneralizedTime(t)
		}
		minuteForm := f[2] == "u" && (len(in) == 11 || len(in) == 15)
		switch {
		case err != nil:
			out.Viol = fmt.Sprintf("the parser accepts %q as %s but the encoder cannot represent that value: %v", in, TimeTok(t), err)
		case minuteForm:
			tag("tpc:u:minute-form")
		case !bytes.Equal(re, in):
			out.Viol = fmt.Sprintf("the parser accepts %q as %s but the encoder writes %q for it (non-canonical content accepted)", in, TimeTok(t), re)
		}
	case "tac":
		tag("op:tac")
		t := ParseTimeTok(f[3])
		var enc []byte
		var err error
		if f[2] == "u" {
			enc, err = asn1.ZVAppendUTCTime(t)
		} else {
			enc, err = asn1.ZVAppendGeneralizedTime(t)
		}
		y := t.Year()
		inRange := 0 <= y && y <= 9999
		if f[2] == "u" {
			inRange = inUTCTimeRange(y)
			if asn1.ZVOutsideUTCRange(t) == inRange {
				out.Viol = fmt.Sprintf("outsideUTCRange disagrees with 1950 <= year < 2050 for %s", TimeTok(t))
			}
		}
		if err != nil {
			out.Go = "err"
			tag("tac:" + f[2] + ":err")
			if inRange {
				out.Viol = fmt.Sprintf("the encoder rejects %s although its year %d is representable", TimeTok(t), y)
			}
			break
		}
		out.Go = "ok " + hx(enc)
		tag("tac:" + f[2] + ":ok")
		if !inRange {
			out.Viol = fmt.Sprintf("the encoder accepts %s although its year %d is not representable", TimeTok(t), y)
		} else if out.Viol == "" {
			out.Viol = timeContentOracle(f[2], t, enc)
		}
	default:
		return out, false
	}
	return out, true
}

// ---------- generators ----------

var coreOffs = []int{0, 0, 0, 3600, -3600, 19800, -43200, 50400, 86340, -86340, 86400, -86400, 89940, -89940, 90000, -90000, 60, -60, 59, -59, 30, -30, 1, -1, 61, 3630, -3661, 360000, -360060}

func coreOff(r *zv.Rng) int {
	if r.Chance(80) {
		return coreOffs[r.Intn(len(coreOffs))]
	}
	return r.Intn(200001) - 100000
}

// year 0 .. 10000 in Unix seconds
const unixYear0, unixYear10000 = -62167219200, 253402300800

func coreUnix(r *zv.Rng) int64 {
	switch c := r.Intn(100); {
	case c < 35:
		// around a year boundary
		y := timeYears[r.Intn(len(timeYears))]
		return time.Date(y, 1, 1, 0, 0, 0, 0, time.UTC).Unix() + int64(r.Intn(7201)-3600)
	case c < 50:
		// around the end of February / of a month
		y := []int{0, 4, 100, 400, 1600, 1900, 1952, 1999, 2000, 2023, 2024, 2048, 2100, 2400, 9996, 9999}[r.Intn(16)]
		return time.Date(y, time.Month(1+r.Intn(12)), 28+r.Intn(4), 0, 0, 0, 0, time.UTC).Unix() + int64(r.Intn(7201)-3600)
	case c < 90:
		return unixYear0 + int64(r.U64()%uint64(unixYear10000-unixYear0))
	}
	return unixYear0 - 5*366*86400 + int64(r.U64()%uint64(unixYear10000-unixYear0+2000*366*86400))
}

func coreTime(r *zv.Rng) time.Time {
	t := time.Unix(coreUnix(r), 0).In(fixedLoc(coreOff(r)))
	if r.Chance(10) {
		t = t.Add(time.Duration(1 + r.Intn(999999999)))
	}
	return t
}

func genTimeCore(g *zv.Gen) {
	// a generator of its own, so that the lines of the older streams do not depend on this one
	r := zv.NewRng(g.Seed*0x9e3779b97f4a7c15 + 0x7c18)
	// ---- calendar ----
	for i, n := 0, g.N(4000, 150000); i < n; i++ {
		g.Emitf("c18 tc %d %d", coreUnix(r), coreOff(r))
	}
	for _, y := range []int{-1, 0, 1, 4, 100, 400, 1900, 1970, 2000, 2024, 2100, 9999, 10000} {
		for m := 1; m <= 12; m++ {
			for _, d := range []int{0, 1, 28, 29, 30, 31, 32} {
				g.Emitf("c18 td %d %d %d %d %d %d %d", y, m, d, r.Intn(24), r.Intn(60), r.Intn(60), coreOff(r))
			}
		}
	}
	for i, n := 0, g.N(2000, 80000); i < n; i++ {
		g.Emitf("c18 td %d %d %d %d %d %d %d", r.Intn(10003)-2, 1+r.Intn(12), r.Intn(33), r.Intn(24), r.Intn(60), r.Intn(60), coreOff(r))
	}
	// ---- Time.Format ----
	for i, n := 0, g.N(3000, 100000); i < n; i++ {
		g.Emitf("c18 tf %s %s", []string{"um", "us", "g"}[r.Intn(3)], TimeTok(coreTime(r)))
	}
	// ---- time.Parse: valid strings, every single-character replacement from a small alphabet (exhaustive for a few
	// base strings), random edits ----
	alphabet := "0123456789Z+-.,: z/"
	bases := map[string][]string{
		"um": {"4912312359Z", "5001010000+0100", "6902291200-2400"},
		"us": {"491231235959Z", "500101000000+0100", "000229120030-2459", "680229120030.5Z"},
		"g":  {"20240229235959Z", "00000101000000+0100", "99991231235959-2400", "20230615123015.123456789Z", "20230615123015,5+0530"},
	}
	for _, l := range []string{"um", "us", "g"} {
		for _, b := range bases[l] {
			g.Emitf("c18 tp %s %s", l, hx([]byte(b)))
			for pos := 0; pos < len(b); pos++ {
				for _, ch := range []byte(alphabet) {
					m := []byte(b)
					m[pos] = ch
					g.Emitf("c18 tp %s %s", l, hx(m))
				}
				g.Emitf("c18 tp %s %s", l, hx([]byte(b[:pos])))             // truncated
				g.Emitf("c18 tp %s %s", l, hx([]byte(b[:pos]+b[pos+1:])))   // one character removed
				g.Emitf("c18 tp %s %s", l, hx([]byte(b[:pos]+"0"+b[pos:]))) // one digit inserted
			}
			g.Emitf("c18 tp %s %s", l, hx([]byte(b+"0")))
			g.Emitf("c18 tp %s %s", l, hx([]byte(b+" ")))
		}
		// every two-character year field over the alphabet (atoi accepts a sign there), every zone sign / hour / minute boundary
		rest := map[string]string{"um": "01021504Z", "us": "0102150405Z", "g": "0102150405Z"}[l]
		for _, a := range []byte(alphabet) {
			for _, b := range []byte(alphabet) {
				y := string([]byte{a, b})
				if l == "g" {
					g.Emitf("c18 tp %s %s", l, hx([]byte(y+"24"+rest)))
					g.Emitf("c18 tp %s %s", l, hx([]byte("20"+y+rest)))
				} else {
					g.Emitf("c18 tp %s %s", l, hx([]byte(y+rest)))
				}
			}
		}
		stem := map[string]string{"um": "2401021504", "us": "240102150405", "g": "20240102150405"}[l]
		for _, z := range []string{"Z", "z", "", "+", "+0000", "-0000", "+0001", "-0001", "+0059", "+0060", "+0061", "+0100", "-0100", "+2359", "+2400", "-2400", "+2459", "-2459",
			"+2460", "+2461", "+2500", "-2500", "+9999", "+24600", "+240", " 0100", "00100", "Z0100", "+01:00", "+0A00", "+010A", "ZZ", "+0100Z", ".5Z", ".Z", ",5Z", ".5", ".5+0100",
			".0Z", ".000000000Z", ".0000000001Z", ".9999999999Z", ".99999999999999999999Z", ".5.5Z", "..5Z"} {
			g.Emitf("c18 tp %s %s", l, hx([]byte(stem+z)))
		}
		// month / day / hour / minute / second ranges
		for _, md := range []string{"0001", "0100", "0101", "0131", "0132", "0199", "0228", "0229", "0230", "0431", "0430", "1231", "1232", "1301", "9901"} {
			for _, yy := range []string{"00", "23", "24", "68", "69"} {
				s := yy + md
				if l == "g" {
					s = map[string]string{"00": "1900", "23": "2023", "24": "2024", "68": "2000", "69": "2100"}[yy] + md
				}
				tail := map[string]string{"um": "1504Z", "us": "150405Z", "g": "150405Z"}[l]
				g.Emitf("c18 tp %s %s", l, hx([]byte(s+tail)))
			}
		}
		for _, ck := range []string{"0000", "2359", "2400", "2360", "0060", "9999", "1 30", "130", "1:30"} {
			pre := map[string]string{"um": "240102", "us": "240102", "g": "20240102"}[l]
			for _, sec := range []string{"", "00", "59", "60", "99", "5"} {
				if l == "um" && sec != "" {
					continue
				}
				if l != "um" && sec == "" {
					continue
				}
				g.Emitf("c18 tp %s %s", l, hx([]byte(pre+ck+sec+"Z")))
			}
		}
	}
	for i, n := 0, g.N(6000, 200000); i < n; i++ {
		l := []string{"um", "us", "g"}[r.Intn(3)]
		t := coreTime(r)
		s := []byte(t.Format(timeLayouts[l]))
		if r.Chance(15) { // cross: a string of one layout under another one
			s = []byte(t.Format(timeLayouts[[]string{"um", "us", "g"}[r.Intn(3)]]))
		}
		for k := r.Intn(3); k > 0 && len(s) > 0; k-- {
			pos := r.Intn(len(s))
			ch := alphabet[r.Intn(len(alphabet))]
			switch r.Intn(3) {
			case 0:
				s[pos] = ch
			case 1:
				s = append(s[:pos:pos], append([]byte{ch}, s[pos:]...)...)
			default:
				s = append(s[:pos:pos], s[pos+1:]...)
			}
		}
		g.Emitf("c18 tp %s %s", l, hx(s))
	}
	// ---- appendUTCTime / appendGeneralizedTime (hooks) ----
	for _, y := range []int{0, 1, 1950, 2000, 2050, 9999, 10000} {
		edge := time.Date(y, 1, 1, 0, 0, 0, 0, time.UTC)
		for _, ds := range []int{-3601, -3600, -61, -60, -2, -1, 0, 1, 59, 60, 3599, 3600} {
			for _, off := range []int{0, 3600, -3600, 60, -60, 30, -30, 86400, -86400, 89940, 90000} {
				t := edge.Add(time.Duration(ds) * time.Second).In(fixedLoc(off))
				g.Emitf("c18 tac u %s", TimeTok(t))
				g.Emitf("c18 tac g %s", TimeTok(t))
			}
		}
	}
	for i, n := 0, g.N(3000, 100000); i < n; i++ {
		t := coreTime(r)
		k := "g"
		if r.Bool() {
			k = "u"
			if r.Chance(85) { // mostly inside the UTCTime window
				t = time.Unix(time.Date(1950, 1, 1, 0, 0, 0, 0, time.UTC).Unix()+int64(r.U64()%(100*366*86400)), 0).In(fixedLoc(coreOff(r)))
			}
		}
		g.Emitf("c18 tac %s %s", k, TimeTok(t))
	}
}

// emitTPC sends one content string to the content parser op as well (called by the `tu` generator for every content it
// wraps into a TLV).
func emitTPC(g *zv.Gen, ut byte, content []byte) {
	k := "u"
	if ut == 24 {
		k = "g"
	}
	g.Emitf("c18 tpc %s s %s", k, hx(content))
}
