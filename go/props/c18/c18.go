package c18

import (
	"bytes"
	"fmt"
	"reflect"
	"strings"

	"github.com/zmap/zcrypto/encoding/asn1"

	"zv/internal/zv"
)

func init() {
	zv.Register(&zv.Prop{ID: "C18", Topic: "c18", Gen: gen, Exec: Exec,
		Rule: "random Go struct types built with reflect.StructOf (nested structs/slices, optional/default/explicit/implicit/application/private/set/omitempty/string-kind tags, RawValue, *big.Int, OID, BitString, Flag, Enumerated, SET-named slices) with random values: Marshal compared with the model (bytes), strict Unmarshal of valid and mutated encodings compared with the model (value, rest); round trip + idempotence oracle on every in-domain value; every in-domain value is also sent to the decidable domain predicate InDomain of the Lean theorem (op d: the driver must answer `in`); time core stream (all model-compared, lean/ZV/Model/Time.lean): time.Parse with the three ASN.1 layouts on valid strings, every single-character replacement over a 19-character alphabet in 12 base strings, truncations / insertions / removals, every two-character year over the alphabet (atoi accepts a sign), every zone form (Z, +-0000..+-2500, +hh60, colon forms, fractions) and month/day/clock range, random edits (op tp); Time.Format incl. years outside 0..9999 and zones with seconds / beyond 24h (tf); time.Unix(..).In(zone) broken down and time.Date(..).Unix() on year boundaries, leap days, days 0 and 32 (tc, td); parseUTCTime / parseGeneralizedTime on every content of the tu stream with a canonical-decoding oracle (tpc); appendUTCTime / appendGeneralizedTime on the window and year boundaries in zones of whole minutes, with seconds and beyond 24h, with the content round-trip oracle (tac); time.Time stream (T3; lines whose schema is a bare `time` - all of tu, and tm/tm26 with schema time - are also model-compared, lean/ZV/Model/C18Time.lean): bare / struct / slice time fields with plain, utc, generalized, explicit/implicit/application/private tags (incl. tag numbers 23/24), optional; values on the years -1/0/1, 1949/1950/1951, 1999/2000, 2049/2050/2051, 2068/2069, 9999/10000 and the seconds around each window edge, zones of whole minutes / with seconds, fractional seconds; oracle = year outside 0..9999 rejected, reference encoder (expected UTCTime vs GeneralizedTime TLV), round trip to the second incl. zone offset, byte-identical re-marshal; hand-made and mutated UTCTime/GeneralizedTime contents decoded and compared with the harness reference parser (op tu); the generalized+IMPLICIT class (D26) is a sub-stream of its own (op tm26, emitted last); non-trivial = distinct case lines"})
}

// UnmarshalDump runs the real Unmarshal and renders (value, len(rest)) canonically.
func UnmarshalDump(s *Sch, t reflect.Type, tag string, der []byte) string {
	pv := reflect.New(t)
	rest, err := asn1.UnmarshalWithParams(der, pv.Interface(), tag)
	if err != nil {
		return "err"
	}
	return "ok " + DumpStr(s, pv.Elem()) + " " + fmt.Sprint(len(rest))
}

func parseLine(line string) (op string, s *Sch, t reflect.Type, tag string, arg string) {
	f := strings.Fields(line)
	if len(f) != 5 || !strings.HasPrefix(f[3], "p=") {
		panic("bad case line")
	}
	s = ParseSch(f[2])
	t = s.Type()
	if back := SchemaOf(t).String(); back != f[2] {
		panic("schema derived from the Go type by reflection differs from the case line: " + back)
	}
	return f[1], s, t, f[3][2:], f[4]
}

func kindTags(s *Sch, tag string, tags map[string]bool) {
	tags["k:"+s.Kind] = true
	p := ParsePrm(tag)
	if p.Optional {
		tags["p:optional"] = true
	}
	if p.Explicit {
		tags["p:explicit"] = true
	} else if p.HasTag {
		tags["p:implicit"] = true
	}
	if p.Application {
		tags["p:application"] = true
	}
	if p.Private {
		tags["p:private"] = true
	}
	if p.HasDefault {
		tags["p:default"] = true
	}
	if p.Set {
		tags["p:set"] = true
	}
	if p.OmitEmpty {
		tags["p:omitempty"] = true
	}
	if p.Str != "" {
		tags["p:"+p.Str] = true
	}
	for _, f := range s.Fields {
		kindTags(f.S, f.Tag, tags)
	}
	if s.Elem != nil {
		kindTags(s.Elem, "", tags)
	}
}

// execMarshal: Marshal on the real code + the T3 sentence (round trip, all bytes consumed, equal value, byte-identical
// re-marshal) for values of the documented domain. withTime adds the oracles of the time.Time stream.
func execMarshal(s *Sch, t reflect.Type, tag, arg string, tagset map[string]bool, withTime bool) (out zv.Out) {
	v := BuildStr(s, t, arg)
	der, err := asn1.MarshalWithParams(v.Interface(), tag)
	why := InDomain(s, tag, v, true)
	if withTime {
		timeTags(s, tag, v, tagset)
	}
	if err != nil {
		out.Go = "err"
		tagset["marshal-err"] = true
		if withTime && timeYearUnrepresentable(s, tag, v) {
			tagset["time:year-rejected"] = true
		}
		if why == "" {
			tagset["indomain-marshal-err"] = true
			out.Viol = "Marshal rejects a value of the documented domain: " + err.Error()
		}
		return out
	}
	out.Go = "ok " + hx(der)
	if withTime && timeYearUnrepresentable(s, tag, v) {
		out.Viol = "Marshal accepts a time.Time whose year is outside 0..9999 (not representable as GeneralizedTime): " + hx(der)
		return out
	}
	if why != "" {
		tagset["outside-domain"] = true
		return out
	}
	tagset["indomain"] = true
	if withTime {
		// independent reference encoder: every encoded time leaf must appear as the expected UTCTime / GeneralizedTime TLV
		if msg := timeRefCheck(s, tag, v, der); msg != "" {
			out.Viol = msg
			return out
		}
	}
	// T3: the sentence of the property on the real code
	pv := reflect.New(t)
	rest, err := asn1.UnmarshalWithParams(der, pv.Interface(), tag)
	switch {
	case err != nil:
		out.Viol = "strict Unmarshal rejects Marshal's output " + hx(der) + ": " + err.Error()
		if withTime && HasGeneralizedImplicit(s, tag) {
			tagset["time:D26-generalized-implicit-rejected"] = true
			out.Viol += " [D26 generalized+implicit: a time.Time field with `generalized` and an IMPLICIT tag is marshalled as GeneralizedTime but decoded as UTCTime]"
		}
	case len(rest) != 0:
		out.Viol = fmt.Sprintf("Unmarshal of Marshal's output %s leaves %d bytes", hx(der), len(rest))
	case !Equal(s, tag, v, pv.Elem()):
		out.Viol = "round trip changed the value: " + hx(der) + " decodes to " + DumpStr(s, pv.Elem())
	default:
		der2, err := asn1.MarshalWithParams(pv.Elem().Interface(), tag)
		if err != nil {
			out.Viol = "re-marshal of the decoded value fails: " + err.Error()
		} else if !bytes.Equal(der, der2) {
			out.Viol = "re-marshal of the decoded value differs: " + hx(der) + " vs " + hx(der2)
		}
	}
	return out
}

func Exec(line string) zv.Out {
	if out, ok := execTimeCore(strings.Fields(line)); ok {
		return out
	}
	op, s, t, tag, arg := parseLine(line)
	tagset := map[string]bool{"op:" + op: true}
	kindTags(s, tag, tagset)
	var out zv.Out
	switch op {
	case "m":
		out = execMarshal(s, t, tag, arg, tagset, false)
	case "tm", "tm26": // time.Time stream: model-compared for a bare time.Time, T3 only for time fields inside structs / slices
		out = execMarshal(s, t, tag, arg, tagset, true)
		if s.Kind == "time" {
			tagset["time:model-compared"] = true
		} else if FitsExt(s) {
			// extended embedding (lean/ZV/Model/C18Ext.lean): a struct whose fields are time.Time or time-free types
			tagset["time:ext-model-compared"] = true
			extTags(s, tag, tagset)
		} else {
			out.Go = ""
		}
	case "tu":
		out = execTimeDecode(tag, unhx(arg), tagset)
	case "d": // the harness' documented domain must lie inside the domain of the Lean theorem (driver prints in/out)
		if InDomain(s, tag, BuildStr(s, t, arg), true) == "" {
			out.Go = "in"
			tagset["claimed-value-vs-proved-domain"] = true
		}
	case "xu": // strict Unmarshal into a struct with time fields, model-compared (ZV.Model.C18Ext.parseXStruct)
		if !FitsExt(s) {
			out.Go = "bad-op"
			break
		}
		out.Go = UnmarshalDump(s, t, tag, unhx(arg))
		if out.Go == "err" {
			tagset["xu:err"] = true
		} else {
			tagset["xu:ok"] = true
		}
	case "u":
		out.Go = UnmarshalDump(s, t, tag, unhx(arg))
		if out.Go == "err" {
			tagset["unmarshal-err"] = true
		} else {
			tagset["unmarshal-ok"] = true
		}
	default:
		out.Go = "bad-op"
	}
	for k := range tagset {
		out.Tags = append(out.Tags, k)
	}
	return out
}

// Corpus: hand-picked nasty combinations.
var corpus = []string{
	"c18 m S2;p=optional,tag:0;i64;p=;i64 p= V2;i0;i5",
	"c18 m S2;p=optional,explicit,tag:0;i64;p=;oct p= V2;i0;x-",
	"c18 m S1;p=private,explicit,tag:1;i64 p= V1;i7",
	"c18 m S1;p=private,tag:1;i64 p= V1;i7",
	"c18 m S1;p=application,explicit,tag:1;i64 p= V1;i7",
	"c18 m L;i64 p=set V3;i3;i1;i2",
	"c18 m LS;i64 p= V3;i300;i1;i2",
	"c18 m L;L;str p= V2;V2;x61;xc3a9;V0",
	"c18 m S2;p=optional,default:5;i64;p=;i64 p= V2;i5;i5",
	"c18 m str p=tag:0 x2a26",
	"c18 m str p=tag:0 x40",
	"c18 m flag p=optional,explicit,tag:0 t",
	"c18 m oid p= o2.2147483567.0.2147483647",
	"c18 m big p= i-128",
	"c18 m big p= i128",
	"c18 m bits p= b9:ff80",
	"c18 m raw p= r2:3:t:0500:a3020500",
	"c18 u S2;p=optional,tag:0;i64;p=;i64 p= 3003020105",
	"c18 u i64 p= 02810105",
	"c18 u i64 p= 02020005",
	"c18 u str p= 130140",
	"c18 u S1;p=optional,explicit,tag:0;i64 p= 3002a000",
	"c18 u L;str p= 30060c0161130162",
	"c18 u str p= 1e0400610062",
}

func emitCase(g *zv.Gen, s *Sch, tag string, wild bool, nmut int) {
	r := g.Rng
	val := GenValStr(r, s, tag, wild)
	sch := s.String()
	g.Emitf("c18 m %s p=%s %s", sch, tag, val)
	// encoding (by the real code) and its mutants for the decode stream
	var der []byte
	claimed := false
	func() {
		defer func() { recover() }()
		t := s.Type()
		v := BuildStr(s, t, val)
		claimed = InDomain(s, tag, v, true) == ""
		der, _ = asn1.MarshalWithParams(v.Interface(), tag)
	}()
	if claimed {
		// every value for which the T3 oracle claims the property is also sent to the Lean domain predicate of the theorem
		g.Emitf("c18 d %s p=%s %s", sch, tag, val)
	}
	if der == nil {
		der = r.Bytes(r.Intn(6))
	}
	if len(der) > 600 {
		return
	}
	g.Emitf("c18 u %s p=%s %s", sch, tag, hx(der))
	for i := 0; i < nmut; i++ {
		m, _ := Mutate(r, der)
		if r.Chance(20) {
			m, _ = Mutate(r, m)
		}
		g.Emitf("c18 u %s p=%s %s", sch, tag, hx(m))
	}
}

// GenTopTag draws top-level parameters for MarshalWithParams / UnmarshalWithParams.
func GenTopTag(r *zv.Rng, s *Sch, wild bool) string {
	if r.Chance(55) {
		return ""
	}
	return GenTag(r, s, wild, map[string]bool{}, true)
}

func gen(g *zv.Gen) {
	for _, c := range corpus {
		g.Emit(c)
	}
	r := g.Rng
	// every primitive kind × every single-parameter decoration, several values (small exhaustive layer)
	for _, k := range []string{"i64", "i32", "enum", "big", "bool", "oid", "bits", "oct", "str", "raw", "flag"} {
		for _, tag := range []string{"", "tag:0", "explicit,tag:1", "optional,tag:2", "optional,explicit,tag:3", "application,tag:4", "private,tag:5",
			"application,explicit,tag:6", "private,explicit,tag:7", "tag:31", "explicit,tag:128", "optional", "optional,default:5", "optional,default:5,tag:1",
			"ia5", "printable", "numeric", "utf8", "utf8,tag:0", "ia5,explicit,tag:0", "set", "omitempty", "optional,omitempty,tag:0"} {
			for i := 0; i < g.N(3, 12); i++ {
				emitCase(g, &Sch{Kind: k}, tag, r.Chance(20), 2)
			}
		}
	}
	// exhaustive small contents for every primitive decoder: all 1-byte contents, and 2-byte contents whose first byte is a
	// boundary value (thorough: all 2-byte contents), under the type's own universal tag; plus length 0
	utags := map[string][]byte{"i64": {2}, "i32": {2}, "enum": {10}, "big": {2}, "bool": {1}, "oid": {6}, "bits": {3}, "oct": {4},
		"str": {0x13, 0x12, 0x16, 0x0c, 0x14, 0x1b, 0x1e}, "flag": {1}}
	firsts := []int{0, 1, 7, 8, 9, 0x27, 0x28, 0x4f, 0x50, 0x7f, 0x80, 0x81, 0xc2, 0xe0, 0xed, 0xf0, 0xf4, 0xfe, 0xff}
	for _, k := range []string{"i64", "i32", "enum", "big", "bool", "oid", "bits", "oct", "str", "flag"} {
		for _, tg := range utags[k] {
			g.Emitf("c18 u %s p= %s", k, hx([]byte{tg, 0}))
			for a := 0; a < 256; a++ {
				g.Emitf("c18 u %s p= %s", k, hx([]byte{tg, 1, byte(a)}))
			}
			if g.Quick {
				for _, a := range firsts {
					for b := 0; b < 256; b++ {
						g.Emitf("c18 u %s p= %s", k, hx([]byte{tg, 2, byte(a), byte(b)}))
					}
				}
			} else {
				for a := 0; a < 256; a++ {
					for b := 0; b < 256; b++ {
						g.Emitf("c18 u %s p= %s", k, hx([]byte{tg, 2, byte(a), byte(b)}))
					}
				}
			}
		}
	}
	// every header of up to 3 bytes in front of one content byte (identifier octet × length octet forms)
	for a := 0; a < 256; a++ {
		for _, l := range [][]byte{{0}, {1}, {2}, {0x7f}, {0x80}, {0x81, 0}, {0x81, 1}, {0x81, 0x7f}, {0x81, 0x80}, {0x82, 0, 1}, {0x82, 1, 0}, {0x85, 0, 0, 0, 0, 1}, {0xff}} {
			enc := append(append([]byte{byte(a)}, l...), 0xff)
			g.Emitf("c18 u raw p= %s", hx(enc))
			if a&0x1f == 2 || a&0x1f == 4 {
				g.Emitf("c18 u %s p= %s", []string{"i64", "oct"}[a&0x1f/4], hx(enc))
			}
		}
	}
	// random in-domain-shaped types
	n := g.N(9000, 300000)
	for i := 0; i < n; i++ {
		s := GenSch(r, 1+r.Intn(3), false, false)
		emitCase(g, s, GenTopTag(r, s, false), false, 2)
	}
	// wild: arbitrary parameter combinations and invalid values (T2 only unless they happen to be in the domain)
	n = g.N(3000, 100000)
	for i := 0; i < n; i++ {
		s := GenSch(r, 1+r.Intn(3), true, false)
		emitCase(g, s, GenTopTag(r, s, true), true, 2)
	}
	// cross-decoding: the encoding of one type under another type's eyes
	n = g.N(1500, 50000)
	for i := 0; i < n; i++ {
		a := GenSch(r, 1+r.Intn(2), false, false)
		b := GenSch(r, 1+r.Intn(2), r.Chance(30), false)
		func() {
			defer func() { recover() }()
			v := BuildStr(a, a.Type(), GenValStr(r, a, "", false))
			der, err := asn1.Marshal(v.Interface())
			if err == nil && len(der) < 400 {
				g.Emitf("c18 u %s p=%s %s", b.String(), GenTopTag(r, b, false), hx(der))
			}
		}()
	}
	// time core (calendar, time.Parse / Format, content parsers and encoders): all model-compared
	genTimeCore(g)
	// time.Time; its last lines are the D26 class
	genTime(g)
}
