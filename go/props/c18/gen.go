package c18

import (
	"fmt"
	"math/big"
	"strconv"
	"strings"

	"zv/internal/zv"
)

var primKinds = []string{"i64", "i64", "i32", "enum", "big", "bool", "oid", "bits", "oct", "str", "str", "raw", "flag"}

// GenSch draws a random schema. wild=false: only shapes that can be in the round-trip domain.
func GenSch(r *zv.Rng, depth int, wild bool, inSlice bool) *Sch {
	c := r.Intn(100)
	switch {
	case depth > 0 && c < 30:
		n := r.Intn(5)
		if r.Chance(10) {
			n = 5 + r.Intn(3)
		}
		s := &Sch{Kind: "S"}
		used := map[string]bool{}
		for i := 0; i < n; i++ {
			f := GenSch(r, depth-1, wild, false)
			s.Fields = append(s.Fields, Fld{GenTag(r, f, wild, used, i == n-1), f})
		}
		return s
	case depth > 0 && c < 45:
		if r.Chance(25) {
			e := SetElems()[r.Intn(len(SetElems()))]
			return &Sch{Kind: "LS", Elem: ParseSch(e)}
		}
		return &Sch{Kind: "L", Elem: GenSch(r, depth-1, wild, true)}
	}
	for {
		k := primKinds[r.Intn(len(primKinds))]
		if k == "flag" && inSlice && !wild {
			continue
		}
		return &Sch{Kind: k}
	}
}

func genTagNum(r *zv.Rng) int {
	if r.Chance(85) {
		return r.Intn(6)
	}
	return []int{30, 31, 32, 127, 128, 16383, 16384, 2147483647, 7, 15}[r.Intn(10)]
}

// GenTag draws the asn1 struct tag of a field of schema f. used: (class/tag) keys already taken in the struct.
func GenTag(r *zv.Rng, f *Sch, wild bool, used map[string]bool, last bool) string {
	var parts []string
	if wild {
		all := []string{"optional", "explicit", "application", "private", "set", "omitempty", "ia5", "printable", "numeric", "utf8",
			"tag:0", "tag:1", "tag:2", "tag:31", "default:0", "default:5", "default:-1", "optional", "explicit", "tag:0"}
		n := r.Intn(4)
		for i := 0; i < n; i++ {
			parts = append(parts, all[r.Intn(len(all))])
		}
		return strings.Join(parts, ",")
	}
	if f.Kind == "raw" {
		if last && r.Chance(30) {
			return "optional"
		}
		return ""
	}
	opt := r.Chance(35) || f.Kind == "flag"
	tagged := opt || r.Chance(30)
	if tagged {
		cls, clsName := 2, ""
		if c := r.Intn(100); c < 10 {
			cls, clsName = 1, "application"
		} else if c < 20 {
			cls, clsName = 3, "private"
		}
		n := genTagNum(r)
		for used[fmt.Sprintf("%d/%d", cls, n)] {
			n++
		}
		used[fmt.Sprintf("%d/%d", cls, n)] = true
		if opt {
			parts = append(parts, "optional")
		}
		if r.Chance(40) {
			parts = append(parts, "explicit")
		}
		if clsName != "" {
			parts = append(parts, clsName)
		}
		parts = append(parts, "tag:"+strconv.Itoa(n))
	}
	if opt && isIntKind(f.Kind) && r.Chance(50) {
		parts = append(parts, "default:"+strconv.Itoa([]int{0, 1, 5, -1, 127, 128, -129, 65536}[r.Intn(8)]))
	}
	if f.Kind == "str" && r.Chance(55) {
		parts = append(parts, []string{"ia5", "printable", "numeric", "utf8"}[r.Intn(4)])
	}
	if opt && (f.Kind == "oct" || f.Kind == "L" || f.Kind == "LS") && r.Chance(35) {
		parts = append(parts, "omitempty")
	}
	if (f.Kind == "S" || f.Kind == "L") && r.Chance(15) {
		parts = append(parts, "set")
	}
	if len(parts) > 1 && r.Chance(30) { // order of the parts must not matter
		i, j := r.Intn(len(parts)), r.Intn(len(parts))
		parts[i], parts[j] = parts[j], parts[i]
	}
	return strings.Join(parts, ",")
}

var interestingInts = []int64{0, 1, -1, 127, 128, -128, -129, 255, 256, 32767, 32768, -32768, -32769, 8388607, 8388608,
	2147483647, -2147483648, 2147483648, -2147483649, 1 << 40, -(1 << 40), 9223372036854775807, -9223372036854775808, 72057594037927935, -72057594037927936}

func genBytes(r *zv.Rng) []byte {
	c := r.Intn(100)
	switch {
	case c < 15:
		return []byte{}
	case c < 90:
		return r.Bytes(1 + r.Intn(8))
	case c < 97:
		return r.Bytes([]int{126, 127, 128, 129, 255, 256, 257}[r.Intn(7)])
	default:
		return r.Bytes(300 + r.Intn(70000)/((r.Intn(20))+1))
	}
}

const printableChars = "abcXYZ019 '()+,-./:=?"

func genStr(r *zv.Rng, kind string, wild bool) []byte {
	n := r.Intn(7)
	var b []byte
	pick := func(set string) {
		for i := 0; i < n; i++ {
			b = append(b, set[r.Intn(len(set))])
		}
	}
	if wild && r.Chance(35) {
		kind = []string{"", "ia5", "printable", "numeric", "utf8", "bin"}[r.Intn(6)]
	}
	switch kind {
	case "printable":
		pick(printableChars + "*")
	case "numeric":
		pick("0123456789 ")
	case "ia5":
		pick(printableChars + "*&@_\x00\x7f!\"#")
	case "bin":
		b = r.Bytes(n)
	case "impl": // implicit tag without a string kind: PrintableString alphabet on decode
		pick(printableChars + "*&")
	default: // "", utf8
		c := r.Intn(100)
		switch {
		case c < 35:
			pick(printableChars)
		case c < 55:
			pick(printableChars + "*&@_")
		default:
			for i := 0; i < n; i++ {
				b = append(b, []byte(string([]rune{[]rune{'a', 'é', 'ß', '€', '中', 0x10348, 0x7f, 0x80, 0x7ff, 0x800, 0xffff, 0x10ffff, '*'}[r.Intn(13)]}))...)
			}
		}
	}
	return b
}

func genArc(r *zv.Rng, wild bool) int64 {
	c := r.Intn(100)
	switch {
	case c < 60:
		return int64(r.Intn(200))
	case c < 90:
		return []int64{0, 127, 128, 16383, 16384, 2097151, 2097152, 268435455, 268435456, 2147483647}[r.Intn(10)]
	case wild && c < 95:
		return []int64{-1, 2147483648, 1 << 35, -128}[r.Intn(4)]
	default:
		return int64(r.Intn(1 << 31))
	}
}

// GenVal draws value tokens for schema s under field tag `tag`.
func GenVal(r *zv.Rng, s *Sch, tag string, wild bool, out *[]string) {
	p := ParsePrm(tag)
	add := func(t string) { *out = append(*out, t) }
	switch s.Kind {
	case "i64", "i32", "enum":
		var n int64
		c := r.Intn(100)
		switch {
		case p.Optional && c < 25:
			n = p.Default // the omitted case (zero when there is no default)
		case c < 55:
			n = interestingInts[r.Intn(len(interestingInts))]
		case c < 80:
			n = int64(r.Intn(512)) - 256
		default:
			n = int64(r.U64()) >> uint(r.Intn(64))
		}
		if s.Kind == "i32" || (s.Kind == "enum" && !(wild && r.Chance(20))) {
			n = int64(int32(n))
		}
		add("i" + strconv.FormatInt(n, 10))
	case "big":
		if wild && r.Chance(8) {
			add("n")
			return
		}
		c := r.Intn(100)
		var b *big.Int
		switch {
		case c < 30:
			b = big.NewInt(interestingInts[r.Intn(len(interestingInts))])
		case c < 60:
			k := uint(1 + r.Intn(20)*8)
			b = new(big.Int).Lsh(big.NewInt(1), k-1)
			b.Add(b, big.NewInt(int64(r.Intn(3))-1))
			if r.Bool() {
				b.Neg(b)
			}
		default:
			b = new(big.Int).SetBytes(r.Bytes(r.Intn(24)))
			if r.Bool() {
				b.Neg(b)
			}
		}
		add("i" + b.String())
	case "bool":
		if r.Bool() {
			add("t")
		} else {
			add("f")
		}
	case "flag":
		if r.Bool() {
			add("t")
		} else {
			add("f")
		}
	case "oct":
		if r.Chance(12) {
			add("n")
			return
		}
		add("x" + hx(genBytes(r)))
	case "str":
		k := p.Str
		if k == "" && p.HasTag && !p.Explicit {
			k = "impl"
		}
		add("x" + hx(genStr(r, k, wild)))
	case "oid":
		if wild && r.Chance(10) {
			add([]string{"n", "o", "o1", "o3.1", "o1.40", "o0.39", "o2.2147483567", "o2.2147483568", "o-1.5", "o1.-1"}[r.Intn(10)])
			return
		}
		a0 := int64(r.Intn(3))
		var a1 int64
		if a0 < 2 {
			a1 = int64(r.Intn(40))
		} else if r.Chance(70) {
			a1 = int64(r.Intn(200))
		} else {
			a1 = []int64{47, 48, 175, 176, 2147483567, 16303, 16304}[r.Intn(7)]
		}
		arcs := []string{strconv.FormatInt(a0, 10), strconv.FormatInt(a1, 10)}
		for i, n := 0, r.Intn(6); i < n; i++ {
			arcs = append(arcs, strconv.FormatInt(genArc(r, wild), 10))
		}
		add("o" + strings.Join(arcs, "."))
	case "bits":
		b := genBytes(r)
		if len(b) > 300 {
			b = b[:300]
		}
		pad := 0
		if len(b) > 0 {
			pad = r.Intn(8)
			b[len(b)-1] &^= byte(1<<uint(pad) - 1)
		}
		bl := len(b)*8 - pad
		if wild && r.Chance(15) {
			bl = []int{bl + 8, bl - 8, -1, bl + 1, 0}[r.Intn(5)]
			if len(b) > 0 && r.Bool() {
				b[len(b)-1] |= 1
			}
		}
		add("b" + strconv.Itoa(bl) + ":" + hx(b))
	case "raw":
		if p.Optional && r.Chance(30) {
			add("r0:0:f:-:-")
			return
		}
		cls, tg, comp := r.Intn(4), r.Intn(31), r.Bool()
		if r.Chance(10) {
			tg = genTagNum(r)
		}
		if !wild && cls != 0 {
			tg += 100 // keep clear of the small tags used by sibling fields
		}
		body := genBytes(r)
		if len(body) > 400 {
			body = body[:400]
		}
		full := append(HeaderBytes(cls, tg, comp, len(body)), body...)
		if wild {
			switch r.Intn(6) {
			case 0:
				full = nil
			case 1:
				full = r.Bytes(1 + r.Intn(5))
			}
		}
		c := "f"
		if comp {
			c = "t"
		}
		add(fmt.Sprintf("r%d:%d:%s:%s:%s", cls, tg, c, hx(body), hx(full)))
	case "time":
		add(TimeTok(genTimeVal(r, p)))
	case "S":
		add("V" + strconv.Itoa(len(s.Fields)))
		for _, f := range s.Fields {
			GenVal(r, f.S, f.Tag, wild, out)
		}
	case "L", "LS":
		c := r.Intn(100)
		if c < 10 {
			add("n")
			return
		}
		n := 0
		switch {
		case c < 20:
			n = 0
		case c < 45:
			n = 1
		case c < 95:
			n = 2 + r.Intn(3)
		default:
			n = 5 + r.Intn(40)
		}
		add("V" + strconv.Itoa(n))
		for i := 0; i < n; i++ {
			GenVal(r, s.Elem, "", wild, out)
		}
	}
}

func GenValStr(r *zv.Rng, s *Sch, tag string, wild bool) string {
	var t []string
	GenVal(r, s, tag, wild, &t)
	return strings.Join(t, ";")
}

// Mutate returns a mutated copy of a DER encoding, aimed at the guards of parseField / parseTagAndLength / the
// primitive parsers (header bytes, length forms, integer minimality, string tags, truncation, trailing data).
func Mutate(r *zv.Rng, b []byte) ([]byte, string) {
	out := append([]byte{}, b...)
	if len(out) == 0 {
		return []byte{byte(r.Intn(256))}, "mut-empty"
	}
	// header positions: walk top-level and nested TLVs loosely
	var hdrs []int
	var walk func(off, end, depth int)
	walk = func(off, end, depth int) {
		for off < end && len(hdrs) < 64 {
			hdrs = append(hdrs, off)
			p := off + 1
			if out[off]&0x1f == 0x1f {
				for p < end && out[p]&0x80 != 0 {
					p++
				}
				p++
			}
			if p >= end {
				return
			}
			l := int(out[p])
			p++
			if l&0x80 != 0 {
				n := l & 0x7f
				l = 0
				for i := 0; i < n && p < end; i++ {
					l = l<<8 | int(out[p])
					p++
				}
			}
			if l < 0 || l > end-p {
				return
			}
			if out[off]&0x20 != 0 && depth < 6 {
				walk(p, p+l, depth+1)
			}
			off = p + l
		}
	}
	walk(0, len(out), 0)
	h := hdrs[r.Intn(len(hdrs))]
	lenPos := func(h int) int { // index of the first length byte (only for low tags)
		if out[h]&0x1f == 0x1f {
			return -1
		}
		return h + 1
	}
	switch r.Intn(14) {
	case 0:
		out[r.Intn(len(out))] ^= byte(1 << uint(r.Intn(8)))
		return out, "mut-bitflip"
	case 1:
		return out[:r.Intn(len(out))], "mut-truncate"
	case 2:
		return append(out, r.Bytes(1+r.Intn(3))...), "mut-trailing"
	case 3: // short length → long form 0x81 (non-minimal length): fix nothing else when it is the outermost header
		lp := lenPos(h)
		if lp > 0 && lp < len(out) && out[lp] < 0x80 {
			n := append([]byte{}, out[:lp]...)
			n = append(n, 0x81, out[lp])
			n = append(n, out[lp+1:]...)
			fixParents(n, hdrs, h, 1)
			return n, "mut-longform-len"
		}
		return out, "mut-none"
	case 4: // leading 0x00 / 0xff in front of the content (non-minimal integer)
		lp := lenPos(h)
		if lp > 0 && lp < len(out) && out[lp] < 0x7f && out[h]&0x20 == 0 {
			pad := byte(0)
			if lp+1 < len(out) && out[lp+1]&0x80 != 0 {
				pad = 0xff
			}
			if r.Chance(20) {
				pad ^= 0xff
			}
			n := append([]byte{}, out[:lp]...)
			n = append(n, out[lp]+1, pad)
			n = append(n, out[lp+1:]...)
			fixParents(n, hdrs, h, 1)
			return n, "mut-int-pad"
		}
		return out, "mut-none"
	case 5: // change the tag number, keep class
		tags := []byte{1, 2, 3, 4, 5, 6, 10, 12, 16, 17, 18, 19, 20, 22, 23, 24, 27, 30, 0}
		out[h] = out[h]&0xe0 | tags[r.Intn(len(tags))]
		return out, "mut-tag"
	case 6: // change the class
		out[h] = out[h]&0x3f | byte(r.Intn(4))<<6
		return out, "mut-class"
	case 7: // toggle constructed
		out[h] ^= 0x20
		return out, "mut-compound"
	case 8: // length ± 1
		lp := lenPos(h)
		if lp > 0 && lp < len(out) && out[lp] < 0x80 {
			if r.Bool() {
				out[lp]++
			} else if out[lp] > 0 {
				out[lp]--
			}
			return out, "mut-len"
		}
		return out, "mut-none"
	case 9: // content byte replaced by an interesting value
		i := r.Intn(len(out))
		out[i] = []byte{0, 0x7f, 0x80, 0xff, 0x2a, 0x26, 0x40, 0xc0, 0x1f, 0x81}[r.Intn(10)]
		return out, "mut-byte"
	case 10: // indefinite / zero long-form / oversized long-form length
		lp := lenPos(h)
		if lp > 0 && lp < len(out) {
			n := append([]byte{}, out[:lp]...)
			n = append(n, [][]byte{{0x80}, {0x81, 0x00}, {0x82, 0x00, out[lp]}, {0x84, 0x7f, 0xff, 0xff, 0xff}, {0x83, 0x80, 0, 0}, {0x84, 0, 0x80, 0, 0}}[r.Intn(6)]...)
			n = append(n, out[lp+1:]...)
			return n, "mut-lenform"
		}
		return out, "mut-none"
	case 11: // drop one whole element
		return append(append([]byte{}, out[:h]...), out[min(len(out), h+2):]...), "mut-drop2"
	case 12: // duplicate the tail from a header on
		return append(out, out[h:]...), "mut-dup"
	default: // high-tag-number form of the same tag (non-minimal tag)
		if out[h]&0x1f != 0x1f {
			n := append([]byte{}, out[:h]...)
			n = append(n, out[h]|0x1f, out[h]&0x1f)
			n = append(n, out[h+1:]...)
			fixParents(n, hdrs, h, 1)
			return n, "mut-hightag"
		}
		return out, "mut-none"
	}
}

// fixParents adds delta to the short-form length byte of every header that encloses position h (best effort).
func fixParents(n []byte, hdrs []int, h int, delta int) {
	for _, p := range hdrs {
		if p >= h || n[p]&0x1f == 0x1f || p+1 >= len(n) {
			continue
		}
		l := int(n[p+1])
		if l < 0x80-delta && p+2 <= h && p+2+l > h { // encloses h (lengths before the insertion point are still valid)
			n[p+1] = byte(l + delta)
		}
	}
}
