// Package c18: encoding/asn1 Marshal/Unmarshal correspondence (deep embedding: schema term derived from a real Go
// type by reflection) and the round-trip / idempotence oracle.  Shared with c20 (strict vs permissive).
package c18

import (
	"encoding/hex"
	"fmt"
	"math/big"
	"reflect"
	"strconv"
	"strings"
	"time"

	"github.com/zmap/zcrypto/encoding/asn1"
)

// Sch is the schema term sent on the case line (prefix notation, ';'-separated).
type Sch struct {
	Kind    string // i64 i32 enum big bool oid bits oct str raw flag time S L LS
	Fields  []Fld  // S
	Elem    *Sch   // L, LS
}
type Fld struct {
	Tag string
	S   *Sch
}

func (s *Sch) toks(out *[]string) {
	switch s.Kind {
	case "S":
		*out = append(*out, "S"+strconv.Itoa(len(s.Fields)))
		for _, f := range s.Fields {
			*out = append(*out, "p="+f.Tag)
			f.S.toks(out)
		}
	case "L", "LS":
		*out = append(*out, s.Kind)
		s.Elem.toks(out)
	default:
		*out = append(*out, s.Kind)
	}
}
func (s *Sch) String() string {
	var t []string
	s.toks(&t)
	return strings.Join(t, ";")
}

func parseSchToks(t []string) (*Sch, []string) {
	if len(t) == 0 {
		panic("schema: out of tokens")
	}
	k, rest := t[0], t[1:]
	switch {
	case k == "L" || k == "LS":
		e, r := parseSchToks(rest)
		return &Sch{Kind: k, Elem: e}, r
	case strings.HasPrefix(k, "S"):
		n, err := strconv.Atoi(k[1:])
		if err != nil {
			panic("schema: bad token " + k)
		}
		s := &Sch{Kind: "S"}
		for i := 0; i < n; i++ {
			if !strings.HasPrefix(rest[0], "p=") {
				panic("schema: expected p=")
			}
			tag := rest[0][2:]
			var f *Sch
			f, rest = parseSchToks(rest[1:])
			s.Fields = append(s.Fields, Fld{tag, f})
		}
		return s, rest
	default:
		return &Sch{Kind: k}, rest
	}
}
func ParseSch(str string) *Sch {
	s, r := parseSchToks(strings.Split(str, ";"))
	if len(r) != 0 {
		panic("schema: trailing tokens")
	}
	return s
}

// named slice types whose name ends in "SET" (cannot be made by reflection)
type I64SET []int64
type StrSET []string
type OctSET [][]byte
type BoolSET []bool
type OidSET []asn1.ObjectIdentifier
type BigSET []*big.Int
type Pair struct {
	A int64
	B string
}
type PairSET []Pair
type I64SETSET []I64SET

var setTypes = map[string]reflect.Type{
	"i64":            reflect.TypeOf(I64SET(nil)),
	"str":            reflect.TypeOf(StrSET(nil)),
	"oct":            reflect.TypeOf(OctSET(nil)),
	"bool":           reflect.TypeOf(BoolSET(nil)),
	"oid":            reflect.TypeOf(OidSET(nil)),
	"big":            reflect.TypeOf(BigSET(nil)),
	"S2;p=;i64;p=;str": reflect.TypeOf(PairSET(nil)),
	"LS;i64":         reflect.TypeOf(I64SETSET(nil)),
}

// SetElems lists the element schemas for which a SET-named slice type exists.
func SetElems() []string {
	return []string{"i64", "str", "oct", "bool", "oid", "big", "S2;p=;i64;p=;str", "LS;i64"}
}

var (
	tBig   = reflect.TypeOf((*big.Int)(nil))
	tOID   = reflect.TypeOf(asn1.ObjectIdentifier(nil))
	tBits  = reflect.TypeOf(asn1.BitString{})
	tRaw   = reflect.TypeOf(asn1.RawValue{})
	tFlag  = reflect.TypeOf(asn1.Flag(false))
	tEnum  = reflect.TypeOf(asn1.Enumerated(0))
	tBytes = reflect.TypeOf([]byte(nil))
	tTime  = reflect.TypeOf(time.Time{})
)

// Type builds the real Go type the schema term denotes.
func (s *Sch) Type() reflect.Type {
	switch s.Kind {
	case "i64":
		return reflect.TypeOf(int64(0))
	case "i32":
		return reflect.TypeOf(int32(0))
	case "enum":
		return tEnum
	case "big":
		return tBig
	case "bool":
		return reflect.TypeOf(false)
	case "oid":
		return tOID
	case "bits":
		return tBits
	case "oct":
		return tBytes
	case "str":
		return reflect.TypeOf("")
	case "raw":
		return tRaw
	case "flag":
		return tFlag
	case "time":
		return tTime
	case "L":
		return reflect.SliceOf(s.Elem.Type())
	case "LS":
		t, ok := setTypes[s.Elem.String()]
		if !ok {
			panic("no SET-named type for element " + s.Elem.String())
		}
		return t
	case "S":
		var fs []reflect.StructField
		for i, f := range s.Fields {
			sf := reflect.StructField{Name: "F" + strconv.Itoa(i), Type: f.S.Type()}
			if f.Tag != "" {
				sf.Tag = reflect.StructTag(`asn1:"` + f.Tag + `"`)
			}
			fs = append(fs, sf)
		}
		return reflect.StructOf(fs)
	}
	panic("schema: unknown kind " + s.Kind)
}

// SchemaOf derives the schema term from a real Go type by reflection (the direction the model relies on).
func SchemaOf(t reflect.Type) *Sch {
	switch t {
	case tBig:
		return &Sch{Kind: "big"}
	case tOID:
		return &Sch{Kind: "oid"}
	case tBits:
		return &Sch{Kind: "bits"}
	case tRaw:
		return &Sch{Kind: "raw"}
	case tFlag:
		return &Sch{Kind: "flag"}
	case tEnum:
		return &Sch{Kind: "enum"}
	case tTime:
		return &Sch{Kind: "time"}
	}
	switch t.Kind() {
	case reflect.Int64, reflect.Int:
		return &Sch{Kind: "i64"}
	case reflect.Int32:
		return &Sch{Kind: "i32"}
	case reflect.Bool:
		return &Sch{Kind: "bool"}
	case reflect.String:
		return &Sch{Kind: "str"}
	case reflect.Slice:
		if t.Elem().Kind() == reflect.Uint8 {
			return &Sch{Kind: "oct"}
		}
		k := "L"
		if strings.HasSuffix(t.Name(), "SET") {
			k = "LS"
		}
		return &Sch{Kind: k, Elem: SchemaOf(t.Elem())}
	case reflect.Struct:
		s := &Sch{Kind: "S"}
		for i := 0; i < t.NumField(); i++ {
			f := t.Field(i)
			s.Fields = append(s.Fields, Fld{f.Tag.Get("asn1"), SchemaOf(f.Type)})
		}
		return s
	}
	panic("SchemaOf: unsupported type " + t.String())
}

func hx(b []byte) string {
	if len(b) == 0 {
		return "-"
	}
	return hex.EncodeToString(b)
}
func unhx(s string) []byte {
	if s == "-" {
		return nil
	}
	b, err := hex.DecodeString(s)
	if err != nil {
		panic("bad hex " + s)
	}
	return b
}

// Dump writes the canonical value tokens of v (whose type was built from s).
func Dump(s *Sch, v reflect.Value, out *[]string) {
	switch s.Kind {
	case "i64", "i32", "enum":
		*out = append(*out, "i"+strconv.FormatInt(v.Int(), 10))
	case "big":
		if v.IsNil() {
			*out = append(*out, "n")
		} else {
			*out = append(*out, "i"+v.Interface().(*big.Int).String())
		}
	case "bool", "flag":
		if v.Bool() {
			*out = append(*out, "t")
		} else {
			*out = append(*out, "f")
		}
	case "oct":
		if v.IsNil() {
			*out = append(*out, "n")
		} else {
			*out = append(*out, "x"+hx(v.Bytes()))
		}
	case "str":
		*out = append(*out, "x"+hx([]byte(v.String())))
	case "oid":
		if v.IsNil() {
			*out = append(*out, "n")
		} else {
			var a []string
			for _, x := range v.Interface().(asn1.ObjectIdentifier) {
				a = append(a, strconv.Itoa(x))
			}
			*out = append(*out, "o"+strings.Join(a, "."))
		}
	case "bits":
		b := v.Interface().(asn1.BitString)
		*out = append(*out, "b"+strconv.Itoa(b.BitLength)+":"+hx(b.Bytes))
	case "raw":
		r := v.Interface().(asn1.RawValue)
		c := "f"
		if r.IsCompound {
			c = "t"
		}
		*out = append(*out, fmt.Sprintf("r%d:%d:%s:%s:%s", r.Class, r.Tag, c, hx(r.Bytes), hx(r.FullBytes)))
	case "time":
		*out = append(*out, TimeTok(v.Interface().(time.Time)))
	case "S":
		*out = append(*out, "V"+strconv.Itoa(len(s.Fields)))
		for i, f := range s.Fields {
			Dump(f.S, v.Field(i), out)
		}
	case "L", "LS":
		if v.IsNil() {
			*out = append(*out, "n")
		} else {
			*out = append(*out, "V"+strconv.Itoa(v.Len()))
			for i := 0; i < v.Len(); i++ {
				Dump(s.Elem, v.Index(i), out)
			}
		}
	default:
		panic("Dump: kind " + s.Kind)
	}
}
func DumpStr(s *Sch, v reflect.Value) string {
	var t []string
	Dump(s, v, &t)
	return strings.Join(t, ";")
}

// Build constructs the Go value from value tokens. Empty byte strings inside BitString / RawValue become nil
// (the model does not distinguish nil from empty there).
func Build(s *Sch, t reflect.Type, toks []string) (reflect.Value, []string) {
	v := reflect.New(t).Elem()
	tok, rest := toks[0], toks[1:]
	switch s.Kind {
	case "i64", "i32", "enum":
		n, err := strconv.ParseInt(tok[1:], 10, 64)
		if err != nil || tok[0] != 'i' {
			panic("value: bad int " + tok)
		}
		v.SetInt(n)
	case "big":
		if tok != "n" {
			b, ok := new(big.Int).SetString(tok[1:], 10)
			if !ok || tok[0] != 'i' {
				panic("value: bad big " + tok)
			}
			v.Set(reflect.ValueOf(b))
		}
	case "bool", "flag":
		v.SetBool(tok == "t")
	case "oct":
		if tok != "n" {
			b := unhx(tok[1:])
			if b == nil {
				b = []byte{}
			}
			v.SetBytes(b)
		}
	case "str":
		v.SetString(string(unhx(tok[1:])))
	case "oid":
		if tok != "n" {
			o := asn1.ObjectIdentifier{}
			if len(tok) > 1 {
				for _, a := range strings.Split(tok[1:], ".") {
					n, err := strconv.Atoi(a)
					if err != nil {
						panic("value: bad oid " + tok)
					}
					o = append(o, n)
				}
			}
			v.Set(reflect.ValueOf(o))
		}
	case "bits":
		p := strings.Split(tok[1:], ":")
		n, _ := strconv.Atoi(p[0])
		v.Set(reflect.ValueOf(asn1.BitString{Bytes: unhx(p[1]), BitLength: n}))
	case "raw":
		p := strings.Split(tok[1:], ":")
		c, _ := strconv.Atoi(p[0])
		tg, _ := strconv.Atoi(p[1])
		v.Set(reflect.ValueOf(asn1.RawValue{Class: c, Tag: tg, IsCompound: p[2] == "t", Bytes: unhx(p[3]), FullBytes: unhx(p[4])}))
	case "time":
		v.Set(reflect.ValueOf(ParseTimeTok(tok)))
	case "S":
		for i, f := range s.Fields {
			var fv reflect.Value
			fv, rest = Build(f.S, t.Field(i).Type, rest)
			v.Field(i).Set(fv)
		}
	case "L", "LS":
		if tok != "n" {
			n, err := strconv.Atoi(tok[1:])
			if err != nil || tok[0] != 'V' {
				panic("value: bad slice " + tok)
			}
			sl := reflect.MakeSlice(t, n, n)
			for i := 0; i < n; i++ {
				var ev reflect.Value
				ev, rest = Build(s.Elem, t.Elem(), rest)
				sl.Index(i).Set(ev)
			}
			v.Set(sl)
		}
	default:
		panic("Build: kind " + s.Kind)
	}
	return v, rest
}
func BuildStr(s *Sch, t reflect.Type, str string) reflect.Value {
	v, r := Build(s, t, strings.Split(str, ";"))
	if len(r) != 0 {
		panic("value: trailing tokens")
	}
	return v
}
