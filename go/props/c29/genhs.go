package c29

import (
	"zv/internal/zv"
)

// Generator of the `c29 wire` stream: fingerprint configurations sent through a real tls.Client.

// stockOrder: the order in which the stock encoder (clientHelloMsg.marshal) would write the built-in types.
var stockOrder = []string{"sni", "status", "curves", "points", "ticket", "sigalgs", "reneg", "alpn", "sct", "ems", "null"}

// copts that leave the hello alone on the unchanged tree and need nothing special in the hello
// every Config option that leaves the stub peer in place; C / T (a Config.ClientSessionCache, empty / holding a TLS 1.2
// session) go through loadSession, which looks at the supported_versions of the hello parsed back from the fingerprint
var plainCopts = []byte("FSEHRNXVDBCT")

func shuffle(r *zv.Rng, l []extSpec) {
	for i := len(l) - 1; i > 0; i-- {
		j := r.Intn(i + 1)
		l[i], l[j] = l[j], l[i]
	}
}

func rotate(l []extSpec, k int) []extSpec {
	o := make([]extSpec, 0, len(l))
	o = append(o, l[k%len(l):]...)
	return append(o, l[:k%len(l)]...)
}

func reverse(l []extSpec) []extSpec {
	o := make([]extSpec, len(l))
	for i, e := range l {
		o[len(l)-1-i] = e
	}
	return o
}

// okCfg: header fields inside the success domain of marshal (implemented suites, [0] compression)
func okCfg(r *zv.Rng, tb *tables) *cfgSpec {
	c := baseCfg(r, tb)
	if len(c.suites) == 0 {
		c.suites = []uint16{pick16(r, tb.suites)}
	}
	switch r.Intn(6) {
	case 0:
		c.random, c.ts = nil, false
	case 1:
		c.random, c.ts = nil, true
	case 2:
		c.random, c.ts = r.Bytes(31), r.Bool()
	}
	switch r.Intn(4) {
	case 0:
		c.sid = r.Bytes(32)
	case 1:
		c.sid = r.Bytes(1 + r.Intn(40))
	}
	return c
}

// randCopt: a random subset of the harmless Config options (often empty, often a single one)
func randCopt(r *zv.Rng) string {
	switch r.Intn(4) {
	case 0:
		return ""
	case 1:
		return string(plainCopts[r.Intn(len(plainCopts))])
	}
	s := ""
	for _, l := range plainCopts {
		if r.Chance(30) {
			s += string(l)
		}
	}
	return s
}

// all built-in types once each, contents in the parse-back domain, in stock order
func fullSet(r *zv.Rng, tb *tables) []extSpec {
	var l []extSpec
	for _, k := range stockOrder {
		l = append(l, genExt(r, k, tb, false))
	}
	return l
}

// rawExts: encodings a user-defined ClientExtension may return: every type the ClientHello parser knows
// (generators of the parse stream) and types it does not (heartbeat, NPN, padding, GREASE, …)
func rawExtSpec(r *zv.Rng, bad int) extSpec {
	k := r.Intn(nExtGens)
	if extTypes[k] == 41 { // pre_shared_key is only legal in last position; keep it rare
		k = 18
	}
	if r.Chance(30) {
		t := []int{15, 13172, 21, 0x0a0a, 0x1a1a, 65000, 17513, 1, 28}[r.Intn(9)]
		body := r.Bytes(r.Intn(10))
		switch t {
		case 15:
			body = []byte{byte(1 + r.Intn(2))}
		case 13172:
			body = nil
		case 21:
			body = make([]byte, r.Intn(64))
		}
		return extSpec{kind: "raw", data: cat(w16(t), lp16(body))}
	}
	return extSpec{kind: "raw", data: genWireExt(r, k, bad, false)}
}

func svExt(vs ...int) extSpec {
	var l []byte
	for _, v := range vs {
		l = append(l, w16(v)...)
	}
	return extSpec{kind: "raw", data: cat(w16(43), lp16(lp8(l)))}
}

func genWire(g *zv.Gen, tb *tables) {
	r := g.Rng
	emit := func(w *wireSpec) { g.Emit(w.line()) }
	plain := func(c *cfgSpec) *wireSpec { return &wireSpec{fpc: fpCache{kind: "-"}, c: c} }

	// ---- corpus
	// the configuration of the seeded defect that was missed: browser-like order with an SCT extension
	{
		c := baseCfg(r, tb)
		c.vers, c.sid, c.suites = 0x0303, []byte{9, 8, 7, 6}, []uint16{0xc02b, 0xc02f, 0x002f}
		c.exts = []extSpec{{kind: "reneg"}, {kind: "sni", strs: [][]byte{[]byte("example.com")}}, {kind: "ems"}, {kind: "ticket"},
			{kind: "sigalgs", nums: []uint16{0x0601, 0x0401, 0x0501, 0x0201}}, {kind: "status"}, {kind: "sct"},
			{kind: "alpn", strs: [][]byte{[]byte("h2"), []byte("http/1.1")}}, {kind: "points", data: []byte{0}},
			{kind: "curves", nums: []uint16{29, 23, 24}}}
		emit(plain(c))
		for _, l := range plainCopts {
			w := plain(c)
			w.copt = string(l)
			emit(w)
		}
		w := plain(c)
		w.copt = "P"
		emit(w)
	}
	// D42 (fixed by 87b3ec4): Config.ClientSessionCache together with a fingerprint whose hello has no
	// supported_versions extension: loadSession indexed hello.supportedVersions[0] (index out of range)
	for _, co := range []string{"C", "T"} {
		c := baseCfg(r, tb)
		c.vers, c.suites = 0x0303, []uint16{0x002f}
		c.exts = []extSpec{{kind: "ems"}, {kind: "reneg"}}
		w := plain(c)
		w.copt = co
		emit(w)
	}
	// observation (outside the property: needs a user-defined supported_versions extension): with a TLS 1.2 session in
	// Config.ClientSessionCache loadSession stores the session's ticket in hello.sessionTicket while hello.raw (what is
	// sent) has none; the handshake log then shows a ticket that was not on the wire. Tagged, not judged.
	{
		c := baseCfg(r, tb)
		c.vers, c.suites = 0x0303, []uint16{0x002f}
		c.exts = []extSpec{{kind: "reneg"}, {kind: "ems"}, svExt(0x0303)}
		w := plain(c)
		w.copt = "T"
		emit(w)
	}
	// hellos that span several records
	for _, n := range []int{16000, 16384 - 60, 16384, 20000, 33000, 49152, 65000} {
		c := okCfg(r, tb)
		c.exts = []extSpec{{kind: "sct"}, {kind: "ticket", data: r.Bytes(n)}, {kind: "reneg"}}
		emit(plain(c))
	}
	{
		c := okCfg(r, tb) // > 64 KiB of extensions: the length field is wrong and the client's own parser refuses it
		c.exts = []extSpec{{kind: "ticket", data: r.Bytes(40000)}, {kind: "ems"}, {kind: "ticket", data: r.Bytes(30000)}}
		emit(plain(c))
	}

	// ---- every built-in type alone, and every ordered pair of types (duplicates included), each with no
	//      option and with one random option
	for _, k := range allKinds {
		for i := 0; i < g.N(6, 40); i++ {
			c := okCfg(r, tb)
			c.exts = []extSpec{genExt(r, k, tb, i%3 == 2)}
			w := plain(c)
			if i%2 == 1 {
				w.copt = randCopt(r)
			}
			emit(w)
		}
	}
	for _, k1 := range allKinds {
		for _, k2 := range allKinds {
			for i := 0; i < g.N(2, 8); i++ {
				c := okCfg(r, tb)
				c.exts = []extSpec{genExt(r, k1, tb, false), genExt(r, k2, tb, false)}
				w := plain(c)
				if i%2 == 1 {
					w.copt = randCopt(r)
				}
				emit(w)
			}
		}
	}

	// ---- order: all built-in types present; stock order, reversed, every rotation, random permutations;
	//      crossed with every single Config option
	for i := 0; i < g.N(12, 100); i++ {
		base := fullSet(r, tb)
		var orders [][]extSpec
		orders = append(orders, base, reverse(base))
		for k := 1; k < len(base); k++ {
			orders = append(orders, rotate(base, k))
		}
		for k := 0; k < 6; k++ {
			p := append([]extSpec(nil), base...)
			shuffle(r, p)
			orders = append(orders, p)
		}
		for j, o := range orders {
			c := okCfg(r, tb)
			c.exts = o
			w := plain(c)
			if i < len(plainCopts)+1 {
				if i > 0 {
					w.copt = string(plainCopts[i-1])
				}
			} else if j%2 == 0 {
				w.copt = randCopt(r)
			}
			if r.Chance(30) {
				w.sn = hostname(r, 1+r.Intn(20))
			}
			emit(w)
		}
	}
	// ---- random subsets in random order, duplicates and NullExtension included
	for i := 0; i < g.N(2500, 30000); i++ {
		c := okCfg(r, tb)
		n := 1 + r.Intn(10)
		for j := 0; j < n; j++ {
			c.exts = append(c.exts, genExt(r, allKinds[r.Intn(len(allKinds))], tb, r.Chance(5)))
		}
		w := plain(c)
		w.copt = randCopt(r)
		if r.Chance(30) {
			w.sn = hostname(r, 1+r.Intn(20))
		}
		emit(w)
	}
	// ---- configurations from the marshal stream, errors included (nothing may reach the wire then)
	for i := 0; i < g.N(800, 8000); i++ {
		var c *cfgSpec
		if i%2 == 0 {
			c = distinctCfg(r, tb)
		} else {
			c = randCfg(r, tb, []int{0, 5, 15, 40}[r.Intn(4)])
		}
		if len(c.suites) > 2000 {
			continue
		}
		w := plain(c)
		if r.Chance(50) {
			w.copt = randCopt(r)
		}
		emit(w)
	}

	// ---- Autopopulate: SNI (Config.ServerName empty / set; several SNI entries; positions) and session
	//      ticket (fingerprint SessionCache: none, without key, empty, session that fits / wrong suite /
	//      wrong version), RandomSessionID
	for i := 0; i < g.N(1200, 12000); i++ {
		c := okCfg(r, tb)
		n := r.Intn(6)
		for j := 0; j < n; j++ {
			c.exts = append(c.exts, genExt(r, allKinds[r.Intn(len(allKinds))], tb, false))
		}
		w := plain(c)
		ins := func(e extSpec) {
			p := r.Intn(len(c.exts) + 1)
			c.exts = append(c.exts[:p:p], append([]extSpec{e}, c.exts[p:]...)...)
		}
		if r.Chance(70) {
			e := genExt(r, "sni", tb, false)
			e.auto = true
			if r.Chance(30) {
				e.strs = nil
			}
			ins(e)
			if r.Chance(25) {
				ins(genExt(r, "sni", tb, false))
			}
			if r.Chance(10) {
				e2 := genExt(r, "sni", tb, false)
				e2.auto = true
				ins(e2)
			}
		}
		if r.Chance(60) {
			w.sn = hostname(r, 1+r.Intn(20))
		}
		if r.Chance(70) {
			e := extSpec{kind: "ticket", auto: true}
			if r.Chance(40) {
				e.data = r.Bytes(1 + r.Intn(20))
			}
			ins(e)
			if r.Chance(10) {
				ins(extSpec{kind: "ticket", auto: true})
			}
		}
		switch r.Intn(8) {
		case 0:
			w.fpc = fpCache{kind: "nokey"}
		case 1:
			w.fpc = fpCache{kind: "empty"}
		case 2, 3, 4, 5, 6:
			w.fpc = fpCache{kind: "s", vers: c.vers, suite: c.suites[r.Intn(len(c.suites))], ticket: r.Bytes(r.Intn(48))}
			switch r.Intn(8) {
			case 0:
				w.fpc.suite = pick16(r, tb.suites)
			case 1:
				w.fpc.vers = c.vers + 1
			case 2:
				w.fpc.vers = c.vers - 1
			case 3:
				w.fpc.vers = uint16(0x0300 + r.Intn(6))
			}
		}
		if r.Chance(40) {
			w.rsid = []int{1, 16, 32, 32, 8, 33, 39, 41, 255, 256, 300}[r.Intn(11)]
		}
		if r.Chance(40) {
			w.copt = randCopt(r)
		}
		emit(w)
	}

	// ---- user-defined extensions (T3 only): every type the parser knows, unknown types, heartbeat, NPN,
	//      padding, GREASE, among built-in ones; an (empty) Config.ClientSessionCache needs supported_versions
	for i := 0; i < g.N(1500, 15000); i++ {
		c := okCfg(r, tb)
		n := 1 + r.Intn(8)
		for j := 0; j < n; j++ {
			if r.Chance(40) {
				c.exts = append(c.exts, rawExtSpec(r, []int{0, 0, 0, 20}[r.Intn(4)]))
			} else {
				c.exts = append(c.exts, genExt(r, allKinds[r.Intn(len(allKinds))], tb, false))
			}
		}
		w := plain(c)
		w.copt = randCopt(r)
		if r.Chance(25) {
			sv := svExt([][]int{{0x0303}, {0x0303, 0x0302, 0x0301}, {0x0304, 0x0303}, {0x0a0a, 0x0304}}[r.Intn(4)]...)
			p := r.Intn(len(c.exts) + 1)
			c.exts = append(c.exts[:p:p], append([]extSpec{sv}, c.exts[p:]...)...)
			ok := true // exactly one supported_versions extension: otherwise the hello may not parse
			for j, e := range c.exts {
				if j != p && e.kind == "raw" && e.data[0] == 0 && e.data[1] == 43 {
					ok = false
				}
			}
			if ok {
				w.copt += "C"
			}
		}
		emit(w)
	}

	// ---- a real server as peer: the handshake completes only when client and server hashed the same hello
	goodSuites := []uint16{0xc02f, 0xc030, 0xc013, 0xc014, 0x009c, 0x009d, 0x002f, 0x0035}
	for i := 0; i < g.N(150, 1500); i++ {
		c := okCfg(r, tb)
		c.vers = []uint16{0x0303, 0x0303, 0x0303, 0x0302, 0x0301}[r.Intn(5)]
		c.suites = nil
		ns := 1 + r.Intn(5)
		for j := 0; j < ns; j++ {
			c.suites = append(c.suites, goodSuites[r.Intn(len(goodSuites))])
		}
		l := []extSpec{{kind: "curves", nums: []uint16{[]uint16{23, 29}[r.Intn(2)], 24}}, {kind: "points", data: []byte{0}},
			{kind: "sigalgs", nums: []uint16{0x0601, 0x0401, 0x0501, 0x0201}}}
		for _, k := range []string{"sni", "alpn", "reneg", "ems", "status", "sct", "null", "ticket"} {
			if r.Chance(60) {
				e := genExt(r, k, tb, false)
				if k == "ticket" {
					e.data = nil
				}
				l = append(l, e)
			}
		}
		if r.Chance(30) {
			t := []int{21, 0x0a0a, 0x1a1a, 65000}[r.Intn(4)]
			l = append(l, extSpec{kind: "raw", data: cat(w16(t), lp16(make([]byte, r.Intn(20))))})
		}
		shuffle(r, l)
		c.exts = l
		w := plain(c)
		w.copt = "P"
		for _, o := range []byte("FSEHNV") {
			if r.Chance(15) {
				w.copt += string(o)
			}
		}
		emit(w)
	}
}
