package c29

// Sub-ops tying the per-extension models directly (not only through whole hellos):
//   c29 ext <tok>      real ext.Marshal() + ext.CheckImplemented()        vs marshalExt / checkExt
//   c29 check <exts>   real (*ClientFingerprintConfiguration).CheckImplementedExtensions vs checkExts
//   c29 rt <cfg…>      real marshal followed by the real (*clientHelloMsg).unmarshal     vs roundTrip
//   c29 wtc …          real (*ClientFingerprintConfiguration).WriteToConfig (public API) vs writeToConfig

import (
	"bytes"
	"fmt"
	"strconv"
	"strings"

	"github.com/zmap/zcrypto/tls"

	"zv/internal/zv"
)

// bodyLen: length of the extension_data the configured value needs (independent of the encoder).
func bodyLen(e extSpec) int {
	switch e.kind {
	case "sni":
		n := 3
		for _, d := range e.strs {
			n += 2 + len(d)
		}
		return n
	case "alpn":
		n := 2
		for _, d := range e.strs {
			n += 1 + len(d)
		}
		return n
	case "reneg":
		return 1
	case "status":
		return 5
	case "curves", "sigalgs":
		return 2 + 2*len(e.nums)
	case "points":
		return 1 + len(e.data)
	case "ticket":
		return len(e.data)
	}
	return 0
}

var extTypeOf = map[string]int{"sni": 0, "alpn": 16, "reneg": 0xff01, "ems": 23, "status": 5, "sct": 18, "curves": 10,
	"points": 11, "ticket": 35, "sigalgs": 13}

func sizeTag(n int) string {
	switch {
	case n < 65535:
		return "fits"
	case n == 65535:
		return "max"
	case n == 65536:
		return "max+1"
	default:
		return "truncated"
	}
}

func refCheck(e extSpec, tb *tables) bool {
	in := func(l []uint16, x uint16) bool {
		for _, y := range l {
			if x == y {
				return true
			}
		}
		return false
	}
	switch e.kind {
	case "curves":
		for _, n := range e.nums {
			if !in(tb.curves, n) {
				return false
			}
		}
	case "sigalgs":
		for _, n := range e.nums {
			if !in(tb.sigs, n) {
				return false
			}
		}
	case "points":
		for _, b := range e.data {
			if b != 0 {
				return false
			}
		}
	}
	return true
}

func theTables() *tables {
	cu, si, su := tls.ZVC29Tables()
	return &tables{cu, si, su}
}

func execExt(f []string) zv.Out {
	e := parseExtTok(f[2])
	x := e.build()
	out := x.Marshal()
	chk := x.CheckImplemented() == nil
	n := bodyLen(e)
	tags := []string{"ext", "ext1:" + e.kind, "ext1:" + e.kind + ":body-" + sizeTag(n), fmt.Sprintf("ext1:check=%v", chk)}
	viol := ""
	// T3 (independent of the model): never an error or a panic; the contents are never truncated — only the
	// length bytes are (low 16 bits of the body length); inside the domain the bytes are the RFC encoding.
	if e.kind == "null" {
		if len(out) != 0 {
			viol = "NullExtension encodes to " + hx(out)
		}
	} else if len(out) != 4+n {
		viol = fmt.Sprintf("%s: encoding has %d bytes, configured value needs 4+%d", e.kind, len(out), n)
	} else if int(out[0])<<8|int(out[1]) != extTypeOf[e.kind] {
		viol = fmt.Sprintf("%s: extension type %d", e.kind, int(out[0])<<8|int(out[1]))
	} else if int(out[2])<<8|int(out[3]) != n&0xffff {
		viol = fmt.Sprintf("%s: length field %d, body %d", e.kind, int(out[2])<<8|int(out[3]), n)
	}
	if p, ok := refExt(e); ok && viol == "" {
		tags = append(tags, "ext1:rfc-checked")
		if !bytes.Equal(p, out) {
			viol = fmt.Sprintf("%s extension encodes as %s, RFC encoding of the configured value is %s", e.kind, snip(out, firstDiff(out, p)), snip(p, firstDiff(out, p)))
		}
	}
	if viol == "" && chk != refCheck(e, theTables()) {
		viol = fmt.Sprintf("%s: CheckImplemented()==nil is %v, reference says %v", e.kind, chk, !chk)
	}
	return zv.Out{Go: zv.Hex(out) + " " + b01(chk), Viol: viol, Tags: tags}
}

func parseExtList(s string) []extSpec {
	var l []extSpec
	if s != "-" {
		for _, t := range strings.Split(s, ",") {
			l = append(l, parseExtTok(t))
		}
	}
	return l
}

func execCheck(f []string) zv.Out {
	l := parseExtList(f[2])
	c := &tls.ClientFingerprintConfiguration{}
	want := true
	tb := theTables()
	for _, e := range l {
		c.Extensions = append(c.Extensions, e.build())
		want = want && refCheck(e, tb)
	}
	ok := c.CheckImplementedExtensions() == nil
	viol := ""
	if ok != want {
		viol = fmt.Sprintf("CheckImplementedExtensions()==nil is %v, reference says %v", ok, want)
	}
	g := "err"
	if ok {
		g = "ok"
	}
	return zv.Out{Go: g, Viol: viol, Tags: []string{"check", "check:" + g}}
}

func execRt(f []string) zv.Out {
	c := parseCfg(f)
	cfg := c.build()
	tags := []string{"rt"}
	for _, e := range c.exts {
		tags = append(tags, "rt:"+e.kind+":body-"+sizeTag(bodyLen(e)))
	}
	out, err := tls.ZVFingerprintMarshal(cfg, bytes.NewReader(c.rand), c.force)
	if err != nil {
		return zv.Out{Go: "err-marshal", Tags: append(tags, "rt:err-marshal")}
	}
	dump, ok := tls.ZVClientHelloUnmarshal(out)
	if !ok {
		return zv.Out{Go: "err-parse", Tags: append(tags, "rt:err-parse")}
	}
	return zv.Out{Go: "ok " + dump, Tags: append(tags, "rt:ok")}
}

func tokOf(x tls.ClientExtension) string {
	var e extSpec
	strs := func(l []string) [][]byte {
		var o [][]byte
		for _, s := range l {
			o = append(o, []byte(s))
		}
		return o
	}
	switch t := x.(type) {
	case *tls.NullExtension:
		e.kind = "null"
	case *tls.SNIExtension:
		e = extSpec{kind: "sni", strs: strs(t.Domains), auto: t.Autopopulate}
	case *tls.ALPNExtension:
		e = extSpec{kind: "alpn", strs: strs(t.Protocols)}
	case *tls.SecureRenegotiationExtension:
		e.kind = "reneg"
	case *tls.ExtendedMasterSecretExtension:
		e.kind = "ems"
	case *tls.StatusRequestExtension:
		e.kind = "status"
	case *tls.SCTExtension:
		e.kind = "sct"
	case *tls.SupportedCurvesExtension:
		e.kind = "curves"
		for _, c := range t.Curves {
			e.nums = append(e.nums, uint16(c))
		}
	case *tls.PointFormatExtension:
		e = extSpec{kind: "points", data: t.Formats}
	case *tls.SessionTicketExtension:
		e = extSpec{kind: "ticket", data: t.Ticket, auto: t.Autopopulate}
	case *tls.SignatureAlgorithmExtension:
		e = extSpec{kind: "sigalgs", nums: t.SignatureAndHashes}
	default:
		return fmt.Sprintf("?%T", x)
	}
	return e.tok()
}

func listOr(l []string) string {
	if len(l) == 0 {
		return "-"
	}
	return strings.Join(l, ",")
}

// c29 wtc <sn> <sh0> <vers> <random> <suites> <wexts>
func execWtc(f []string) zv.Out {
	sn := string(zv.UnHex(f[2]))
	sh0 := parseNums(f[3], ",")
	v, _ := strconv.Atoi(f[4])
	wexts := parseExtList(f[7])
	fp := &tls.ClientFingerprintConfiguration{HandshakeVersion: uint16(v), ClientRandom: zv.UnHex(f[5]), CipherSuites: parseNums(f[6], ","),
		CompressionMethods: []byte{0}}
	for _, e := range wexts {
		fp.Extensions = append(fp.Extensions, e.build())
	}
	// every field WriteToConfig resets starts with a value the reset must remove
	cfg := &tls.Config{ServerName: sn, ClientFingerprintConfiguration: fp, NextProtos: []string{"stale"}, CipherSuites: []uint16{1, 2, 3},
		MaxVersion: 0x0301, ClientRandom: []byte{9}, CurvePreferences: []tls.CurveID{99}, HeartbeatEnabled: true, ExtendedRandom: true,
		ForceSessionTicketExt: true, ExtendedMasterSecret: true, SignedCertificateTimestampExt: true}
	for _, a := range sh0 {
		cfg.SignatureAndHashes = append(cfg.SignatureAndHashes, tls.SigAndHash{Hash: uint8(a >> 8), Signature: uint8(a)})
	}
	err := fp.WriteToConfig(cfg)
	if err != nil {
		return zv.Out{Go: "err", Viol: "WriteToConfig of built-in extensions returned an error: " + err.Error(), Tags: []string{"wtc", "wtc:err"}}
	}
	var np, cp, sh, ex []string
	for _, p := range cfg.NextProtos {
		np = append(np, zv.Hex([]byte(p)))
	}
	for _, c := range cfg.CurvePreferences {
		cp = append(cp, strconv.Itoa(int(c)))
	}
	for _, s := range cfg.SignatureAndHashes {
		sh = append(sh, fmt.Sprintf("%d:%d", s.Hash, s.Signature))
	}
	for _, x := range fp.Extensions {
		ex = append(ex, tokOf(x))
	}
	goOut := strings.Join([]string{
		"sn=" + zv.Hex([]byte(cfg.ServerName)),
		fmt.Sprintf("np=%d/%s", len(np), listOr(np)),
		"cs=" + numList(cfg.CipherSuites),
		"mv=" + strconv.Itoa(int(cfg.MaxVersion)),
		"cr=" + zv.Hex(cfg.ClientRandom),
		"cp=" + listOr(cp),
		"hb=" + b01(cfg.HeartbeatEnabled),
		"er=" + b01(cfg.ExtendedRandom),
		"ft=" + b01(cfg.ForceSessionTicketExt),
		"ems=" + b01(cfg.ExtendedMasterSecret),
		"sct=" + b01(cfg.SignedCertificateTimestampExt),
		"sh=" + listOr(sh),
		"exts=" + listOr(ex)}, " ")
	// T3 (independent): "the Config reflects the extensions" — last ALPN / curves / signature-algorithm extension wins,
	// presence flags for EMS / SCT / session ticket, everything else reset; ServerName kept, or the first domain of the
	// first SNI extension that has one at its turn (Autopopulate entries: the rewritten list is judged by the model only).
	tags := []string{"wtc"}
	viol := ""
	anyAuto := false
	var wantNP, wantCP, wantSH []string
	for _, a := range sh0 {
		wantSH = append(wantSH, fmt.Sprintf("%d:%d", a>>8, a&0xff))
	}
	wantFT, wantEMS, wantSCT := false, false, false
	wantSN := sn
	for _, e := range wexts {
		tags = append(tags, "wtc:"+e.kind)
		switch e.kind {
		case "sni":
			if e.auto {
				anyAuto = true
			}
			if wantSN == "" && len(e.strs) > 0 {
				wantSN = string(e.strs[0])
			}
		case "alpn":
			wantNP = nil
			for _, p := range e.strs {
				wantNP = append(wantNP, zv.Hex(p))
			}
		case "curves":
			wantCP = nil
			for _, n := range e.nums {
				wantCP = append(wantCP, strconv.Itoa(int(n)))
			}
		case "sigalgs":
			wantSH = nil
			for _, a := range e.nums {
				wantSH = append(wantSH, fmt.Sprintf("%d:%d", a>>8, a&0xff))
			}
		case "ticket":
			wantFT = true
		case "ems":
			wantEMS = true
		case "sct":
			wantSCT = true
		}
	}
	if anyAuto {
		tags = append(tags, "wtc:autopopulate")
		if sn == "" {
			tags = append(tags, "wtc:autopopulate-no-servername")
		}
	}
	bad := func(what, got, want string) {
		if viol == "" && got != want {
			viol = fmt.Sprintf("WriteToConfig: Config.%s = %s, the extensions say %s", what, got, want)
		}
	}
	bad("NextProtos", listOr(np), listOr(wantNP))
	bad("CurvePreferences", listOr(cp), listOr(wantCP))
	bad("SignatureAndHashes", listOr(sh), listOr(wantSH))
	bad("ForceSessionTicketExt", b01(cfg.ForceSessionTicketExt), b01(wantFT))
	bad("ExtendedMasterSecret", b01(cfg.ExtendedMasterSecret), b01(wantEMS))
	bad("SignedCertificateTimestampExt", b01(cfg.SignedCertificateTimestampExt), b01(wantSCT))
	bad("CipherSuites", numList(cfg.CipherSuites), numList(fp.CipherSuites))
	bad("MaxVersion", strconv.Itoa(int(cfg.MaxVersion)), strconv.Itoa(v))
	bad("ClientRandom", zv.Hex(cfg.ClientRandom), zv.Hex(fp.ClientRandom))
	bad("HeartbeatEnabled/ExtendedRandom", b01(cfg.HeartbeatEnabled)+b01(cfg.ExtendedRandom), "00")
	if !anyAuto {
		bad("ServerName", zv.Hex([]byte(cfg.ServerName)), zv.Hex([]byte(wantSN)))
		var in []string
		for _, e := range wexts {
			in = append(in, e.tok())
		}
		bad("ClientFingerprintConfiguration.Extensions", listOr(ex), listOr(in))
	}
	return zv.Out{Go: goOut, Viol: viol, Tags: tags}
}

// ---------------------------------------------------------------- generator

func rep16(r *zv.Rng, l []uint16, n int) []uint16 {
	o := make([]uint16, n)
	for i := range o {
		o[i] = pick16(r, l)
	}
	return o
}

// boundaryExts: for every built-in type with contents, values at and around what its length prefixes can carry.
func boundaryExts(r *zv.Rng, tb *tables) []extSpec {
	var l []extSpec
	for _, n := range []int{0, 1, 255, 256, 65534, 65535, 65536, 65537, 70000, 131071, 131072, 131080} {
		l = append(l, extSpec{kind: "ticket", data: r.Bytes(n)})
	}
	for _, n := range []int{0, 1, 2, 254, 255, 256, 257, 511, 512, 65533, 65534, 65535, 65536, 65537} {
		l = append(l, extSpec{kind: "points", data: make([]byte, n)})
	}
	for _, n := range []int{0, 1, 127, 128, 32765, 32766, 32767, 32768, 32769, 32770, 40000, 65536} {
		l = append(l, extSpec{kind: "curves", nums: rep16(r, tb.curves, n)})
		l = append(l, extSpec{kind: "sigalgs", nums: rep16(r, tb.sigs, n)})
	}
	// SNI: one name of n bytes (body = n + 5)
	for _, n := range []int{0, 1, 255, 256, 65529, 65530, 65531, 65532, 65533, 65535, 65536, 70000} {
		l = append(l, extSpec{kind: "sni", strs: [][]byte{hostname(r, n)}})
	}
	// ALPN: protocol length prefix (1 byte) …
	for _, n := range []int{0, 1, 254, 255, 256, 257, 300, 511, 512, 513} {
		l = append(l, extSpec{kind: "alpn", strs: [][]byte{hostname(r, n)}})
		l = append(l, extSpec{kind: "alpn", strs: [][]byte{[]byte("h2"), hostname(r, n), []byte("http/1.1")}})
	}
	// … and list length prefix (2 bytes): k protocols of 255 bytes = 256 k bytes, plus one of m
	for _, m := range []int{250, 251, 252, 253, 254, 255} {
		var s [][]byte
		for i := 0; i < 255; i++ {
			s = append(s, hostname(r, 255))
		}
		s = append(s, hostname(r, m)) // list = 65280 + 1 + m  (65531..65536); body = list + 2
		l = append(l, extSpec{kind: "alpn", strs: s})
	}
	return l
}

func genExtra(g *zv.Gen, tb *tables) {
	r := g.Rng
	for _, k := range []string{"null", "reneg", "ems", "status", "sct"} {
		g.Emit("c29 ext " + extSpec{kind: k}.tok())
	}
	bnd := boundaryExts(r, tb)
	for _, e := range bnd {
		g.Emit("c29 ext " + e.tok())
		// the same value in a whole hello, read back by the parser (alone, and followed by another extension)
		c := baseCfg(r, tb)
		c.exts = []extSpec{e}
		g.Emit(strings.Replace(c.line(), "c29 marshal", "c29 rt", 1))
		c = baseCfg(r, tb)
		c.exts = []extSpec{e, {kind: "ems"}}
		g.Emit(strings.Replace(c.line(), "c29 marshal", "c29 rt", 1))
	}
	for _, k := range allKinds {
		for i := 0; i < g.N(300, 3000); i++ {
			g.Emit("c29 ext " + genExt(r, k, tb, i%2 == 1).tok())
		}
	}
	for i := 0; i < g.N(1500, 15000); i++ {
		c := randCfg(r, tb, []int{0, 5, 15, 40}[r.Intn(4)])
		c.ts = false
		g.Emit(strings.Replace(c.line(), "c29 marshal", "c29 rt", 1))
	}
	for i := 0; i < g.N(1500, 15000); i++ {
		c := randCfg(r, tb, []int{0, 10, 30}[r.Intn(3)])
		ex := "-"
		if len(c.exts) > 0 {
			var t []string
			for _, e := range c.exts {
				t = append(t, e.tok())
			}
			ex = strings.Join(t, ",")
		}
		g.Emit("c29 check " + ex)
	}
	// WriteToConfig: random lists (duplicates, every type), Autopopulate SNI / ticket entries, ServerName empty or set,
	// previous SignatureAndHashes empty or not
	kinds := allKinds
	for i := 0; i < g.N(4000, 40000); i++ {
		n := r.Intn(9)
		var t []string
		for j := 0; j < n; j++ {
			k := kinds[r.Intn(len(kinds))]
			if r.Chance(25) {
				k = "sni"
			}
			e := extSpec{kind: k}
			switch k {
			case "sni", "alpn", "curves", "sigalgs", "points", "ticket":
				e = genExt(r, k, tb, r.Chance(40))
				if len(e.data) > 40 {
					e.data = e.data[:40]
				}
				if len(e.nums) > 8 {
					e.nums = e.nums[:8]
				}
			}
			if (k == "sni" || k == "ticket") && r.Chance(35) {
				e.auto = true
			}
			if k == "sni" && r.Chance(20) {
				e.strs = nil
			}
			t = append(t, e.tok())
		}
		sn := "-"
		if r.Bool() {
			sn = zv.Hex(hostname(r, 1+r.Intn(12)))
		}
		sh0 := "-"
		if r.Chance(50) {
			sh0 = numList(rep16(r, tb.sigs, 1+r.Intn(3)))
		}
		g.Emit(fmt.Sprintf("c29 wtc %s %s %d %s %s %s", sn, sh0, 0x0300+r.Intn(5), zv.Hex(r.Bytes([]int{0, 5, 32}[r.Intn(3)])),
			numList(rep16(r, tb.suites, r.Intn(6))), listOr(t)))
	}
}
