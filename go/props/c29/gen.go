package c29

import (
	"bytes"
	"fmt"

	"github.com/zmap/zcrypto/tls"

	"zv/internal/zv"
)

var allKinds = []string{"null", "sni", "alpn", "reneg", "ems", "status", "sct", "curves", "points", "ticket", "sigalgs"}

type tables struct{ curves, sigs, suites []uint16 }

func pick16(r *zv.Rng, l []uint16) uint16 { return l[r.Intn(len(l))] }

func hostname(r *zv.Rng, n int) []byte {
	const al = "abcdefghijklmnopqrstuvwxyz0123456789-."
	b := make([]byte, n)
	for i := range b {
		b[i] = al[r.Intn(len(al))]
	}
	if n > 0 && b[n-1] == '.' {
		b[n-1] = 'x'
	}
	return b
}

// genExt: contents for one extension of the given kind. edge=false: inside the parse-back domain.
func genExt(r *zv.Rng, kind string, tb *tables, edge bool) extSpec {
	e := extSpec{kind: kind}
	switch kind {
	case "sni":
		e.strs = [][]byte{hostname(r, 1+r.Intn(40))}
		if edge {
			switch r.Intn(8) {
			case 0:
				e.strs = nil
			case 1:
				e.strs = [][]byte{hostname(r, 1+r.Intn(10)), hostname(r, 1+r.Intn(10))}
			case 2:
				e.strs = [][]byte{hostname(r, 3), hostname(r, 1), hostname(r, 5)}
			case 3:
				e.strs = [][]byte{{}}
			case 4:
				e.strs = [][]byte{append(hostname(r, 1+r.Intn(10)), '.')}
			case 5:
				e.strs = [][]byte{r.Bytes(1 + r.Intn(20))} // arbitrary bytes (may end in '.')
			case 6:
				e.strs = [][]byte{hostname(r, 250+r.Intn(10))}
			case 7:
				e.strs = [][]byte{{'.'}}
			}
		}
	case "alpn":
		n := 1 + r.Intn(4)
		for i := 0; i < n; i++ {
			e.strs = append(e.strs, hostname(r, 1+r.Intn(12)))
		}
		if edge {
			switch r.Intn(6) {
			case 0:
				e.strs = nil
			case 1:
				e.strs = append(e.strs, []byte{})
			case 2:
				e.strs = [][]byte{r.Bytes(255)}
			case 3:
				e.strs = [][]byte{r.Bytes(256), []byte("h2")}
			case 4:
				e.strs = [][]byte{r.Bytes(257 + r.Intn(300))}
			case 5:
				e.strs = [][]byte{r.Bytes(1 + r.Intn(30)), r.Bytes(1 + r.Intn(30))}
			}
		}
	case "curves":
		n := 1 + r.Intn(4)
		for i := 0; i < n; i++ {
			e.nums = append(e.nums, pick16(r, tb.curves))
		}
		if edge {
			switch r.Intn(4) {
			case 0:
				e.nums = nil
			case 1:
				e.nums = append(e.nums, uint16(r.Intn(65536)))
			case 2:
				// near misses: neighbours of supported ids and well-known other groups
				c := pick16(r, tb.curves)
				e.nums = []uint16{[]uint16{c + 1, c - 1, c ^ 0x0100, 21, 22, 26, 30, 256, 257, 4588, 0, 65535}[r.Intn(12)]}
				if r.Bool() {
					e.nums = append([]uint16{pick16(r, tb.curves)}, e.nums...)
				}
			case 3:
				for i := 0; i < 130; i++ {
					e.nums = append(e.nums, pick16(r, tb.curves))
				}
			}
		}
	case "sigalgs":
		n := 1 + r.Intn(6)
		for i := 0; i < n; i++ {
			e.nums = append(e.nums, pick16(r, tb.sigs))
		}
		if edge {
			switch r.Intn(4) {
			case 0:
				e.nums = nil
			case 1:
				e.nums = append(e.nums, uint16(r.Intn(65536)))
			case 2:
				s := pick16(r, tb.sigs)
				e.nums = []uint16{[]uint16{s>>8 | s<<8, s ^ 0x0100, s ^ 0x0001, s + 1, s + 0x0100, 0x0804, 0x0807, 0x0000}[r.Intn(8)]} // near misses
			case 3:
				for i := 0; i < 128+r.Intn(3); i++ {
					e.nums = append(e.nums, pick16(r, tb.sigs))
				}
			}
		}
	case "points":
		e.data = []byte{0}
		if edge {
			switch r.Intn(5) {
			case 0:
				e.data = nil
			case 1:
				e.data = []byte{0, 0}
			case 2:
				e.data = [][]byte{{1}, {2}, {0, 1}, {1, 0}, {0, 2}, {byte(1 + r.Intn(255))}}[r.Intn(6)]
			case 3:
				e.data = []byte{0, 1, 2}
			case 4:
				e.data = make([]byte, 254+r.Intn(4))
			}
		}
	case "ticket":
		e.data = r.Bytes(r.Intn(64))
		if edge {
			switch r.Intn(4) {
			case 0:
				e.data = nil
			case 1:
				e.data = r.Bytes(255 + r.Intn(3))
			case 2:
				e.data = r.Bytes(1 + r.Intn(600))
			case 3:
				e.data = r.Bytes(r.Intn(3))
			}
		}
	}
	return e
}

func baseCfg(r *zv.Rng, tb *tables) *cfgSpec {
	c := &cfgSpec{vers: uint16(0x0300 + r.Intn(5)), random: r.Bytes(32), sid: nil, comp: []byte{0}, rand: r.Bytes(40)}
	n := r.Intn(12)
	for i := 0; i < n; i++ {
		c.suites = append(c.suites, pick16(r, tb.suites))
	}
	return c
}

// randCfg: random configuration; wild>0 percent chance per field of leaving the success domain.
func randCfg(r *zv.Rng, tb *tables, wild int) *cfgSpec {
	c := baseCfg(r, tb)
	if r.Chance(15) {
		c.vers = uint16(r.Intn(65536))
	}
	// random
	switch r.Intn(10) {
	case 0, 1:
		c.random = nil
	case 2:
		c.random = r.Bytes([]int{0, 1, 4, 28, 31, 33, 36, 64}[r.Intn(8)])
	}
	c.ts = r.Chance(45)
	if r.Chance(wild) {
		c.rand = r.Bytes([]int{0, 1, 27, 28, 29, 31, 32, 33}[r.Intn(8)])
	}
	// session id
	switch r.Intn(8) {
	case 0, 1:
		c.sid = r.Bytes(32)
	case 2:
		c.sid = r.Bytes(1 + r.Intn(40))
	case 3:
		if r.Chance(50) {
			c.sid = r.Bytes(255)
		} else if r.Chance(wild * 3) {
			c.sid = r.Bytes(256 + r.Intn(3))
		}
	}
	// suites
	if r.Chance(10) {
		c.suites = nil
	}
	if r.Chance(10) {
		c.suites = append(c.suites, 0x00ff) // renegotiation SCSV (not an implemented suite)
		c.force = true
	}
	if r.Chance(wild) {
		x := pick16(r, tb.suites)
		c.suites = append(c.suites, []uint16{uint16(r.Intn(65536)), x + 1, x - 1, x ^ 0x0100, 0x1301, 0x00ff, 0x5600}[r.Intn(7)])
	}
	if r.Chance(3) {
		n := []int{127, 128, 129, 255, 256, 257}[r.Intn(6)]
		c.suites = nil
		for i := 0; i < n; i++ {
			c.suites = append(c.suites, pick16(r, tb.suites))
		}
	}
	if r.Chance(30) {
		c.force = !c.force
	}
	// compression
	if r.Chance(wild) {
		switch r.Intn(7) {
		case 0:
			c.comp = nil
		case 1:
			c.comp = []byte{0, 1}
		case 2:
			c.comp = []byte{1}
		case 3:
			c.comp = []byte{0, 0}
		case 4:
			c.comp = r.Bytes(1 + r.Intn(4))
		case 5:
			c.comp = make([]byte, 256)
		case 6:
			c.comp = []byte{1, 0}
		}
	}
	// extensions
	n := r.Intn(9)
	if r.Chance(10) {
		n = 0
	}
	for i := 0; i < n; i++ {
		k := allKinds[r.Intn(len(allKinds))]
		c.exts = append(c.exts, genExt(r, k, tb, r.Chance(wild)))
	}
	return c
}

// distinctCfg: a successful configuration with pairwise distinct extension types, all in the parse-back domain.
func distinctCfg(r *zv.Rng, tb *tables) *cfgSpec {
	c := randCfg(r, tb, 0)
	c.exts = nil
	perm := make([]int, len(allKinds))
	for i := range perm {
		perm[i] = i
	}
	for i := len(perm) - 1; i > 0; i-- {
		j := r.Intn(i + 1)
		perm[i], perm[j] = perm[j], perm[i]
	}
	n := r.Intn(len(allKinds) + 1)
	for _, i := range perm[:n] {
		c.exts = append(c.exts, genExt(r, allKinds[i], tb, false))
	}
	return c
}

func marshalBytes(c *cfgSpec) []byte {
	out, err := tls.ZVFingerprintMarshal(c.build(), bytes.NewReader(c.rand), c.force)
	if err != nil {
		return nil
	}
	return out
}

func gen(g *zv.Gen) {
	r := g.Rng
	cu, si, su := tls.ZVC29Tables()
	tb := &tables{cu, si, su}

	// ---- corpus: D25 (timestamp prefix), D13 shapes, boundaries
	c := baseCfg(r, tb)
	c.random, c.ts = nil, true
	g.Emit(c.line())
	c = baseCfg(r, tb)
	c.random, c.ts, c.exts = []byte{1, 2, 3}, true, []extSpec{{kind: "sni", strs: [][]byte{[]byte("example.com")}}}
	g.Emit(c.line())
	for _, n := range []int{0, 1, 32, 255, 256, 257} {
		c = baseCfg(r, tb)
		c.sid = r.Bytes(n)
		g.Emit(c.line())
	}
	for _, comp := range [][]byte{nil, {0}, {0, 1}, {1}, {0, 0}, {1, 0}, make([]byte, 255), make([]byte, 256)} {
		c = baseCfg(r, tb)
		c.comp = comp
		g.Emit(c.line())
	}
	for _, n := range []int{0, 27, 28, 31, 32} {
		for _, ts := range []bool{false, true} {
			c = baseCfg(r, tb)
			c.random, c.ts, c.rand = nil, ts, r.Bytes(n)
			g.Emit(c.line())
		}
	}
	// suite-count boundaries of the `len>>7, len<<1` length bytes (32768 and more: outside the layout domain)
	for _, n := range []int{127, 128, 255, 256, 32767, 32768, 32769, 40000} {
		c = baseCfg(r, tb)
		c.suites = nil
		for i := 0; i < n; i++ {
			c.suites = append(c.suites, pick16(r, tb.suites))
		}
		g.Emit(c.line())
	}
	// over-long fields: the truncating length bytes (outside the layout / parse-back domain; model must agree)
	for _, n := range []int{65531, 65532, 65535, 65536, 70000} {
		c = baseCfg(r, tb)
		c.exts = []extSpec{{kind: "ticket", data: r.Bytes(n)}}
		g.Emit(c.line())
	}
	for _, n := range []int{65526, 65527, 65530, 65536} {
		c = baseCfg(r, tb)
		c.exts = []extSpec{{kind: "sni", strs: [][]byte{hostname(r, n)}}}
		g.Emit(c.line())
	}
	c = baseCfg(r, tb)
	c.exts = []extSpec{{kind: "ticket", data: r.Bytes(40000)}, {kind: "ems"}, {kind: "ticket", data: r.Bytes(30000)}}
	g.Emit(c.line())
	{
		var big []uint16
		for i := 0; i < 32767+r.Intn(3); i++ {
			big = append(big, pick16(r, tb.curves))
		}
		c = baseCfg(r, tb)
		c.exts = []extSpec{{kind: "curves", nums: big}}
		g.Emit(c.line())
		c = baseCfg(r, tb)
		var pts []byte = make([]byte, 70000)
		c.exts = []extSpec{{kind: "points", data: pts}}
		g.Emit(c.line())
	}
	// message-length limit (T3 only)
	g.Emit("c29 big 255 65535")
	g.Emit("c29 big 256 65531")
	g.Emit("c29 big 256 65535")
	if !g.Quick {
		g.Emit("c29 big 257 65535")
	}

	var hellos [][]byte // outputs of the fingerprint encoder, fed to the parse stream
	keep := func(c *cfgSpec) {
		if len(hellos) < g.N(3000, 20000) {
			cc := *c
			cc.ts = false // no clock-dependent bytes in generated lines
			if b := marshalBytes(&cc); b != nil && len(b) < 4000 {
				hellos = append(hellos, b)
			}
		}
	}

	// ---- each extension type alone: in-domain and edge contents
	for _, k := range allKinds {
		for i := 0; i < g.N(150, 1500); i++ {
			c = baseCfg(r, tb)
			c.exts = []extSpec{genExt(r, k, tb, i%3 == 2)}
			if r.Chance(20) {
				c.random, c.ts = nil, r.Bool()
			}
			g.Emit(c.line())
			keep(c)
		}
	}
	// ---- in-domain configurations with distinct extension types (whole-hello parse back)
	for i := 0; i < g.N(6000, 60000); i++ {
		c = distinctCfg(r, tb)
		g.Emit(c.line())
		keep(c)
	}
	// ---- random configurations: duplicates, NullExtension, errors
	for i := 0; i < g.N(10000, 120000); i++ {
		c = randCfg(r, tb, []int{0, 5, 15, 40}[r.Intn(4)])
		g.Emit(c.line())
		keep(c)
	}

	// ---- per-extension ties: Marshal / CheckImplemented alone, boundary values, round trips, WriteToConfig
	genExtra(g, tb)

	// ---- the hello on the wire of a real client (c29 wire)
	genWire(g, tb)

	// ---- parse stream
	emitParse := func(b []byte) { g.Emit("c29 parse " + zv.Hex(b)) }
	g.Emit("c29 parse -")
	for _, h := range hellos {
		emitParse(h)
	}
	var built [][]byte
	for i := 0; i < g.N(15000, 150000); i++ {
		h := buildHello(r, []int{0, 0, 10, 30}[r.Intn(4)])
		built = append(built, h)
		emitParse(h)
	}
	// each extension type alone in a hand-built hello, valid and malformed
	for k := 0; k < nExtGens; k++ {
		for i := 0; i < g.N(150, 1500); i++ {
			emitParse(wrapHello(r, [][]byte{genWireExt(r, k, i%2*40, true)}, 0))
		}
	}
	// every strict prefix of a few
	np := g.N(4, 40)
	for i := 0; i < np; i++ {
		var h []byte
		if i%2 == 0 && len(hellos) > 0 {
			h = hellos[r.Intn(len(hellos))]
		} else {
			h = buildHello(r, 0)
		}
		if len(h) > 700 {
			continue
		}
		for n := 0; n < len(h); n++ {
			emitParse(h[:n])
		}
	}
	// random byte mutations
	for i := 0; i < g.N(10000, 100000); i++ {
		var src []byte
		if r.Chance(30) && len(hellos) > 0 {
			src = hellos[r.Intn(len(hellos))]
		} else {
			src = built[r.Intn(len(built))]
		}
		h := append([]byte{}, src...)
		if len(h) == 0 {
			continue
		}
		nm := 1 + r.Intn(3)
		for j := 0; j < nm; j++ {
			p := r.Intn(len(h))
			switch r.Intn(4) {
			case 0:
				h[p] = byte(r.U64())
			case 1:
				h[p] ^= 1 << uint(r.Intn(8))
			case 2:
				h[p]++
			case 3:
				h[p]--
			}
		}
		if r.Chance(10) {
			h = append(h, r.Bytes(1+r.Intn(3))...)
		}
		emitParse(h)
	}
	_ = fmt.Sprint
}
