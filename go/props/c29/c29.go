// Package c29: fingerprinted ClientHellos ((*ClientFingerprintConfiguration).marshal and the built-in
// ClientExtension encoders) and the ClientHello parser ((*clientHelloMsg).unmarshal), through the verif
// hooks ZVFingerprintMarshal / ZVClientHelloUnmarshal.
//
// line formats (see lean/ZV/Drv/C29.lean):
//
//	c29 marshal <force> <vers> <random> <ts> <sid> <suites> <comp> <rand> <exts>
//	c29 parse <hex>
//	c29 big <n> <k>          (T3 only: n ticket extensions of k bytes; message length limit 1<<24)
//	c29 wire <sn> <fpc> <rsid> <copt> <force> … <exts>   (real client handshake, see hs.go)
package c29

import (
	"bytes"
	"encoding/binary"
	"fmt"
	"strconv"
	"strings"
	"time"

	"github.com/zmap/zcrypto/tls"
	"golang.org/x/crypto/cryptobyte"

	"zv/internal/zv"
)

// ---------------------------------------------------------------- configuration <-> line

type extSpec struct {
	kind string
	strs [][]byte // sni / alpn
	nums []uint16 // curves / sigalgs
	data []byte   // points / ticket / raw (raw: the whole encoding a user-defined ClientExtension returns)
	auto bool     // sni / ticket: Autopopulate (token "sni+…" / "ticket+:…"; only in `c29 wire` lines)
}

type cfgSpec struct {
	force  bool
	vers   uint16
	random []byte
	ts     bool
	sid    []byte
	suites []uint16
	comp   []byte
	rand   []byte
	exts   []extSpec
}

func b01(b bool) string {
	if b {
		return "1"
	}
	return "0"
}

func numList(l []uint16) string {
	if len(l) == 0 {
		return "-"
	}
	s := make([]string, len(l))
	for i, x := range l {
		s[i] = strconv.Itoa(int(x))
	}
	return strings.Join(s, ",")
}

func (e extSpec) tok() string {
	switch e.kind {
	case "sni", "alpn":
		s := e.kind
		if e.auto {
			s += "+"
		}
		for _, d := range e.strs {
			s += ":" + zv.Hex(d)
		}
		return s
	case "curves", "sigalgs":
		s := e.kind
		for _, n := range e.nums {
			s += ":" + strconv.Itoa(int(n))
		}
		return s
	case "points", "ticket", "raw":
		k := e.kind
		if e.auto {
			k += "+"
		}
		return k + ":" + zv.Hex(e.data)
	}
	return e.kind
}

func (c *cfgSpec) line() string {
	ex := "-"
	if len(c.exts) > 0 {
		t := make([]string, len(c.exts))
		for i, e := range c.exts {
			t[i] = e.tok()
		}
		ex = strings.Join(t, ",")
	}
	return fmt.Sprintf("c29 marshal %s %d %s %s %s %s %s %s %s", b01(c.force), c.vers, zv.Hex(c.random), b01(c.ts),
		zv.Hex(c.sid), numList(c.suites), zv.Hex(c.comp), zv.Hex(c.rand), ex)
}

func parseNums(s string, sep string) []uint16 {
	if s == "-" || s == "" {
		return nil
	}
	var l []uint16
	for _, t := range strings.Split(s, sep) {
		n, err := strconv.Atoi(t)
		if err != nil {
			panic("bad number in line: " + t)
		}
		l = append(l, uint16(n))
	}
	return l
}

func parseExtTok(t string) extSpec {
	p := strings.Split(t, ":")
	e := extSpec{kind: p[0]}
	if strings.HasSuffix(e.kind, "+") {
		e.kind, e.auto = strings.TrimSuffix(e.kind, "+"), true
	}
	switch e.kind {
	case "sni", "alpn":
		for _, h := range p[1:] {
			e.strs = append(e.strs, zv.UnHex(h))
		}
	case "curves", "sigalgs":
		for _, n := range p[1:] {
			v, _ := strconv.Atoi(n)
			e.nums = append(e.nums, uint16(v))
		}
	case "points", "ticket", "raw":
		e.data = zv.UnHex(p[1])
	}
	return e
}

func parseCfg(f []string) *cfgSpec {
	// f = [c29 marshal force vers random ts sid suites comp rand exts]
	c := &cfgSpec{force: f[2] == "1", random: zv.UnHex(f[4]), ts: f[5] == "1", sid: zv.UnHex(f[6]),
		suites: parseNums(f[7], ","), comp: zv.UnHex(f[8]), rand: zv.UnHex(f[9])}
	v, _ := strconv.Atoi(f[3])
	c.vers = uint16(v)
	if f[10] != "-" {
		for _, t := range strings.Split(f[10], ",") {
			c.exts = append(c.exts, parseExtTok(t))
		}
	}
	return c
}

func (e extSpec) build() tls.ClientExtension {
	switch e.kind {
	case "null":
		return &tls.NullExtension{}
	case "sni":
		d := make([]string, len(e.strs))
		for i, s := range e.strs {
			d[i] = string(s)
		}
		return &tls.SNIExtension{Domains: d, Autopopulate: e.auto}
	case "alpn":
		d := make([]string, len(e.strs))
		for i, s := range e.strs {
			d[i] = string(s)
		}
		return &tls.ALPNExtension{Protocols: d}
	case "reneg":
		return &tls.SecureRenegotiationExtension{}
	case "ems":
		return &tls.ExtendedMasterSecretExtension{}
	case "status":
		return &tls.StatusRequestExtension{}
	case "sct":
		return &tls.SCTExtension{}
	case "curves":
		c := make([]tls.CurveID, len(e.nums))
		for i, n := range e.nums {
			c[i] = tls.CurveID(n)
		}
		return &tls.SupportedCurvesExtension{Curves: c}
	case "points":
		return &tls.PointFormatExtension{Formats: e.data}
	case "ticket":
		return &tls.SessionTicketExtension{Ticket: e.data, Autopopulate: e.auto}
	case "sigalgs":
		return &tls.SignatureAlgorithmExtension{SignatureAndHashes: e.nums}
	case "raw":
		return &rawExt{e.data}
	}
	panic("bad extension kind " + e.kind)
}

func (c *cfgSpec) build() *tls.ClientFingerprintConfiguration {
	f := &tls.ClientFingerprintConfiguration{HandshakeVersion: c.vers, ClientRandom: c.random, InsertTimestamp: c.ts,
		SessionID: c.sid, CipherSuites: c.suites, CompressionMethods: c.comp}
	for _, e := range c.exts {
		f.Extensions = append(f.Extensions, e.build())
	}
	return f
}

// ---------------------------------------------------------------- independent reference (T3)

// refExt: the RFC encoding of one extension written with cryptobyte.Builder; ok=false when the contents
// are outside the domain of ext_parse_back (SNI with != 1 names — D13 —, empty lists, lengths that do
// not fit their length field).
func refExt(e extSpec) (out []byte, ok bool) {
	var b cryptobyte.Builder
	ext := func(typ uint16, body func(b *cryptobyte.Builder)) {
		b.AddUint16(typ)
		b.AddUint16LengthPrefixed(body)
	}
	switch e.kind {
	case "null":
		return nil, true
	case "sni":
		if len(e.strs) != 1 || len(e.strs[0]) == 0 || e.strs[0][len(e.strs[0])-1] == '.' {
			return nil, false
		}
		ext(0, func(b *cryptobyte.Builder) {
			b.AddUint16LengthPrefixed(func(b *cryptobyte.Builder) {
				b.AddUint8(0) // host_name
				b.AddUint16LengthPrefixed(func(b *cryptobyte.Builder) { b.AddBytes(e.strs[0]) })
			})
		})
	case "alpn":
		if len(e.strs) == 0 {
			return nil, false
		}
		for _, p := range e.strs {
			if len(p) == 0 || len(p) > 255 {
				return nil, false
			}
		}
		ext(16, func(b *cryptobyte.Builder) {
			b.AddUint16LengthPrefixed(func(b *cryptobyte.Builder) {
				for _, p := range e.strs {
					b.AddUint8LengthPrefixed(func(b *cryptobyte.Builder) { b.AddBytes(p) })
				}
			})
		})
	case "reneg":
		ext(0xff01, func(b *cryptobyte.Builder) { b.AddUint8LengthPrefixed(func(b *cryptobyte.Builder) {}) })
	case "ems":
		ext(23, func(b *cryptobyte.Builder) {})
	case "status":
		ext(5, func(b *cryptobyte.Builder) {
			b.AddUint8(1) // ocsp
			b.AddUint16LengthPrefixed(func(b *cryptobyte.Builder) {})
			b.AddUint16LengthPrefixed(func(b *cryptobyte.Builder) {})
		})
	case "sct":
		ext(18, func(b *cryptobyte.Builder) {})
	case "curves", "sigalgs":
		if len(e.nums) == 0 {
			return nil, false
		}
		typ := uint16(10)
		if e.kind == "sigalgs" {
			typ = 13
		}
		ext(typ, func(b *cryptobyte.Builder) {
			b.AddUint16LengthPrefixed(func(b *cryptobyte.Builder) {
				for _, n := range e.nums {
					b.AddUint16(n)
				}
			})
		})
	case "points":
		if len(e.data) == 0 {
			return nil, false
		}
		ext(11, func(b *cryptobyte.Builder) {
			b.AddUint8LengthPrefixed(func(b *cryptobyte.Builder) { b.AddBytes(e.data) })
		})
	case "ticket":
		ext(35, func(b *cryptobyte.Builder) { b.AddBytes(e.data) })
	}
	out, err := b.Bytes()
	if err != nil {
		return nil, false
	}
	return out, true
}

type expect struct {
	serverName                     []byte
	ocsp, ticketSupported, ems, sc bool
	reneg                          bool
	curves, sigalgs                []uint16
	points, ticket                 []byte
	alpn                           [][]byte
}

func hx(b []byte) string { return zv.Hex(b) }

// dumpExpected formats what the ClientHello parser must read back, in the canonical dump syntax of the hook.
func dumpExpected(c *cfgSpec, random []byte, x *expect) string {
	var alpn []string
	for _, p := range x.alpn {
		alpn = append(alpn, hx(p))
	}
	al := "-"
	if len(alpn) > 0 {
		al = strings.Join(alpn, ",")
	}
	f := []string{
		"vers=" + strconv.Itoa(int(c.vers)), "random=" + hx(random), "sessionId=" + hx(c.sid),
		"cipherSuites=" + numList(c.suites), "compressionMethods=" + hx(c.comp), "serverName=" + hx(x.serverName),
		"ocspStapling=" + b01(x.ocsp), "supportedCurves=" + numList(x.curves), "supportedPoints=" + hx(x.points),
		"ticketSupported=" + b01(x.ticketSupported), "sessionTicket=" + hx(x.ticket),
		"supportedSignatureAlgorithms=" + numList(x.sigalgs), "supportedSignatureAlgorithmsCert=-",
		"secureRenegotiationSupported=" + b01(x.reneg), "secureRenegotiation=-", "extendedRandomEnabled=0",
		"extendedRandom=-", "extendedMasterSecret=" + b01(x.ems), "alpnProtocols=" + al, "scts=" + b01(x.sc),
		"supportedVersions=-", "cookie=-", "keyShares=-", "earlyData=0", "pskModes=-", "pskIdentities=-", "pskBinders=-",
	}
	return strings.Join(f, ";")
}

func be32(b []byte) uint32 { return binary.BigEndian.Uint32(b) }

func firstDiff(a, b []byte) int {
	n := len(a)
	if len(b) < n {
		n = len(b)
	}
	for i := 0; i < n; i++ {
		if a[i] != b[i] {
			return i
		}
	}
	return n
}

func snip(b []byte, at int) string {
	lo, hi := at-4, at+8
	if lo < 0 {
		lo = 0
	}
	if hi > len(b) {
		hi = len(b)
	}
	return hx(b[lo:hi])
}

func execMarshal(f []string) zv.Out {
	c := parseCfg(f)
	cfg := c.build()
	tBefore := time.Now().Unix()
	out, err := tls.ZVFingerprintMarshal(cfg, bytes.NewReader(c.rand), c.force)
	tAfter := time.Now().Unix()
	tags := []string{"marshal"}
	for _, e := range c.exts {
		tags = append(tags, "ext:"+e.kind)
	}
	tags = append(tags, fmt.Sprintf("nexts<=%d", (len(c.exts)/4+1)*4))
	usesTS := len(c.random) != 32 && c.ts
	switch {
	case len(c.random) == 32:
		tags = append(tags, "random:configured")
	case c.ts:
		tags = append(tags, "random:timestamp+fresh")
	default:
		tags = append(tags, "random:fresh")
	}
	// errors the configuration rules demand
	mustErr := ""
	if len(c.sid) >= 256 {
		mustErr = "session id of 256 or more bytes"
	} else if !(len(c.comp) == 1 && c.comp[0] == 0) {
		mustErr = "compression methods other than [0]"
	} else if len(c.random) != 32 && ((c.ts && len(c.rand) < 28) || (!c.ts && len(c.rand) < 32)) {
		mustErr = "randomness source runs dry"
	}
	if err != nil {
		tags = append(tags, "marshal:err")
		if mustErr != "" {
			tags = append(tags, "err:"+strings.Fields(mustErr)[0])
		} else {
			tags = append(tags, "err:unimplemented-or-other")
		}
		return zv.Out{Go: "err", Tags: tags}
	}
	tags = append(tags, "marshal:ok")
	viol := ""
	fail := func(format string, a ...any) {
		if viol == "" {
			viol = fmt.Sprintf(format, a...)
		}
	}
	if mustErr != "" {
		fail("marshal succeeded although the configuration has %s", mustErr)
	}
	goOut := ""
	if len(out) < 39 {
		fail("hello of %d bytes is shorter than the fixed part", len(out))
		return zv.Out{Go: "ok " + hx(out), Viol: viol, Tags: tags}
	}
	random := out[6:38]
	// ---- random_rule
	tsOK := true
	if len(c.random) == 32 {
		if !bytes.Equal(random, c.random) {
			fail("configured 32-byte ClientRandom %s not sent verbatim: wire has %s", hx(c.random), hx(random))
		}
	} else if c.ts {
		got := be32(random[:4])
		tsOK = false
		for t := tBefore; t <= tAfter; t++ {
			if got == uint32(t) {
				tsOK = true
			}
		}
		if !tsOK {
			fail("InsertTimestamp: random starts with %s, not the big-endian low 32 bits of the Unix time (%08x..%08x)", hx(random[:4]), uint32(tBefore), uint32(tAfter))
		}
		if len(c.rand) >= 28 && !bytes.Equal(random[4:], c.rand[:28]) {
			fail("InsertTimestamp: bytes 4..32 of the random are not the next 28 bytes of Config.Rand")
		}
	} else if len(c.rand) >= 32 && !bytes.Equal(random, c.rand[:32]) {
		fail("random is not the first 32 bytes of Config.Rand")
	}
	if usesTS {
		if tsOK {
			goOut = "ok " + hx(out[:6]) + "T" + hx(out[10:])
		} else {
			goOut = "ok " + hx(out[:6]) + "BAD(" + hx(out[6:10]) + ")" + hx(out[10:])
		}
	} else {
		goOut = "ok " + hx(out)
	}

	// ---- fp_hello_layout: independent reference built with cryptobyte.Builder
	var pieces [][]byte
	extLen := 0
	allRef := true
	for _, e := range c.exts {
		p, ok := refExt(e)
		if ok {
			real := e.build().Marshal()
			if !bytes.Equal(real, p) {
				fail("%s extension encodes as %s, RFC encoding of the configured value is %s", e.kind, hx(real), hx(p))
			}
		} else {
			allRef = false
			p = e.build().Marshal() // outside the parse-back domain: only concatenation and order are checked
		}
		pieces = append(pieces, p)
		extLen += len(p)
	}
	layoutDomain := len(c.suites) < 32768 && extLen < 65536
	if layoutDomain {
		tags = append(tags, "layout-checked")
		var b cryptobyte.Builder
		b.AddUint8(1)
		b.AddUint24LengthPrefixed(func(b *cryptobyte.Builder) {
			b.AddUint16(c.vers)
			b.AddBytes(random)
			b.AddUint8LengthPrefixed(func(b *cryptobyte.Builder) { b.AddBytes(c.sid) })
			b.AddUint16LengthPrefixed(func(b *cryptobyte.Builder) {
				for _, s := range c.suites {
					b.AddUint16(s)
				}
			})
			b.AddUint8LengthPrefixed(func(b *cryptobyte.Builder) { b.AddBytes(c.comp) })
			if extLen > 0 {
				b.AddUint16LengthPrefixed(func(b *cryptobyte.Builder) {
					for _, p := range pieces {
						b.AddBytes(p)
					}
				})
			}
		})
		want, berr := b.Bytes()
		if berr != nil {
			fail("reference builder failed: %v", berr)
		} else if !bytes.Equal(want, out) {
			at := firstDiff(want, out)
			fail("hello differs from the configured layout at offset %d (len %d, expected len %d): got …%s… expected …%s…", at, len(out), len(want), snip(out, at), snip(want, at))
		}
	} else {
		tags = append(tags, "layout-outside-domain")
	}

	// ---- ext_parse_back / hello_parse_back with the real parser
	nSNI := 0
	for _, e := range c.exts {
		if e.kind == "sni" {
			nSNI++
		}
	}
	if layoutDomain && allRef && nSNI <= 1 {
		tags = append(tags, "parse-back-checked")
		x := &expect{}
		for _, s := range c.suites {
			if s == 0x00ff {
				x.reneg = true
			}
		}
		for _, e := range c.exts {
			switch e.kind {
			case "sni":
				x.serverName = e.strs[0]
			case "alpn":
				x.alpn = append(x.alpn, e.strs...)
			case "reneg":
				x.reneg = true
			case "ems":
				x.ems = true
			case "status":
				x.ocsp = true
			case "sct":
				x.sc = true
			case "curves":
				x.curves = append(x.curves, e.nums...)
			case "points":
				x.points = e.data
			case "ticket":
				x.ticketSupported, x.ticket = true, e.data
			case "sigalgs":
				x.sigalgs = append(x.sigalgs, e.nums...)
			}
		}
		want := dumpExpected(c, random, x)
		got, ok := tls.ZVClientHelloUnmarshal(out)
		if !ok {
			fail("the ClientHello parser rejects the fingerprinted hello %s", hx(out))
		} else if got != want {
			fail("the ClientHello parser reads back %s; configured: %s", got, want)
		}
	} else {
		tags = append(tags, "parse-back-outside-domain")
	}
	return zv.Out{Go: goOut, Viol: viol, Tags: tags}
}

func execParse(f []string) zv.Out {
	data := zv.UnHex(f[2])
	dump, ok := tls.ZVClientHelloUnmarshal(data)
	if !ok {
		return zv.Out{Go: "err", Tags: []string{"parse", "parse:err"}}
	}
	tags := []string{"parse", "parse:ok"}
	for _, kv := range strings.Split(dump, ";") {
		p := strings.SplitN(kv, "=", 2)
		if p[1] != "-" && p[1] != "0" {
			tags = append(tags, "parsed:"+p[0])
		}
	}
	return zv.Out{Go: "ok " + dump, Tags: tags}
}

// execBig: n session-ticket extensions of k bytes each; the hello must be refused exactly when the message
// body would need more than 24 bits of length (the extension block length is then wrong anyway: outside the layout domain).
func execBig(f []string) zv.Out {
	n, _ := strconv.Atoi(f[2])
	k, _ := strconv.Atoi(f[3])
	cfg := &tls.ClientFingerprintConfiguration{HandshakeVersion: 0x0303, ClientRandom: make([]byte, 32), CompressionMethods: []byte{0}}
	t := make([]byte, k)
	for i := 0; i < n; i++ {
		cfg.Extensions = append(cfg.Extensions, &tls.SessionTicketExtension{Ticket: t})
	}
	out, err := tls.ZVFingerprintMarshal(cfg, bytes.NewReader(nil), true)
	body := 2 + 32 + 1 + 2 + 2 + 2 + n*(4+k)
	viol := ""
	if body >= 1<<24 && err == nil {
		viol = fmt.Sprintf("hello with a body of %d bytes (>= 1<<24) was produced", body)
	}
	if body < 1<<24 {
		if err != nil {
			viol = fmt.Sprintf("hello with a body of %d bytes (< 1<<24) was refused: %v", body, err)
		} else if len(out) != body+4 || int(out[1])<<16|int(out[2])<<8|int(out[3]) != body {
			viol = fmt.Sprintf("message length field %d, body %d, len %d", int(out[1])<<16|int(out[2])<<8|int(out[3]), body, len(out))
		}
	}
	return zv.Out{Go: "", Viol: viol, Tags: []string{"big", fmt.Sprintf("big:refused=%v", err != nil)}}
}

func exec(line string) zv.Out {
	f := strings.Fields(line)
	switch f[1] {
	case "marshal":
		return execMarshal(f)
	case "parse":
		return execParse(f)
	case "big":
		return execBig(f)
	case "wire":
		return execWire(f)
	case "ext":
		return execExt(f)
	case "check":
		return execCheck(f)
	case "rt":
		return execRt(f)
	case "wtc":
		return execWtc(f)
	}
	panic("bad sub-op " + f[1])
}

func init() {
	zv.Register(&zv.Prop{ID: "C29", Topic: "c29", Gen: gen, Exec: exec, Timeout: 120 * time.Second,
		Rule: "marshal: random ClientFingerprintConfigurations (each built-in extension type alone with in-domain and edge contents; random extension lists with duplicates and NullExtension; session id 0/32/255/256; 0..40000 suites, implemented or not, ForceSuites on/off; compression [], [0], [0,1], [1], 256 bytes; configured / fresh / timestamped random; short randomness source) through ZVFingerprintMarshal, a case is one distinct configuration line; parse: ClientHellos from the fingerprint encoder and hand-built hellos with every extension type the parser knows (valid and malformed variants), every strict prefix of some, random byte mutations, through ZVClientHelloUnmarshal; wire: fingerprint configurations through a real tls.Client handshake over an in-memory transport (peer: a script answering ServerHelloDone, or a real zcrypto server), the ClientHello reassembled from the first handshake record(s) the client wrote (hellos of 16..65 KiB span several records): every built-in extension type alone, every ordered pair of types, all types at once in stock order / reversed / every rotation / random permutations, random lists with duplicates and NullExtension, configurations of the marshal stream (errors: nothing may be sent), SNI and session-ticket Autopopulate with Config.ServerName empty/set and the fingerprint SessionCache absent / without key / empty / holding a session that fits or not, RandomSessionID, user-defined extensions (every type the parser knows, heartbeat, NPN, padding, GREASE, unknown), crossed with Config options set before the handshake (" + coptDoc + ") - including a Config.ClientSessionCache (empty, or holding a session) in every stream: it must not change a byte nor make the handshake panic (D42); Config.Rand pinned so the comparison is exact; ext: every built-in extension type alone through its real Marshal() and CheckImplemented() (random in-domain and edge contents; every value at and around what the 1- and 2-byte length prefixes can carry: 255/256/257, 65535/65536/65537 bytes, 32766..32770 list entries, 2^17 bytes) - encoder never fails or panics, contents never truncated, length bytes = low 16 bits; check: CheckImplementedExtensions on random lists against the dumped tables; rt: marshal followed by the real unmarshal on the boundary values (alone and followed by another extension) and random configurations, dump of all parsed fields compared with the model; wtc: the real (*ClientFingerprintConfiguration).WriteToConfig on random extension lists with Autopopulate entries, ServerName empty/set, stale Config values - every Config field written and the extension list afterwards compared with the model and with an independent last-wins reference; T3 = independent cryptobyte.Builder reference layout + read-back with the real parser + random/timestamp rule + wire bytes == configured encoding byte for byte, record type/version/fragment sizes, nothing on the wire when the configuration is refused, ClientHello of the client's (and the server's) handshake log == configured values, real handshakes complete"})
}
