package c29

// `c29 wire`: the ClientHello of a fingerprint configuration as it leaves a real tls.Client — the first
// handshake record(s) on the transport — against the configured encoding.
//
//	c29 wire <sn> <fpc> <rsid> <copt> <force> <vers> <random> <ts> <sid> <suites> <comp> <rand> <exts>
//
//	sn    Config.ServerName (hex, - = empty)
//	fpc   ClientFingerprintConfiguration.SessionCache: - (nil) | nokey (cache without CacheKey) | empty |
//	      s:<vers>:<suite>:<ticket hex> (a session with these values is cached under the key)
//	rsid  ClientFingerprintConfiguration.RandomSessionID
//	copt  letters (- = none): Config options set BEFORE the handshake; see coptDoc
//	rest  as in `c29 marshal`; ext tokens additionally `sni+…` / `ticket+:…` (Autopopulate) and `raw:<hex>`
//	      (a user-defined ClientExtension whose Marshal returns these bytes; such lines are T3-only)
//
// canonical output: `ok <hello hex>` (timestamp bytes as T, as in marshal) | `err` (Handshake failed before a
// handshake record was written) | `panic`.

import (
	"bytes"
	"fmt"
	"io"
	"net"
	"strconv"
	"strings"
	"time"

	"github.com/zmap/zcrypto/tls"
	"golang.org/x/crypto/cryptobyte"

	"zv/internal/tlsrig"
	"zv/internal/zv"
)

const coptDoc = "F ForceSessionTicketExt, S SignedCertificateTimestampExt, E ExtendedMasterSecret, H HeartbeatEnabled, " +
	"R ExtendedRandom, N NextProtos, X ExternalClientHello, V CipherSuites/CurvePreferences/ClientRandom/MaxVersion/" +
	"CompressionMethods/SupportedPoints/SignatureAndHashes/NoOcspStapling preset to other values, " +
	"D ClientSessionCache holding a session + SessionTicketsDisabled, C empty ClientSessionCache, " +
	"T ClientSessionCache holding a TLS 1.2 session for the server, B DontBufferHandshakes, P real zcrypto server as peer"

// rawExt: a ClientExtension implemented outside zcrypto (the interface is public).
type rawExt struct{ b []byte }

func (r *rawExt) Marshal() []byte                 { return r.b }
func (r *rawExt) CheckImplemented() error         { return nil }
func (r *rawExt) WriteToConfig(*tls.Config) error { return nil }

type fpCache struct {
	kind   string // "-", "nokey", "empty", "s"
	vers   uint16
	suite  uint16
	ticket []byte
}

func (f fpCache) tok() string {
	if f.kind == "s" {
		return fmt.Sprintf("s:%d:%d:%s", f.vers, f.suite, zv.Hex(f.ticket))
	}
	return f.kind
}

func parseFpCache(s string) fpCache {
	if !strings.HasPrefix(s, "s:") {
		return fpCache{kind: s}
	}
	p := strings.Split(s, ":")
	v, _ := strconv.Atoi(p[1])
	su, _ := strconv.Atoi(p[2])
	return fpCache{kind: "s", vers: uint16(v), suite: uint16(su), ticket: zv.UnHex(p[3])}
}

type wireSpec struct {
	sn   []byte
	fpc  fpCache
	rsid int
	copt string
	c    *cfgSpec
}

func (w *wireSpec) line() string {
	co := w.copt
	if co == "" {
		co = "-"
	}
	return fmt.Sprintf("c29 wire %s %s %d %s %s", zv.Hex(w.sn), w.fpc.tok(), w.rsid, co, strings.TrimPrefix(w.c.line(), "c29 marshal "))
}

func parseWire(f []string) *wireSpec {
	w := &wireSpec{sn: zv.UnHex(f[2]), fpc: parseFpCache(f[3]), copt: f[5]}
	w.rsid, _ = strconv.Atoi(f[4])
	if w.copt == "-" {
		w.copt = ""
	}
	w.c = parseCfg(f[4:]) // f[4:][2] = force …
	return w
}

func (w *wireSpec) has(l byte) bool { return strings.IndexByte(w.copt, l) >= 0 }

// ---------------------------------------------------------------- what the configuration says (harness side)

// supportedVersionsTable: tls/common.go supportedVersions (minSupportedVersion with MaxVersion = HandshakeVersion).
var supportedVersionsTable = []uint16{0x0304, 0x0303, 0x0302, 0x0301}

// effective: the configuration after the documented substitutions of the fingerprint path
// (SNIExtension.Autopopulate, SessionTicketExtension.Autopopulate, RandomSessionID), written independently of
// clientHandshake. err != "" : the handshake must fail before anything is sent.
func (w *wireSpec) effective() (eff *cfgSpec, err string) {
	c := *w.c
	exts := append([]extSpec(nil), w.c.exts...)
	sn := w.sn
	// ClientFingerprintConfiguration.WriteToConfig: every extension in list order; an Autopopulate SNI
	// rewrites ALL SNI entries of the list (visible to the rest of the loop).
	forceTicket := false
	for i := 0; i < len(exts); i++ {
		e := exts[i]
		switch e.kind {
		case "sni":
			if e.auto {
				for j := range exts {
					if exts[j].kind == "sni" {
						if len(sn) == 0 {
							exts[j] = extSpec{kind: "null"}
						} else {
							exts[j] = extSpec{kind: "sni", strs: [][]byte{sn}, auto: true}
						}
					}
				}
			}
			if len(sn) == 0 && len(e.strs) > 0 {
				sn = e.strs[0]
			}
		case "ticket":
			forceTicket = true
		}
	}
	// session lookup in the fingerprint's own cache
	var session *fpCache
	switch w.fpc.kind {
	case "nokey":
		return nil, "SessionCache without CacheKey"
	case "s":
		suiteOK := false
		for _, s := range c.suites {
			if s == w.fpc.suite {
				suiteOK = true
			}
		}
		min := uint16(0)
		for _, v := range supportedVersionsTable {
			if v <= c.vers {
				min = v // table is descending: the last one that fits is the minimum
			}
		}
		if suiteOK && w.fpc.vers >= min && w.fpc.vers <= c.vers {
			session = &w.fpc
		}
	}
	rand := c.rand
	for i := range exts {
		if exts[i].kind == "ticket" && exts[i].auto {
			if session == nil {
				if !forceTicket {
					exts[i] = extSpec{kind: "null"}
				}
			} else {
				exts[i] = extSpec{kind: "ticket", data: session.ticket, auto: true}
				if w.rsid > 0 {
					if len(rand) < w.rsid {
						return nil, "randomness source runs dry (RandomSessionID)"
					}
					c.sid, rand = rand[:w.rsid], rand[w.rsid:]
				}
			}
		}
	}
	c.exts, c.rand = exts, rand
	return &c, ""
}

// refLayout: the configured encoding of c with the given 32 random bytes, written with cryptobyte.Builder
// (same layout as fp_hello_layout); ok=false outside the layout domain (>= 32768 suites, >= 65536 extension bytes).
func refLayout(c *cfgSpec, random []byte) (want []byte, ok bool) {
	var pieces [][]byte
	extLen := 0
	for _, e := range c.exts {
		var p []byte
		if e.kind == "raw" {
			p = e.data
		} else if q, in := refExt(e); in {
			p = q
		} else {
			p = (extSpec{kind: e.kind, strs: e.strs, nums: e.nums, data: e.data}).build().Marshal()
		}
		pieces = append(pieces, p)
		extLen += len(p)
	}
	if len(c.suites) >= 32768 || extLen >= 65536 || len(c.sid) >= 256 || len(c.comp) >= 256 || len(random) != 32 {
		return nil, false
	}
	var b cryptobyte.Builder
	b.AddUint8(1)
	b.AddUint24LengthPrefixed(func(b *cryptobyte.Builder) {
		b.AddUint16(c.vers)
		b.AddBytes(random)
		b.AddUint8LengthPrefixed(func(b *cryptobyte.Builder) { b.AddBytes(c.sid) })
		b.AddUint16LengthPrefixed(func(b *cryptobyte.Builder) {
			for _, s := range c.suites {
				b.AddUint16(s)
			}
		})
		b.AddUint8LengthPrefixed(func(b *cryptobyte.Builder) { b.AddBytes(c.comp) })
		if extLen > 0 {
			b.AddUint16LengthPrefixed(func(b *cryptobyte.Builder) {
				for _, p := range pieces {
					b.AddBytes(p)
				}
			})
		}
	})
	want, err := b.Bytes()
	if err != nil {
		return nil, false
	}
	return want, true
}

// ---------------------------------------------------------------- running the real client

type keyGen struct{}

func (keyGen) Key(net.Addr) string { return "zv-fp-key" }

func session(vers, suite uint16, ticket []byte) *tls.ClientSessionState {
	return tls.ZVSessionAs(tls.ZVSessionWithTicket(&tls.ClientSessionState{}, ticket), vers, suite)
}

// a well-formed ClientHello for Config.ExternalClientHello (must be ignored: the fingerprint has priority)
var externalHello = func() []byte {
	body := cat(w16(0x0303), bytes.Repeat([]byte{0xee}, 32), lp8(nil), lp16(w16(0x002f)), lp8([]byte{0}),
		lp16(cat(w16(0xff01), lp16(lp8(nil)))))
	return cat([]byte{1, byte(len(body) >> 16), byte(len(body) >> 8), byte(len(body))}, body)
}()

func (w *wireSpec) config() *tls.Config {
	fp := w.c.build()
	fp.RandomSessionID = w.rsid
	switch w.fpc.kind {
	case "nokey", "empty", "s":
		fp.SessionCache = tls.NewLRUClientSessionCache(4)
		if w.fpc.kind != "nokey" {
			fp.CacheKey = keyGen{}
		}
		if w.fpc.kind == "s" {
			fp.SessionCache.Put("zv-fp-key", session(w.fpc.vers, w.fpc.suite, w.fpc.ticket))
		}
	}
	cfg := &tls.Config{InsecureSkipVerify: true, ServerName: string(w.sn), Rand: bytes.NewReader(w.c.rand),
		ForceSuites: w.c.force, ClientFingerprintConfiguration: fp}
	if w.has('P') {
		// the key exchange needs randomness too: the configured bytes first, then an endless deterministic stream
		cfg.Rand = io.MultiReader(bytes.NewReader(w.c.rand), &streamReader{x: 0x9e3779b97f4a7c15})
	}
	for i := 0; i < len(w.copt); i++ {
		switch w.copt[i] {
		case 'F':
			cfg.ForceSessionTicketExt = true
		case 'S':
			cfg.SignedCertificateTimestampExt = true
		case 'E':
			cfg.ExtendedMasterSecret = true
		case 'H':
			cfg.HeartbeatEnabled = true
		case 'R':
			cfg.ExtendedRandom = true
		case 'N':
			cfg.NextProtos = []string{"zv-proto", "h2"}
		case 'X':
			cfg.ExternalClientHello = externalHello
		case 'V':
			cfg.CipherSuites = []uint16{0x0035, 0xc014}
			cfg.CurvePreferences = []tls.CurveID{tls.CurveP521}
			cfg.ClientRandom = bytes.Repeat([]byte{0xcc}, 32)
			cfg.MaxVersion = 0x0301
			cfg.CompressionMethods = []uint8{0}
			cfg.SupportedPoints = []uint8{0}
			cfg.SignatureAndHashes = []tls.SigAndHash{{Signature: 1, Hash: 2}}
			cfg.NoOcspStapling = true
		case 'B':
			cfg.DontBufferHandshakes = true
		case 'D', 'C', 'T':
			cache := tls.NewLRUClientSessionCache(4)
			if w.copt[i] != 'C' {
				suite := uint16(0x002f)
				if len(w.c.suites) > 0 {
					suite = w.c.suites[0]
				}
				s := session(0x0303, suite, []byte("zv-config-cache-ticket"))
				cache.Put("zvpipe", s) // clientSessionCacheKey: ServerName, else the remote address
				for _, k := range w.cacheKeys() {
					cache.Put(k, s)
				}
			}
			cfg.ClientSessionCache = cache
			if w.copt[i] == 'D' {
				cfg.SessionTicketsDisabled = true
			}
		}
	}
	return cfg
}

// cacheKeys: every server name the handshake may end up with (Config.ServerName or a name of an SNI extension)
func (w *wireSpec) cacheKeys() []string {
	k := []string{string(w.sn)}
	for _, e := range w.c.exts {
		if e.kind == "sni" {
			for _, d := range e.strs {
				k = append(k, string(d))
			}
		}
	}
	return k
}

type wireRun struct {
	out       []byte // everything the client wrote
	err       error
	panicked  any
	log       *tls.ClientHello // ClientHello of the client's handshake log (nil when not reached)
	serverErr error
	serverLog *tls.ClientHello
	timedOut  bool
}

// runStub: the peer is a script — one handshake record holding a ServerHelloDone, then EOF. The transport is
// buffered in both directions, so the client runs in the calling goroutine and can never block: it writes its
// first flight, reads the canned message (which makes it record the ClientHello in its handshake log), rejects
// it with an alert and returns.
func (w *wireSpec) runStub() (r wireRun) {
	a, b := tlsrig.Pipe()
	defer a.Close()
	defer b.Close()
	b.Write([]byte{22, 3, 1, 0, 4, 14, 0, 0, 0})
	b.CloseWrite()
	a.SetDeadline(time.Now().Add(45 * time.Second))
	tap := &tlsrig.Tap{Conn: a}
	c := tls.Client(tap, w.config())
	func() {
		defer func() {
			if p := recover(); p != nil {
				r.panicked = p
			}
		}()
		r.err = c.Handshake()
	}()
	_, r.out = tap.Snapshot()
	if r.panicked == nil {
		if hl := c.GetHandshakeLog(); hl != nil {
			r.log = hl.ClientHello
		}
		c.Close()
	}
	return r
}

var serverCfg = func() func() *tls.Config {
	return func() *tls.Config {
		p := tlsrig.GetPKI()
		return &tls.Config{Certificates: []tls.Certificate{p.Leaf["rsa"]}, MaxVersion: tls.VersionTLS12}
	}
}()

// runReal: a real zcrypto server as peer; the handshake runs to completion (both Finished messages verify only
// when both sides hashed the same ClientHello).
func (w *wireSpec) runReal() (r wireRun) {
	res := tlsrig.Handshake(w.config(), serverCfg(), tlsrig.Opts{Timeout: 45 * time.Second})
	r.out, r.err, r.panicked, r.timedOut = res.ClientOut, res.Client.Err, res.Client.Panic, res.TimedOut
	r.serverErr = res.Server.Err
	if res.Server.Panic != nil && r.panicked == nil {
		r.panicked = res.Server.Panic
	}
	if r.panicked == nil {
		if hl := res.Client.Conn.GetHandshakeLog(); hl != nil {
			r.log = hl.ClientHello
		}
		if hl := res.Server.Conn.GetHandshakeLog(); hl != nil {
			r.serverLog = hl.ClientHello
		}
	}
	return r
}

// firstFlight splits what the client wrote into the handshake message carried by the leading handshake
// records; problems with the record layer are returned in what.
func firstFlight(out []byte) (hello []byte, nrec int, what string) {
	recs, _ := tlsrig.SplitRecords(out)
	need := -1
	for _, rec := range recs {
		if rec[0] != 22 {
			break
		}
		nrec++
		if rec[1] != 3 || rec[2] != 1 {
			what = fmt.Sprintf("record %d of the first flight has version %02x%02x, not 0301", nrec, rec[1], rec[2])
		}
		n := len(rec) - 5
		if n == 0 || n > 16384 {
			what = fmt.Sprintf("record %d of the first flight has a fragment of %d bytes", nrec, n)
		}
		hello = append(hello, rec[5:]...)
		if need < 0 && len(hello) >= 4 {
			need = 4 + (int(hello[1])<<16 | int(hello[2])<<8 | int(hello[3]))
		}
		if need >= 0 && len(hello) >= need {
			break
		}
	}
	return hello, nrec, what
}

// logDump renders the handshake-log ClientHello in the syntax of the parser dump (fields both have).
func logDump(h *tls.ClientHello) string {
	suites := make([]uint16, len(h.CipherSuites))
	for i, s := range h.CipherSuites {
		suites[i] = uint16(s)
	}
	comp := make([]byte, len(h.CompressionMethods))
	for i, s := range h.CompressionMethods {
		comp[i] = byte(s)
	}
	curves := make([]uint16, len(h.SupportedCurves))
	for i, s := range h.SupportedCurves {
		curves[i] = uint16(s)
	}
	pts := make([]byte, len(h.SupportedPoints))
	for i, s := range h.SupportedPoints {
		pts[i] = byte(s)
	}
	var alpn []string
	for _, p := range h.AlpnProtocols {
		alpn = append(alpn, hx([]byte(p)))
	}
	al := "-"
	if len(alpn) > 0 {
		al = strings.Join(alpn, ",")
	}
	var tk []byte
	if h.SessionTicket != nil {
		tk = h.SessionTicket.Value
	}
	sv := make([]uint16, len(h.SupportedVersions))
	for i, s := range h.SupportedVersions {
		sv[i] = uint16(s)
	}
	return strings.Join([]string{"vers=" + strconv.Itoa(int(h.Version)), "random=" + hx(h.Random), "sessionId=" + hx(h.SessionID),
		"cipherSuites=" + numList(suites), "compressionMethods=" + hx(comp), "serverName=" + hx([]byte(h.ServerName)),
		"ocspStapling=" + b01(h.OcspStapling), "supportedCurves=" + numList(curves), "supportedPoints=" + hx(pts),
		"sessionTicket=" + hx(tk), "extendedMasterSecret=" + b01(h.ExtendedMasterSecret), "alpnProtocols=" + al,
		"scts=" + b01(h.Scts), "supportedVersions=" + numList(sv)}, ";")
}

var logFields = map[string]bool{"vers": true, "random": true, "sessionId": true, "cipherSuites": true, "compressionMethods": true,
	"serverName": true, "ocspStapling": true, "supportedCurves": true, "supportedPoints": true, "sessionTicket": true,
	"extendedMasterSecret": true, "alpnProtocols": true, "scts": true, "supportedVersions": true}

// parserDumpForLog: the same fields out of the dump of the real parser run on the configured encoding
func parserDumpForLog(dump string) string {
	var keep []string
	for _, kv := range strings.Split(dump, ";") {
		if logFields[strings.SplitN(kv, "=", 2)[0]] {
			keep = append(keep, kv)
		}
	}
	return strings.Join(keep, ";")
}

// handshakeCapable: the fingerprint offers what the rig's server (RSA certificate, TLS <= 1.2) needs whatever
// suite it picks, and nothing that a server may legitimately refuse.
func (w *wireSpec) handshakeCapable(eff *cfgSpec) bool {
	if eff.vers < 0x0301 || eff.vers > 0x0303 || len(eff.suites) == 0 {
		return false
	}
	// suites of the server's default list; the first four exist in every version, the others need TLS 1.2
	okSuite := map[uint16]bool{0xc013: true, 0xc014: true, 0x002f: true, 0x0035: true, 0xc02f: false, 0xc030: false, 0x009c: false, 0x009d: false}
	anyVersion := false
	for _, s := range eff.suites {
		all, ok := okSuite[s]
		if !ok {
			return false
		}
		anyVersion = anyVersion || all
	}
	if eff.vers != 0x0303 && !anyVersion {
		return false
	}
	seen := map[string]int{}
	for _, e := range eff.exts {
		seen[e.kind]++
		switch e.kind {
		case "raw":
			t := int(e.data[0])<<8 | int(e.data[1])
			if t != 21 && t != 0x0a0a && t != 0x1a1a && t != 65000 {
				return false
			}
		case "curves":
			if len(e.nums) == 0 || (e.nums[0] != 23 && e.nums[0] != 29) {
				return false
			}
		case "points":
			if !bytes.Equal(e.data, []byte{0}) {
				return false
			}
		case "sigalgs":
			has := false
			for _, n := range e.nums {
				if n == 0x0401 {
					has = true
				}
			}
			if !has {
				return false
			}
		case "ticket":
			if len(e.data) != 0 {
				return false
			}
		case "sni":
			if len(e.strs) != 1 || len(e.strs[0]) == 0 || e.strs[0][len(e.strs[0])-1] == '.' {
				return false
			}
		case "alpn":
			if len(e.strs) == 0 {
				return false
			}
			for _, p := range e.strs {
				if len(p) == 0 || len(p) > 255 {
					return false
				}
			}
		}
	}
	for k, n := range seen {
		if n > 1 && k != "null" && k != "raw" {
			return false
		}
	}
	return seen["curves"] == 1 && seen["points"] == 1 && seen["sigalgs"] == 1
}

func execWire(f []string) zv.Out {
	w := parseWire(f)
	tags := []string{"wire"}
	hasRaw, userSV := false, false
	nonStock := false
	for _, e := range w.c.exts {
		tags = append(tags, "wire-ext:"+e.kind)
		if e.auto {
			tags = append(tags, "wire-auto:"+e.kind)
		}
		if e.kind == "raw" {
			hasRaw = true
			if len(e.data) >= 2 && e.data[0] == 0 && e.data[1] == 43 {
				userSV = true
			}
			tags = append(tags, fmt.Sprintf("wire-raw-type:%d", int(e.data[0])<<8|int(e.data[1])))
		}
	}
	for i := 0; i < len(w.copt); i++ {
		tags = append(tags, "wire-copt:"+string(w.copt[i]))
	}
	if w.copt == "" {
		tags = append(tags, "wire-copt:none")
	}
	tags = append(tags, "wire-fpcache:"+w.fpc.kind)
	if len(w.sn) > 0 {
		tags = append(tags, "wire-servername:set")
	}
	if w.rsid > 0 {
		tags = append(tags, "wire-randomsessionid")
	}

	viol := ""
	fail := func(format string, a ...any) {
		if viol == "" {
			viol = fmt.Sprintf(format, a...)
		}
	}

	// ---- what the configuration says
	eff, mustErr := w.effective()
	var want []byte // configured encoding; bytes 6..10 unknown when usesTS
	usesTS := false
	if mustErr == "" {
		usesTS = len(eff.random) != 32 && eff.ts
		hook, herr := tls.ZVFingerprintMarshal((&cfgSpec{vers: eff.vers, random: eff.random, ts: eff.ts, sid: eff.sid, suites: eff.suites,
			comp: eff.comp, exts: stripAuto(eff.exts)}).build(), bytes.NewReader(eff.rand), eff.force)
		if herr != nil {
			mustErr = "configuration that marshal refuses: " + herr.Error()
		} else {
			want = hook
			if ref, ok := refLayout(eff, hook[6:38]); ok {
				tags = append(tags, "wire-expected:reference-layout")
				if !bytes.Equal(ref[:6], hook[:6]) || !bytes.Equal(ref[10:], hook[10:]) {
					at := firstDiff(ref, hook)
					fail("marshal of the effective configuration differs from the configured layout at offset %d: got …%s… expected …%s…", at, snip(hook, at), snip(ref, at))
				}
				want = ref
			} else {
				tags = append(tags, "wire-expected:marshal-only")
			}
			if _, ok := tls.ZVClientHelloUnmarshal(want); !ok {
				mustErr = "hello that the client's own parser rejects (incompatible ClientFingerprintConfiguration)"
			}
		}
	}
	stock := []string{"sni", "status", "curves", "points", "ticket", "sigalgs", "reneg", "alpn", "sct", "ems"}
	if mustErr == "" {
		pos := -1
		seen := map[string]bool{}
		for _, e := range eff.exts {
			if e.kind == "null" {
				continue
			}
			p := -1
			for i, s := range stock {
				if s == e.kind {
					p = i
				}
			}
			if p < pos || p < 0 || seen[e.kind] {
				nonStock = true
			}
			seen[e.kind] = true
			pos = p
		}
		if nonStock {
			tags = append(tags, "wire-order:non-stock")
		} else {
			tags = append(tags, "wire-order:stock-compatible")
		}
	}

	// ---- the real client
	tBefore := time.Now().Unix()
	var r wireRun
	if w.has('P') {
		r = w.runReal()
	} else {
		r = w.runStub()
	}
	tAfter := time.Now().Unix()
	if r.panicked != nil {
		tags = append(tags, "wire:panic")
		return zv.Out{Go: goIf(!hasRaw, "panic"), Viol: fmt.Sprintf("client handshake panicked: %v", r.panicked), Tags: tags}
	}
	if r.timedOut {
		fail("handshake timed out")
	}
	hello, nrec, recWhat := firstFlight(r.out)
	if nrec == 0 {
		tags = append(tags, "wire:err")
		if mustErr == "" {
			fail("no ClientHello on the wire (Handshake: %v); the configuration is valid, configured encoding %s", r.err, hx(want))
		} else {
			tags = append(tags, "wire-err:"+strings.Fields(mustErr)[0])
		}
		if r.err == nil {
			fail("Handshake returned nil without sending a ClientHello")
		}
		recs, rest := tlsrig.SplitRecords(r.out)
		for _, rec := range recs {
			if rec[0] != 21 {
				fail("failed handshake wrote a record of type %d", rec[0])
			}
		}
		if len(rest) != 0 {
			fail("failed handshake left %d stray bytes on the wire", len(rest))
		}
		return zv.Out{Go: goIf(!hasRaw, "err"), Viol: viol, Tags: tags}
	}
	tags = append(tags, "wire:ok", fmt.Sprintf("wire-records:%d", nrec))
	if mustErr != "" {
		fail("a ClientHello was sent (%s) although the fingerprint is a %s", hx(hello), mustErr)
		return zv.Out{Go: goIf(!hasRaw, "ok "+hx(hello)), Viol: viol, Tags: tags}
	}
	if recWhat != "" {
		fail("%s", recWhat)
	}
	if !bytes.Equal(r.out[:5], []byte{22, 3, 1, r.out[3], r.out[4]}) {
		fail("the first bytes on the wire are %s, not a TLS 1.0 handshake record header", hx(r.out[:5]))
	}
	// ---- wire == configured encoding, byte for byte
	tsOK := true
	if usesTS && len(hello) >= 10 {
		got := be32(hello[6:10])
		tsOK = false
		for t := tBefore; t <= tAfter; t++ {
			if got == uint32(t) {
				tsOK = true
			}
		}
		if !tsOK {
			fail("InsertTimestamp: random on the wire starts with %s, not the low 32 bits of the Unix time (%08x..%08x)", hx(hello[6:10]), uint32(tBefore), uint32(tAfter))
		}
		copy(want[6:10], hello[6:10])
	}
	if !bytes.Equal(hello, want) {
		at := firstDiff(hello, want)
		fail("ClientHello on the wire differs from the configured encoding at offset %d (wire %d bytes, configured %d bytes): wire …%s… configured …%s…", at, len(hello), len(want), snip(hello, at), snip(want, at))
	}
	goOut := "ok " + hx(hello)
	if usesTS && len(hello) >= 10 {
		if tsOK {
			goOut = "ok " + hx(hello[:6]) + "T" + hx(hello[10:])
		} else {
			goOut = "ok " + hx(hello[:6]) + "BAD(" + hx(hello[6:10]) + ")" + hx(hello[10:])
		}
	}
	// ---- the hello the client recorded (handshake log) is the configured one
	wantDump, _ := tls.ZVClientHelloUnmarshal(want)
	if r.log != nil {
		tags = append(tags, "wire-log:client-checked")
		if g, x := logDump(r.log), parserDumpForLog(wantDump); g != x {
			// A user-defined extension producing supported_versions is outside the property (built-in extension types):
			// with it and a session in Config.ClientSessionCache, loadSession copies the session's ticket into the hello
			// STRUCT (not into the bytes sent), which the log then shows. Observed, not judged.
			if userSV && onlyFieldDiffers(g, x, "sessionTicket") {
				tags = append(tags, "obs-user-supported-versions-ticket-log")
			} else {
				fail("the client's handshake log records ClientHello %s; configured: %s", g, x)
			}
		}
	} else if !w.has('P') {
		fail("the client did not record its ClientHello in the handshake log (Handshake: %v)", r.err)
	}
	if w.has('P') {
		if r.serverLog != nil {
			tags = append(tags, "wire-log:server-checked")
			if g, x := logDump(r.serverLog), parserDumpForLog(wantDump); g != x {
				fail("the server read ClientHello %s; configured: %s", g, x)
			}
		}
		if w.handshakeCapable(eff) {
			tags = append(tags, "wire-real:must-complete")
			if r.err != nil || r.serverErr != nil {
				fail("handshake with a real server failed (client: %v, server: %v) although the fingerprint offers everything the server needs", r.err, r.serverErr)
			}
		}
		if r.err == nil && r.serverErr == nil {
			tags = append(tags, "wire-real:completed")
		} else {
			tags = append(tags, "wire-real:failed")
		}
	} else {
		// stub: the canned ServerHelloDone must be refused with an alert, after the hello
		recs, rest := tlsrig.SplitRecords(r.out)
		if len(rest) != 0 || len(recs) != nrec+1 || recs[len(recs)-1][0] != 21 {
			fail("after the ClientHello (%d records) the client wrote %d more records / %d stray bytes; expected exactly one alert", nrec, len(recs)-nrec, len(rest))
		}
		if r.err == nil {
			fail("Handshake returned nil against a peer that answered ServerHelloDone")
		}
	}
	return zv.Out{Go: goIf(!hasRaw, goOut), Viol: viol, Tags: tags}
}

// onlyFieldDiffers: two `name=value;…` dumps differ in exactly this field
func onlyFieldDiffers(a, b, field string) bool {
	x, y := strings.Split(a, ";"), strings.Split(b, ";")
	if len(x) != len(y) {
		return false
	}
	n := 0
	for i := range x {
		if x[i] != y[i] {
			if !strings.HasPrefix(x[i], field+"=") || !strings.HasPrefix(y[i], field+"=") {
				return false
			}
			n++
		}
	}
	return n == 1
}

func goIf(b bool, s string) string {
	if b {
		return s
	}
	return ""
}

func stripAuto(l []extSpec) []extSpec {
	o := make([]extSpec, len(l))
	for i, e := range l {
		e.auto = false
		o[i] = e
	}
	return o
}

// streamReader: endless deterministic byte stream (xorshift64)
type streamReader struct{ x uint64 }

func (s *streamReader) Read(p []byte) (int, error) {
	for i := range p {
		s.x ^= s.x << 13
		s.x ^= s.x >> 7
		s.x ^= s.x << 17
		p[i] = byte(s.x >> 32)
	}
	return len(p), nil
}
