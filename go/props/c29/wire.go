package c29

import "zv/internal/zv"

// Hand-built ClientHellos for the parse stream: every extension type clientHelloMsg.unmarshal knows,
// valid and (bad>0 percent) malformed variants.

func lp8(b []byte) []byte  { return append([]byte{byte(len(b))}, b...) }
func lp16(b []byte) []byte { return append([]byte{byte(len(b) >> 8), byte(len(b))}, b...) }
func w16(x int) []byte     { return []byte{byte(x >> 8), byte(x)} }
func cat(bs ...[]byte) []byte {
	var o []byte
	for _, b := range bs {
		o = append(o, b...)
	}
	return o
}

func u16list(r *zv.Rng, n int) []byte {
	var o []byte
	for i := 0; i < n; i++ {
		o = append(o, w16(r.Intn(65536))...)
	}
	return o
}

const nExtGens = 20

var extTypes = [nExtGens]int{0, 5, 10, 11, 35, 13, 50, 0xff01, 16, 18, 43, 44, 51, 42, 45, 41, 40, 23, -1, 47}

// genWireExt: one extension (type, length, body) of generator k; bad = percent chance of a malformed variant.
// last tells whether it will be the last extension (pre_shared_key).
func genWireExt(r *zv.Rng, k int, bad int, last bool) []byte {
	typ := extTypes[k]
	var body []byte
	b := r.Chance(bad)
	switch typ {
	case 0: // server_name
		entry := func(t byte, name []byte) []byte { return cat([]byte{t}, lp16(name)) }
		list := entry(0, hostname(r, 1+r.Intn(30)))
		if r.Chance(25) || b {
			switch r.Intn(10) {
			case 0:
				list = cat(entry(byte(1+r.Intn(255)), r.Bytes(1+r.Intn(9))), list)
			case 1:
				list = cat(list, entry(byte(1+r.Intn(255)), r.Bytes(1+r.Intn(9))))
			case 2:
				list = cat(list, entry(0, hostname(r, 1+r.Intn(9))))
			case 3:
				list = entry(0, nil)
			case 4:
				list = entry(0, append(hostname(r, 1+r.Intn(9)), '.'))
			case 5:
				list = nil
			case 6:
				list = entry(byte(r.Intn(3)), r.Bytes(1+r.Intn(9)))
			case 7:
				list = cat(entry(1, nil), list)
			case 8:
				list = cat(entry(1, r.Bytes(3)), entry(2, r.Bytes(2)))
			case 9:
				list = list[:len(list)-1]
			}
		}
		body = lp16(list)
	case 5: // status_request
		st := byte(1)
		if r.Chance(20) {
			st = byte(r.Intn(4))
		}
		body = cat([]byte{st}, lp16(r.Bytes(r.Intn(6))), lp16(r.Bytes(r.Intn(6))))
		if b {
			body = body[:r.Intn(len(body))]
		}
	case 10, 13, 50: // supported_groups, signature_algorithms(_cert)
		n := 1 + r.Intn(6)
		l := u16list(r, n)
		if b {
			switch r.Intn(3) {
			case 0:
				l = nil
			case 1:
				l = l[:len(l)-1]
			case 2:
				l = append(l, 7)
			}
		}
		body = lp16(l)
	case 11: // ec_point_formats
		body = lp8(r.Bytes(1 + r.Intn(3)))
		if b {
			body = lp8(nil)
		}
	case 35: // session_ticket
		body = r.Bytes(r.Intn(40))
		if r.Chance(20) {
			body = nil
		}
	case 0xff01:
		body = lp8(r.Bytes(r.Intn(13)))
		if r.Chance(40) {
			body = lp8(nil)
		}
	case 16: // ALPN
		var l []byte
		n := 1 + r.Intn(3)
		for i := 0; i < n; i++ {
			l = append(l, lp8(hostname(r, 1+r.Intn(8)))...)
		}
		if b {
			switch r.Intn(4) {
			case 0:
				l = nil
			case 1:
				l = append(l, 0)
			case 2:
				l = append(l, 5, 1)
			case 3:
				l = cat(lp8(nil), l)
			}
		}
		body = lp16(l)
	case 18, 42, 23: // SCT, early_data, extended_master_secret: presence only, must be empty
		if b {
			body = r.Bytes(1 + r.Intn(3))
		}
	case 43: // supported_versions
		l := u16list(r, 1+r.Intn(4))
		if b {
			switch r.Intn(2) {
			case 0:
				l = nil
			case 1:
				l = l[:len(l)-1]
			}
		}
		body = lp8(l)
	case 44: // cookie
		body = lp16(r.Bytes(1 + r.Intn(20)))
		if b {
			body = lp16(nil)
		}
	case 51: // key_share
		var l []byte
		n := r.Intn(3)
		for i := 0; i < n; i++ {
			l = append(l, cat(w16(r.Intn(65536)), lp16(r.Bytes(1+r.Intn(33))))...)
		}
		if b {
			switch r.Intn(3) {
			case 0:
				l = append(l, cat(w16(29), lp16(nil))...)
			case 1:
				l = append(l, 0, 29, 0)
			case 2:
				l = append(l, 0, 29, 0, 9, 1)
			}
		}
		body = lp16(l)
	case 45: // psk_key_exchange_modes
		body = lp8(r.Bytes(r.Intn(3)))
	case 41: // pre_shared_key
		var ids, binders []byte
		n := 1 + r.Intn(2)
		for i := 0; i < n; i++ {
			ids = append(ids, cat(lp16(r.Bytes(1+r.Intn(12))), r.Bytes(4))...)
			binders = append(binders, lp8(r.Bytes(1+r.Intn(32)))...)
		}
		if b {
			switch r.Intn(6) {
			case 0:
				ids = nil
			case 1:
				binders = nil
			case 2:
				ids = cat(lp16(nil), r.Bytes(4), ids)
			case 3:
				binders = cat(lp8(nil), binders)
			case 4:
				ids = ids[:len(ids)-1]
			case 5:
				binders = append(binders, 3, 1)
			}
		}
		body = cat(lp16(ids), lp16(binders))
	case 40: // extended random
		body = lp16(r.Bytes(1 + r.Intn(32)))
		if b {
			body = lp16(nil)
		}
	case 47: // certificate_authorities: has a constant but no case in the ClientHello parser
		body = r.Bytes(r.Intn(10))
	case -1: // unknown type: ignored whatever the contents
		typ = []int{1, 2, 15, 21, 13172, 17513, 0x0a0a, 65535}[r.Intn(8)]
		body = r.Bytes(r.Intn(12))
	}
	if r.Chance(bad / 4) { // trailing byte inside the extension
		body = append(body, byte(r.U64()))
	}
	_ = last
	return cat(w16(typ), lp16(body))
}

// wrapHello: header fields + the given extensions; bad = percent chance of a framing defect.
func wrapHello(r *zv.Rng, exts [][]byte, bad int) []byte {
	var suites []byte
	n := r.Intn(10)
	for i := 0; i < n; i++ {
		if r.Chance(8) {
			suites = append(suites, 0x00, 0xff)
		} else if r.Chance(5) {
			suites = append(suites, 0xff, 0x00)
		} else {
			suites = append(suites, w16(r.Intn(65536))...)
		}
	}
	if r.Chance(bad / 3) {
		suites = append(suites, 0)
	}
	sid := r.Bytes([]int{0, 0, 32, 32, 1 + r.Intn(40)}[r.Intn(5)])
	body := cat(w16(0x0300+r.Intn(5)), r.Bytes(32), lp8(sid), lp16(suites), lp8(r.Bytes(r.Intn(3))))
	if exts != nil {
		body = cat(body, lp16(cat(exts...)))
	}
	if r.Chance(bad / 3) {
		body = append(body, r.Bytes(1+r.Intn(2))...)
	}
	typ := byte(1)
	if r.Chance(5) {
		typ = byte(r.U64())
	}
	l := len(body)
	if r.Chance(5) {
		l = r.Intn(1 << 24) // the parser skips the length field without looking at it
	}
	return cat([]byte{typ, byte(l >> 16), byte(l >> 8), byte(l)}, body)
}

func buildHello(r *zv.Rng, bad int) []byte {
	if r.Chance(4) {
		return wrapHello(r, nil, bad) // no extension block
	}
	n := r.Intn(8)
	if r.Chance(4) {
		return wrapHello(r, [][]byte{}, bad) // empty extension block
	}
	var exts [][]byte
	usedPSK := false
	for i := 0; i < n; i++ {
		k := r.Intn(nExtGens)
		if extTypes[k] == 41 && (i != n-1 && !r.Chance(10)) {
			k = r.Intn(5) // pre_shared_key mostly only in last position
		}
		if extTypes[k] == 0 && r.Chance(60) {
			// at most one server_name mostly (a second host_name is rejected)
			dup := false
			for _, e := range exts {
				if e[0] == 0 && e[1] == 0 {
					dup = true
				}
			}
			if dup {
				k = 1 + r.Intn(4)
			}
		}
		if extTypes[k] == 41 {
			usedPSK = true
		}
		exts = append(exts, genWireExt(r, k, bad, i == n-1))
	}
	_ = usedPSK
	return wrapHello(r, exts, bad)
}
