// zvharness: runs the real zcrypto code (built from /repo's working tree with
// -tags verif) on generated or replayed cases.
//
//	zvharness run <ID> <tier> <seed> <outdir>
//	zvharness replay <ID> <outdir> <file-with-one-line-per-case>
//	zvharness list
package main

import (
	"bufio"
	"fmt"
	"os"
	"strconv"

	"zv/internal/zv"
	_ "zv/props"
)

func main() {
	if len(os.Args) < 2 {
		fmt.Fprintln(os.Stderr, "usage: zvharness run|replay|list …")
		os.Exit(2)
	}
	switch os.Args[1] {
	case "list":
		for _, id := range zv.IDs() {
			fmt.Println(id)
		}
	case "run":
		p := zv.Lookup(os.Args[2])
		if p == nil {
			fmt.Fprintln(os.Stderr, "unknown property", os.Args[2])
			os.Exit(2)
		}
		seed, _ := strconv.ParseUint(os.Args[4], 10, 64)
		if err := zv.Run(p, os.Args[3], seed, os.Args[5]); err != nil {
			fmt.Fprintln(os.Stderr, err)
			os.Exit(2)
		}
	case "replay":
		p := zv.Lookup(os.Args[2])
		if p == nil {
			fmt.Fprintln(os.Stderr, "unknown property", os.Args[2])
			os.Exit(2)
		}
		f, err := os.Open(os.Args[4])
		if err != nil {
			fmt.Fprintln(os.Stderr, err)
			os.Exit(2)
		}
		var lines []string
		sc := bufio.NewScanner(f)
		sc.Buffer(make([]byte, 1<<20), 1<<28)
		for sc.Scan() {
			if sc.Text() != "" {
				lines = append(lines, sc.Text())
			}
		}
		if err := zv.Replay(p, os.Args[3], lines); err != nil {
			fmt.Fprintln(os.Stderr, err)
			os.Exit(2)
		}
	}
}
