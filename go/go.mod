module zv

require (
	github.com/mreiferson/go-httpclient v0.0.0-20201222173833-5e475fde3a4d
	github.com/op/go-logging v0.0.0-20160315200505-970db520ece7
	github.com/sirupsen/logrus v1.9.4
	github.com/stretchr/testify v1.11.1
	github.com/weppos/publicsuffix-go v0.50.4-0.20260715080728-6ed62ce99a4a
	github.com/zmap/zcertificate v0.0.1
	golang.org/x/crypto v0.54.0
	golang.org/x/net v0.57.0
	gopkg.in/check.v1 v1.0.0-20201130134442-10cb98267c6c
)

require (
	github.com/davecgh/go-spew v1.1.1 // indirect
	github.com/kr/pretty v0.3.1 // indirect
	github.com/kr/text v0.2.0 // indirect
	github.com/pmezard/go-difflib v1.0.0 // indirect
	github.com/rogpeppe/go-internal v1.9.0 // indirect
	golang.org/x/sys v0.47.0 // indirect
	golang.org/x/text v0.40.0 // indirect
	gopkg.in/yaml.v3 v3.0.1 // indirect
)

go 1.25.0

require github.com/zmap/zcrypto v0.0.0

replace github.com/zmap/zcrypto => /repo
