// Package c12 (extractor): T1 facts for C12 —
//   - the offset VerifyWithContext subtracts from NotAfter for the valid-at-expiration chains, read with go/ast from
//     the assignment `expirationTime := c.NotAfter.Add(<duration expression>)` in verifier/verifier.go;
//   - the instant for which Time.IsZero() holds (opts.clean() replaces exactly that VerifyTime by time.Now()),
//     and the epoch of the harness's relative times;
//   - the CertificateType constants with their JSON names (x509/certificate_type.go).
package c12

import (
	"encoding/json"
	"fmt"
	"go/ast"
	"go/parser"
	"go/token"
	"path/filepath"
	"strconv"
	"strings"
	"time"

	"github.com/zmap/zcrypto/x509"

	"zv/internal/zvx"
	"zv/props/c10"
)

var units = map[string]int64{"Nanosecond": 1, "Microsecond": 1e3, "Millisecond": 1e6, "Second": 1e9, "Minute": 60e9, "Hour": 3600e9}

// duration evaluates -X, N * X, X * N, time.<Unit>, integer literals
func duration(e ast.Expr) (int64, error) {
	switch x := e.(type) {
	case *ast.ParenExpr:
		return duration(x.X)
	case *ast.UnaryExpr:
		v, err := duration(x.X)
		if err != nil {
			return 0, err
		}
		switch x.Op {
		case token.SUB:
			return -v, nil
		case token.ADD:
			return v, nil
		}
	case *ast.BinaryExpr:
		a, err := duration(x.X)
		if err != nil {
			return 0, err
		}
		b, err := duration(x.Y)
		if err != nil {
			return 0, err
		}
		switch x.Op {
		case token.MUL:
			return a * b, nil
		case token.ADD:
			return a + b, nil
		case token.SUB:
			return a - b, nil
		}
	case *ast.BasicLit:
		if x.Kind == token.INT {
			return strconv.ParseInt(x.Value, 0, 64)
		}
	case *ast.SelectorExpr:
		if p, ok := x.X.(*ast.Ident); ok && p.Name == "time" {
			if u, ok := units[x.Sel.Name]; ok {
				return u, nil
			}
		}
	}
	return 0, fmt.Errorf("c12 extractor: cannot evaluate the duration expression %T", e)
}

func run(repo string) (string, error) {
	fset := token.NewFileSet()
	f, err := parser.ParseFile(fset, filepath.Join(repo, "verifier", "verifier.go"), nil, 0)
	if err != nil {
		return "", err
	}
	var off int64
	found := 0
	ast.Inspect(f, func(n ast.Node) bool {
		as, ok := n.(*ast.AssignStmt)
		if !ok || len(as.Lhs) != 1 || len(as.Rhs) != 1 {
			return true
		}
		if id, ok := as.Lhs[0].(*ast.Ident); !ok || id.Name != "expirationTime" {
			return true
		}
		call, ok := as.Rhs[0].(*ast.CallExpr)
		if !ok || len(call.Args) != 1 {
			return true
		}
		sel, ok := call.Fun.(*ast.SelectorExpr)
		if !ok || sel.Sel.Name != "Add" {
			return true
		}
		if inner, ok := sel.X.(*ast.SelectorExpr); !ok || inner.Sel.Name != "NotAfter" {
			return true
		}
		v, e := duration(call.Args[0])
		if e != nil {
			err = e
			return false
		}
		off = v
		found++
		return true
	})
	if err != nil {
		return "", err
	}
	if found != 1 {
		return "", fmt.Errorf("c12 extractor: expected exactly one `expirationTime := <cert>.NotAfter.Add(d)` in verifier/verifier.go, found %d", found)
	}
	var b strings.Builder
	b.WriteString("namespace ZV.C12.Gen\n")
	b.WriteString("/-- `d` of `expirationTime := c.NotAfter.Add(d)` in verifier/verifier.go VerifyWithContext, in nanoseconds (go/ast) -/\n")
	fmt.Fprintf(&b, "def expirationOffsetNs : Int := %d\n", off)
	b.WriteString("/-- `time.Second` in nanoseconds -/\n")
	fmt.Fprintf(&b, "def nsPerSec : Int := %d\n", int64(time.Second))
	b.WriteString("/-- `time.Time{}.Unix()`: the instant for which `IsZero()` holds -/\n")
	fmt.Fprintf(&b, "def zeroUnix : Int := %d\n", time.Time{}.Unix())
	b.WriteString("/-- is `time.Unix(zeroUnix, 0)` zero, is `time.Unix(zeroUnix, 1)`, is `time.Unix(zeroUnix + 1, 0)` -/\n")
	fmt.Fprintf(&b, "def zeroProbe : List Bool := [%v, %v, %v]\n", time.Unix(time.Time{}.Unix(), 0).IsZero(), time.Unix(time.Time{}.Unix(), 1).IsZero(), time.Unix(time.Time{}.Unix()+1, 0).IsZero())
	b.WriteString("/-- Unix time of the origin of the harness's relative seconds (go/props/c10 Epoch) -/\n")
	fmt.Fprintf(&b, "def harnessEpoch : Int := %d\n", int64(c10.Epoch))
	b.WriteString("/-- (value, JSON name) of x509.CertificateTypeUnknown / Leaf / Intermediate / Root, in this order -/\n")
	var items []string
	for _, t := range []x509.CertificateType{x509.CertificateTypeUnknown, x509.CertificateTypeLeaf, x509.CertificateTypeIntermediate, x509.CertificateTypeRoot} {
		js, e := json.Marshal(t)
		if e != nil {
			return "", e
		}
		var name string
		if e := json.Unmarshal(js, &name); e != nil {
			return "", e
		}
		items = append(items, fmt.Sprintf("(%d, %s)", int(t), zvx.LeanStr(name)))
	}
	b.WriteString("def certificateTypes : List (Nat × String) := " + zvx.LeanList(items) + "\n")
	b.WriteString("end ZV.C12.Gen\n")
	return b.String(), nil
}

func init() { zvx.Register(zvx.Extractor{Name: "C12", Run: run}) }
