// Package c26 (extractor): T1 facts for property C26 — the label constants, length constants and the
// key-derivation columns of the suite tables (run-time dump through tls/zv_c26_verif.go), and the string
// literals at the call sites of expandLabel / deriveSecret and in the reserved-label switch of
// ekmFromMasterSecret (go/ast over tls/prf.go and tls/key_schedule.go).
package c26

import (
	"fmt"
	"go/ast"
	"go/parser"
	"go/token"
	"path/filepath"
	"sort"
	"strconv"
	"strings"

	"github.com/zmap/zcrypto/tls"

	"zv/internal/zvx"
)

func strLit(e ast.Expr) (string, bool) {
	// "lit"  or  []byte("lit")
	if c, ok := e.(*ast.CallExpr); ok && len(c.Args) == 1 {
		if _, isArr := c.Fun.(*ast.ArrayType); isArr {
			e = c.Args[0]
		}
	}
	if b, ok := e.(*ast.BasicLit); ok && b.Kind == token.STRING {
		s, err := strconv.Unquote(b.Value)
		return s, err == nil
	}
	return "", false
}

func exprString(e ast.Expr) string {
	switch x := e.(type) {
	case *ast.Ident:
		return x.Name
	case *ast.SelectorExpr:
		return exprString(x.X) + "." + x.Sel.Name
	case *ast.BasicLit:
		return x.Value
	}
	return "?"
}

func run(repo string) (string, error) {
	var b strings.Builder
	b.WriteString("namespace ZV.Generated.C26\n\n")

	// run-time dump
	labels := tls.ZVLabels()
	var names []string
	for k := range labels {
		names = append(names, k)
	}
	sort.Strings(names)
	var items []string
	for _, k := range names {
		items = append(items, fmt.Sprintf("(%s, %s)", zvx.LeanStr(k), zvx.LeanStr(labels[k])))
	}
	b.WriteString("/-- label constants of tls/prf.go and tls/key_schedule.go (name, value) -/\n")
	b.WriteString("def labels : List (String × String) := " + zvx.LeanList(items) + "\n\n")

	lens := tls.ZVLengths()
	names = names[:0]
	for k := range lens {
		names = append(names, k)
	}
	sort.Strings(names)
	items = items[:0]
	for _, k := range names {
		items = append(items, fmt.Sprintf("(%s, %d)", zvx.LeanStr(k), lens[k]))
	}
	b.WriteString("/-- length constants read by the key derivation code -/\n")
	b.WriteString("def lengths : List (String × Nat) := " + zvx.LeanList(items) + "\n\n")

	items = items[:0]
	for _, s := range tls.ZVSuites() {
		items = append(items, fmt.Sprintf("(0x%04X, %v)", s.ID, s.SHA384))
	}
	b.WriteString("/-- implementedCipherSuites: (id, flags&suiteSHA384 != 0), in table order -/\n")
	b.WriteString("def suites : List (Nat × Bool) := " + zvx.LeanList(items) + "\n\n")

	items = items[:0]
	for _, s := range tls.ZVSuites() {
		items = append(items, fmt.Sprintf("(0x%04X, %d, %d, %d, %v)", s.ID, s.MacLen, s.KeyLen, s.IVLen, s.SHA384))
	}
	b.WriteString("/-- implementedCipherSuites: (id, macLen, keyLen, ivLen, flags&suiteSHA384 != 0), in table order: the lengths\n")
	b.WriteString("establishKeys passes to keysFromMasterSecret -/\n")
	b.WriteString("def suiteRows : List (Nat × Nat × Nat × Nat × Bool) := " + zvx.LeanList(items) + "\n\n")

	for _, t := range []struct {
		name, doc string
		rows      []tls.ZV26Suite
	}{
		{"tableImplemented", "implementedCipherSuites with the full flags word: the table cipherSuiteByID (hence mutualCipherSuite, the client's hs.suite, the server's suite selection, establishKeys) reads", tls.ZVSuites()},
		{"tableAdvertised", "cipherSuites with the full flags word: the table makeClientHello and the default suite list read (id and flags only)", tls.ZVSuitesAdvertised()},
	} {
		items = items[:0]
		for _, s := range t.rows {
			items = append(items, fmt.Sprintf("(0x%04X, %d, %d, %d, %d)", s.ID, s.MacLen, s.KeyLen, s.IVLen, s.Flags))
		}
		b.WriteString("/-- " + t.doc + ": (id, macLen, keyLen, ivLen, flags), in table order -/\n")
		b.WriteString("def " + t.name + " : List (Nat × Nat × Nat × Nat × Nat) := " + zvx.LeanList(items) + "\n\n")
	}
	b.WriteString(fmt.Sprintf("/-- the suiteSHA384 flag bit -/\ndef suiteSHA384Bit : Nat := %d\n\n", tls.ZVSuiteSHA384Bit()))
	// which table each consumer ranges over (go/ast over tls/*.go): (file, function, table)
	{
		fset := token.NewFileSet()
		var uses []string
		for _, file := range []string{"cipher_suites.go", "common.go", "handshake_client.go", "handshake_server.go"} {
			f, err := parser.ParseFile(fset, filepath.Join(repo, "tls", file), nil, 0)
			if err != nil {
				return "", err
			}
			for _, d := range f.Decls {
				fd, ok := d.(*ast.FuncDecl)
				if !ok || fd.Body == nil {
					continue
				}
				var visit func(n ast.Node) bool
				visit = func(n ast.Node) bool {
					switch x := n.(type) {
					case *ast.SelectorExpr: // hello.cipherSuites, c.cipherSuites(): fields / methods, not the tables
						ast.Inspect(x.X, visit)
						return false
					case *ast.Ident:
						if x.Name == "cipherSuites" || x.Name == "implementedCipherSuites" {
							local := false
							if x.Obj != nil {
								switch x.Obj.Decl.(type) {
								case *ast.AssignStmt, *ast.Field:
									local = true
								}
							}
							if !local {
								uses = append(uses, fmt.Sprintf("(%s, %s, %s)", zvx.LeanStr(file), zvx.LeanStr(fd.Name.Name), zvx.LeanStr(x.Name)))
							}
						}
					case *ast.CallExpr:
						if id, ok := x.Fun.(*ast.Ident); ok && (id.Name == "cipherSuiteByID" || id.Name == "mutualCipherSuite") {
							uses = append(uses, fmt.Sprintf("(%s, %s, %s)", zvx.LeanStr(file), zvx.LeanStr(fd.Name.Name), zvx.LeanStr("call:"+id.Name)))
						}
					}
					return true
				}
				ast.Inspect(fd.Body, visit)
			}
		}
		b.WriteString("/-- every read of the two TLS <= 1.2 suite tables and every call of the lookup functions in cipher_suites.go, common.go,\n")
		b.WriteString("handshake_client.go, handshake_server.go (file, function, table | call:function), in source order -/\n")
		b.WriteString("def suiteTableUses : List (String × String × String) := " + zvx.LeanList(uses) + "\n\n")
	}

	items = items[:0]
	for _, s := range tls.ZVSuites13() {
		hn := map[string]string{"SHA-256": "sha256", "SHA-384": "sha384", "SHA-512": "sha512"}[s.Hash.String()]
		if hn == "" {
			hn = s.Hash.String()
		}
		items = append(items, fmt.Sprintf("(0x%04X, %d, %s)", s.ID, s.KeyLen, zvx.LeanStr(hn)))
	}
	b.WriteString("/-- cipherSuitesTLS13: (id, keyLen, hash), in table order -/\n")
	b.WriteString("def suites13 : List (Nat × Nat × String) := " + zvx.LeanList(items) + "\n\n")

	// syntactic facts
	fset := token.NewFileSet()
	consts := map[string]string{}
	var calls, prefix, reserved, prfLabels, schedCalls, keysCalls []string
	for _, file := range []string{"prf.go", "key_schedule.go", "handshake_client.go", "handshake_client_tls13.go", "handshake_server.go", "handshake_server_tls13.go", "conn.go"} {
		lib := file == "prf.go" || file == "key_schedule.go"
		f, err := parser.ParseFile(fset, filepath.Join(repo, "tls", file), nil, 0)
		if err != nil {
			return "", err
		}
		for _, d := range f.Decls {
			if gd, ok := d.(*ast.GenDecl); ok && (gd.Tok == token.CONST || gd.Tok == token.VAR) {
				for _, sp := range gd.Specs {
					vs := sp.(*ast.ValueSpec)
					for i, n := range vs.Names {
						if i < len(vs.Values) {
							if s, ok := strLit(vs.Values[i]); ok {
								consts[n.Name] = s
							}
						}
					}
				}
			}
		}
		for _, d := range f.Decls {
			fd, ok := d.(*ast.FuncDecl)
			if !ok || fd.Body == nil {
				continue
			}
			ast.Inspect(fd.Body, func(n ast.Node) bool {
				if !lib {
					// the handshake code: which label / length arguments it passes to the key-derivation functions
					x, ok := n.(*ast.CallExpr)
					if !ok {
						return true
					}
					name := ""
					switch fn := x.Fun.(type) {
					case *ast.SelectorExpr:
						name = fn.Sel.Name
					case *ast.Ident:
						name = fn.Name
					}
					switch name {
					case "deriveSecret", "expandLabel":
						if len(x.Args) >= 2 {
							arg := "<non-constant>"
							if s, ok := strLit(x.Args[1]); ok {
								arg = s
							} else if id, ok := x.Args[1].(*ast.Ident); ok {
								if v, ok := consts[id.Name]; ok {
									arg = v
								}
							}
							schedCalls = append(schedCalls, fmt.Sprintf("(%s, %s, %s, %s)", zvx.LeanStr(file), zvx.LeanStr(fd.Name.Name), zvx.LeanStr(name), zvx.LeanStr(arg)))
						}
					case "nextTrafficSecret", "exportKeyingMaterial", "finishedHash", "extract":
						if _, isSel := x.Fun.(*ast.SelectorExpr); isSel && file != "handshake_client.go" || name == "extract" || name == "finishedHash" {
							if file == "handshake_client.go" && fd.Name.Name != "loadSession" {
								return true
							}
							schedCalls = append(schedCalls, fmt.Sprintf("(%s, %s, %s, %s)", zvx.LeanStr(file), zvx.LeanStr(fd.Name.Name), zvx.LeanStr(name), zvx.LeanStr("-")))
						}
					case "keysFromMasterSecret":
						// keysFromMasterSecret(vers, suite, master, clientRandom, serverRandom, suite.macLen, suite.keyLen, suite.ivLen)
						var parts []string
						for _, a := range x.Args {
							parts = append(parts, exprString(a))
						}
						keysCalls = append(keysCalls, fmt.Sprintf("(%s, %s, %s)", zvx.LeanStr(file), zvx.LeanStr(fd.Name.Name), zvx.LeanStr(strings.Join(parts, ","))))
					case "masterFromPreMasterSecret":
						var parts []string
						for _, a := range x.Args {
							parts = append(parts, exprString(a))
						}
						keysCalls = append(keysCalls, fmt.Sprintf("(%s, %s, %s)", zvx.LeanStr(file), zvx.LeanStr(fd.Name.Name), zvx.LeanStr("master:"+strings.Join(parts, ","))))
					}
					return true
				}
				switch x := n.(type) {
				case *ast.CallExpr:
					// prfForVersion(version, suite)(out, secret, <label>, seed)
					if inner, ok := x.Fun.(*ast.CallExpr); ok && len(x.Args) == 4 {
						if id, ok := inner.Fun.(*ast.Ident); ok && id.Name == "prfForVersion" {
							if lid, ok := x.Args[2].(*ast.Ident); ok {
								prfLabels = append(prfLabels, fmt.Sprintf("(%s, %s)", zvx.LeanStr(fd.Name.Name), zvx.LeanStr(consts[lid.Name])))
							}
						}
					}
					sel, ok := x.Fun.(*ast.SelectorExpr)
					if !ok {
						return true
					}
					switch sel.Sel.Name {
					case "expandLabel", "deriveSecret":
						if len(x.Args) >= 2 && fd.Name.Name != sel.Sel.Name || fd.Name.Name == "deriveSecret" && sel.Sel.Name == "expandLabel" {
							arg := "<non-constant>"
							if s, ok := strLit(x.Args[1]); ok {
								arg = s
							} else if id, ok := x.Args[1].(*ast.Ident); ok {
								if v, ok := consts[id.Name]; ok {
									arg = v
								} else {
									arg = "<" + id.Name + ">"
								}
							}
							calls = append(calls, fmt.Sprintf("(%s, %s, %s)", zvx.LeanStr(fd.Name.Name), zvx.LeanStr(sel.Sel.Name), zvx.LeanStr(arg)))
						}
					case "AddBytes":
						if fd.Name.Name == "expandLabel" && len(x.Args) == 1 {
							if s, ok := strLit(x.Args[0]); ok {
								prefix = append(prefix, zvx.LeanStr(s))
							}
						}
					case "prf":
						// h.prf(out, masterSecret, <label>, h.Sum()) in clientSum / serverSum
						if len(x.Args) == 4 {
							if id, ok := x.Args[2].(*ast.Ident); ok {
								prfLabels = append(prfLabels, fmt.Sprintf("(%s, %s)", zvx.LeanStr(fd.Name.Name), zvx.LeanStr(consts[id.Name])))
							}
						}
					}
				case *ast.CaseClause:
					if fd.Name.Name == "ekmFromMasterSecret" {
						for _, e := range x.List {
							if s, ok := strLit(e); ok {
								reserved = append(reserved, zvx.LeanStr(s))
							}
						}
					}
				}
				return true
			})
		}
	}
	b.WriteString("/-- call sites (enclosing function, callee, label argument) of expandLabel / deriveSecret in tls/key_schedule.go -/\n")
	b.WriteString("def labelCalls : List (String × String × String) := " + zvx.LeanList(calls) + "\n\n")
	b.WriteString("/-- string literals added to the HkdfLabel builder in expandLabel -/\n")
	b.WriteString("def hkdfLabelPrefix : List String := " + zvx.LeanList(prefix) + "\n\n")
	b.WriteString("/-- labels refused by the switch in ekmFromMasterSecret -/\n")
	b.WriteString("def ekmReserved : List String := " + zvx.LeanList(reserved) + "\n\n")
	b.WriteString("/-- (function, label constant's value) for the PRF calls with a named label in tls/prf.go -/\n")
	b.WriteString("def prfLabelUses : List (String × String) := " + zvx.LeanList(prfLabels) + "\n\n")
	b.WriteString("/-- the TLS 1.3 key schedule as the handshake code wires it: every call of deriveSecret / expandLabel (with its label\n")
	b.WriteString("literal) / extract / finishedHash / nextTrafficSecret / exportKeyingMaterial in the handshake files, in source order\n")
	b.WriteString("(file, enclosing function, callee, label) -/\n")
	b.WriteString("def scheduleCalls : List (String × String × String × String) := " + zvx.LeanList(schedCalls) + "\n\n")
	b.WriteString("/-- the argument lists of the keysFromMasterSecret / masterFromPreMasterSecret calls of the handshake code (source text) -/\n")
	b.WriteString("def keyCalls : List (String × String × String) := " + zvx.LeanList(keysCalls) + "\n\n")
	b.WriteString("end ZV.Generated.C26\n")
	return b.String(), nil
}

func init() { zvx.Register(zvx.Extractor{Name: "C26", Run: run}) }
