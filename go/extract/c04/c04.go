// Package c04: T1 extractor — the two EKU tables of x509 (run-time dump through the verif hook).
package c04

import (
	"fmt"
	"sort"
	"strings"

	"github.com/zmap/zcrypto/x509"

	"zv/internal/zvx"
)

func oidLit(o []int) string {
	var p []string
	for _, a := range o {
		p = append(p, fmt.Sprint(a))
	}
	return "[" + strings.Join(p, ", ") + "]"
}

func run(repo string) (string, error) {
	var b strings.Builder
	b.WriteString("namespace ZV.Generated.C04\n\n")
	b.WriteString("/-- `nativeExtKeyUsageOIDs` (x509/x509.go): ExtKeyUsage constant ↦ OID, in table order. -/\n")
	ekus, oids := x509.ZVNativeEKU()
	var items []string
	for i := range ekus {
		items = append(items, fmt.Sprintf("(%d, %s)", ekus[i], oidLit(oids[i])))
	}
	b.WriteString("def nativeEku : List (Nat × List Nat) := " + zvx.LeanList(items) + "\n\n")
	b.WriteString("/-- `ekuConstants` (x509/extended_key_usage.go): OID ↦ ExtKeyUsage constant, sorted by OID string. -/\n")
	m := x509.ZVEKUConstants()
	var keys []string
	for k := range m {
		keys = append(keys, k)
	}
	sort.Strings(keys)
	items = nil
	for _, k := range keys {
		var o []int
		for _, p := range strings.Split(k, ".") {
			var n int
			fmt.Sscan(p, &n)
			o = append(o, n)
		}
		items = append(items, fmt.Sprintf("(%s, %d)", oidLit(o), m[k]))
	}
	b.WriteString("def ekuConstants : List (List Nat × Nat) := " + zvx.LeanList(items) + "\n\n")
	b.WriteString("end ZV.Generated.C04\n")
	return b.String(), nil
}

func init() { zvx.Register(zvx.Extractor{Name: "C04", Run: run}) }
