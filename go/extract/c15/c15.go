// Package c15 (extractor): T1 facts for C15 — the constants the container parsers of x509/revocation/{google,microsoft}
// are written with (read from the working tree's source by go/ast: struct field widths of the CRLSet raw entry, the
// header-length width, the SST magic / version / element ids / encoding type) and the alphabet and padding of
// base64.StdEncoding (dumped at run time), which the OneCRL field decoder is modelled with.
package c15

import (
	"encoding/base64"
	"fmt"
	"go/ast"
	"go/parser"
	"go/token"
	"path/filepath"
	"strconv"
	"strings"

	"zv/internal/zvx"
)

var widths = map[string]int{"uint8": 1, "byte": 1, "uint16": 2, "uint32": 4, "uint64": 8}

func fieldType(f *ast.File, typ, field string) ast.Expr {
	var out ast.Expr
	ast.Inspect(f, func(n ast.Node) bool {
		ts, ok := n.(*ast.TypeSpec)
		if !ok || ts.Name.Name != typ {
			return true
		}
		if st, ok := ts.Type.(*ast.StructType); ok {
			for _, fl := range st.Fields.List {
				for _, nm := range fl.Names {
					if nm.Name == field {
						out = fl.Type
					}
				}
			}
		}
		return false
	})
	return out
}

func funcDecl(f *ast.File, name string) *ast.FuncDecl {
	for _, d := range f.Decls {
		if fd, ok := d.(*ast.FuncDecl); ok && fd.Name.Name == name && fd.Recv == nil {
			return fd
		}
	}
	return nil
}

// the integer literal N of `uint32(N)` or a bare `N`
func intOf(e ast.Expr) (int, bool) {
	if c, ok := e.(*ast.CallExpr); ok && len(c.Args) == 1 {
		e = c.Args[0]
	}
	if l, ok := e.(*ast.BasicLit); ok && l.Kind == token.INT {
		n, err := strconv.ParseInt(l.Value, 0, 64)
		return int(n), err == nil
	}
	return 0, false
}

func exprName(e ast.Expr) string {
	switch x := e.(type) {
	case *ast.Ident:
		return x.Name
	case *ast.SelectorExpr:
		return exprName(x.X) + "." + x.Sel.Name
	}
	return ""
}

func run(repo string) (string, error) {
	fset := token.NewFileSet()
	gf, err := parser.ParseFile(fset, filepath.Join(repo, "x509/revocation/google/google.go"), nil, 0)
	if err != nil {
		return "", err
	}
	mf, err := parser.ParseFile(fset, filepath.Join(repo, "x509/revocation/microsoft/microsoft.go"), nil, 0)
	if err != nil {
		return "", err
	}
	var b strings.Builder
	b.WriteString("import ZV.Base\n/-! Constants of x509/revocation/{google,microsoft} and of base64.StdEncoding used by the C15 model. -/\nnamespace ZV.C15.Gen\n")

	// google: RawEntry.SPKIHash [N]byte, RawEntry.NumSerials, RawCRLSetSerial.Len, getHeader's Uint16
	arr, ok := fieldType(gf, "RawEntry", "SPKIHash").(*ast.ArrayType)
	if !ok || arr.Len == nil {
		return "", fmt.Errorf("google.RawEntry.SPKIHash is not a fixed-size array")
	}
	n, ok := intOf(arr.Len)
	if !ok {
		return "", fmt.Errorf("google.RawEntry.SPKIHash length is not a literal")
	}
	fmt.Fprintf(&b, "/-- `RawEntry.SPKIHash [N]byte` -/\ndef spkiHashLen : Nat := %d\n", n)
	for _, x := range [][3]string{{"RawEntry", "NumSerials", "numSerialsWidth"}, {"RawCRLSetSerial", "Len", "serialLenWidth"}} {
		w, ok := widths[exprName(fieldType(gf, x[0], x[1]))]
		if !ok {
			return "", fmt.Errorf("google.%s.%s: unknown integer type", x[0], x[1])
		}
		fmt.Fprintf(&b, "/-- byte width of `%s.%s` (read with binary.Read, little endian) -/\ndef %s : Nat := %d\n", x[0], x[1], x[2], w)
	}
	hw := 0
	ast.Inspect(funcDecl(gf, "getHeader"), func(n ast.Node) bool {
		if c, ok := n.(*ast.CallExpr); ok {
			switch exprName(c.Fun) {
			case "binary.LittleEndian.Uint16":
				hw = 2
			case "binary.LittleEndian.Uint32":
				hw = 4
			case "binary.BigEndian.Uint16", "binary.BigEndian.Uint32":
				hw = -1
			}
		}
		return true
	})
	if hw <= 0 {
		return "", fmt.Errorf("google.getHeader: header length is not read with binary.LittleEndian.UintNN")
	}
	fmt.Fprintf(&b, "/-- byte width of the little-endian JSON-header length read by `getHeader` -/\ndef headerLenWidth : Nat := %d\n", hw)

	// microsoft.parse: []byte("CERT"), certStore.Version != V, id == uint32(0) / uint32(32), format != uint32(1)
	magic, version := "", -1
	var idEq []int
	format := -1
	ast.Inspect(funcDecl(mf, "parse"), func(n ast.Node) bool {
		switch x := n.(type) {
		case *ast.CallExpr:
			if at, ok := x.Fun.(*ast.ArrayType); ok && at.Len == nil && exprName(at.Elt) == "byte" && len(x.Args) == 1 {
				if l, ok := x.Args[0].(*ast.BasicLit); ok && l.Kind == token.STRING {
					magic, _ = strconv.Unquote(l.Value)
				}
			}
		case *ast.BinaryExpr:
			v, ok := intOf(x.Y)
			if !ok {
				return true
			}
			switch {
			case exprName(x.X) == "certStore.Version" && x.Op == token.NEQ:
				version = v
			case exprName(x.X) == "id" && x.Op == token.EQL:
				idEq = append(idEq, v)
			case exprName(x.X) == "format" && x.Op == token.NEQ:
				format = v
			}
		}
		return true
	})
	if magic == "" || version < 0 || len(idEq) != 2 || format < 0 {
		return "", fmt.Errorf("microsoft.parse: expected magic / version / two id comparisons / format comparison, got %q %d %v %d", magic, version, idEq, format)
	}
	var mb []string
	for _, c := range []byte(magic) {
		mb = append(mb, fmt.Sprintf("%d", c))
	}
	fmt.Fprintf(&b, "/-- the magic `parse` compares with (`[]byte(%q)`) -/\ndef sstMagic : List UInt8 := [%s]\n", magic, strings.Join(mb, ", "))
	fmt.Fprintf(&b, "/-- `certStore.Version != V` -/\ndef sstVersion : Nat := %d\n", version)
	fmt.Fprintf(&b, "/-- first `id == uint32(N)` of the element loop: the end marker -/\ndef sstEndId : Nat := %d\n", idEq[0])
	fmt.Fprintf(&b, "/-- second `id == uint32(N)`: SerializedCertificateEntry -/\ndef sstCertId : Nat := %d\n", idEq[1])
	fmt.Fprintf(&b, "/-- `format != uint32(N)`: the ASN.1 encoding type -/\ndef sstAsn1Format : Nat := %d\n", format)

	// base64.StdEncoding: alphabet in value order (encode the 64 sextets 0..63) and the padding character
	var bits []byte
	acc, nb := 0, 0
	for v := 0; v < 64; v++ {
		acc = acc<<6 | v
		nb += 6
		for nb >= 8 {
			bits = append(bits, byte(acc>>(nb-8)))
			nb -= 8
		}
	}
	alpha := base64.StdEncoding.EncodeToString(bits)
	var ab []string
	for _, c := range []byte(alpha) {
		ab = append(ab, fmt.Sprintf("%d", c))
	}
	fmt.Fprintf(&b, "/-- alphabet of base64.StdEncoding, by 6-bit value -/\ndef b64Alphabet : List UInt8 := [%s]\n", strings.Join(ab, ", "))
	pad := base64.StdEncoding.EncodeToString([]byte{0})
	fmt.Fprintf(&b, "/-- padding character of base64.StdEncoding -/\ndef b64Pad : UInt8 := %d\n", pad[len(pad)-1])
	b.WriteString("end ZV.C15.Gen\n")
	return b.String(), nil
}

func init() { zvx.Register(zvx.Extractor{Name: "C15", Run: run}) }
