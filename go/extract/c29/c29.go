// Package c29 (extractor): T1 — dumps the tables consulted by the fingerprint ClientHello encoder
// (SupportedCurvesExtension / SignatureAlgorithmExtension CheckImplemented, the cipher-suite check of
// (*ClientFingerprintConfiguration).marshal) from the working tree through the verif hook ZVC29Tables.
package c29

import (
	"fmt"
	"strings"

	"github.com/zmap/zcrypto/tls"

	"zv/internal/zvx"
)

func natList(l []uint16) string {
	var s []string
	for _, x := range l {
		s = append(s, fmt.Sprintf("%d", x))
	}
	return "[" + strings.Join(s, ", ") + "]"
}

func run(repo string) (string, error) {
	curves, sigs, suites := tls.ZVC29Tables()
	var b strings.Builder
	b.WriteString("/-! Tables of tls/common.go and tls/cipher_suites.go used by the C29 model. -/\n")
	b.WriteString("namespace ZV.C29.Gen\n")
	b.WriteString("/-- `defaultCurvePreferences` (CurveID values, table order) -/\n")
	b.WriteString("def curvePrefs : List Nat := " + natList(curves) + "\n")
	b.WriteString("/-- `supportedSKXSignatureAlgorithms` as `hash <<< 8 ||| signature`, table order -/\n")
	b.WriteString("def skxSigAlgs : List Nat := " + natList(sigs) + "\n")
	b.WriteString("/-- ids of `implementedCipherSuites`, table order -/\n")
	b.WriteString("def implementedSuites : List Nat := " + natList(suites) + "\n")
	b.WriteString("end ZV.C29.Gen\n")
	return b.String(), nil
}

func init() { zvx.Register(zvx.Extractor{Name: "C29", Run: run}) }
