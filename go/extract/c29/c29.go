// Package c29 (extractor): T1 — dumps the tables consulted by the fingerprint ClientHello encoder
// (SupportedCurvesExtension / SignatureAlgorithmExtension CheckImplemented, the cipher-suite check of
// (*ClientFingerprintConfiguration).marshal) from the working tree through the verif hook ZVC29Tables.
package c29

import (
	"fmt"
	"go/ast"
	"go/parser"
	"go/token"
	"os"
	"path/filepath"
	"sort"
	"strconv"
	"strings"

	"github.com/zmap/zcrypto/tls"

	"zv/internal/zvx"
)

func natList(l []uint16) string {
	var s []string
	for _, x := range l {
		s = append(s, fmt.Sprintf("%d", x))
	}
	return "[" + strings.Join(s, ", ") + "]"
}

func run(repo string) (string, error) {
	curves, sigs, suites := tls.ZVC29Tables()
	var b strings.Builder
	b.WriteString("/-! Tables of tls/common.go and tls/cipher_suites.go used by the C29 model. -/\n")
	b.WriteString("namespace ZV.C29.Gen\n")
	b.WriteString("/-- `defaultCurvePreferences` (CurveID values, table order) -/\n")
	b.WriteString("def curvePrefs : List Nat := " + natList(curves) + "\n")
	b.WriteString("/-- `supportedSKXSignatureAlgorithms` as `hash <<< 8 ||| signature`, table order -/\n")
	b.WriteString("def skxSigAlgs : List Nat := " + natList(sigs) + "\n")
	b.WriteString("/-- ids of `implementedCipherSuites`, table order -/\n")
	b.WriteString("def implementedSuites : List Nat := " + natList(suites) + "\n")
	if err := astFacts(repo, &b); err != nil {
		return "", err
	}
	b.WriteString("end ZV.C29.Gen\n")
	return b.String(), nil
}

// exprStr renders a (simple) type expression as Go source.
func exprStr(e ast.Expr) string {
	switch t := e.(type) {
	case *ast.Ident:
		return t.Name
	case *ast.StarExpr:
		return "*" + exprStr(t.X)
	case *ast.ArrayType:
		if t.Len == nil {
			return "[]" + exprStr(t.Elt)
		}
		return "[...]" + exprStr(t.Elt)
	case *ast.SelectorExpr:
		return exprStr(t.X) + "." + t.Sel.Name
	}
	return fmt.Sprintf("%T", e)
}

// astFacts (go/ast over tls/*.go of the working tree, test and verif-hook files excluded):
//   - extensionTypes: every type of package tls whose method set (pointer or value receiver) has the three methods
//     of the ClientExtension interface (Marshal, CheckImplemented, WriteToConfig), in source order, each with its
//     struct fields "Name type" — a new built-in extension type or a new field changes this list and the theorem
//     `extension_types_accounted` fails until the model follows;
//   - clientExtensionMethods: the method names of the ClientExtension interface itself;
//   - extConsts: the integer constants `extension*` and `pointFormatUncompressed` of tls/common.go;
//   - supportedVersions: the table of tls/common.go (elements resolved through the package constants).
func astFacts(repo string, b *strings.Builder) error {
	dir := filepath.Join(repo, "tls")
	ents, err := os.ReadDir(dir)
	if err != nil {
		return err
	}
	fset := token.NewFileSet()
	type tinfo struct {
		file   string
		pos    token.Pos
		fields []string
		isStr  bool
	}
	types := map[string]*tinfo{}
	methods := map[string]map[string]bool{}
	consts := map[string]int64{}
	var constOrder []string
	var ifaceMethods []string
	var supVers []string
	for _, e := range ents {
		n := e.Name()
		if !strings.HasSuffix(n, ".go") || strings.HasSuffix(n, "_test.go") || strings.HasSuffix(n, "_verif.go") {
			continue
		}
		f, err := parser.ParseFile(fset, filepath.Join(dir, n), nil, 0)
		if err != nil {
			return err
		}
		for _, d := range f.Decls {
			switch d := d.(type) {
			case *ast.FuncDecl:
				if d.Recv == nil || len(d.Recv.List) != 1 {
					continue
				}
				rt := d.Recv.List[0].Type
				if s, ok := rt.(*ast.StarExpr); ok {
					rt = s.X
				}
				if id, ok := rt.(*ast.Ident); ok {
					if methods[id.Name] == nil {
						methods[id.Name] = map[string]bool{}
					}
					methods[id.Name][d.Name.Name] = true
				}
			case *ast.GenDecl:
				for _, sp := range d.Specs {
					switch sp := sp.(type) {
					case *ast.TypeSpec:
						ti := &tinfo{file: n, pos: sp.Pos()}
						if st, ok := sp.Type.(*ast.StructType); ok {
							ti.isStr = true
							for _, fl := range st.Fields.List {
								for _, nm := range fl.Names {
									ti.fields = append(ti.fields, nm.Name+" "+exprStr(fl.Type))
								}
								if len(fl.Names) == 0 {
									ti.fields = append(ti.fields, "(embedded) "+exprStr(fl.Type))
								}
							}
						}
						if it, ok := sp.Type.(*ast.InterfaceType); ok && sp.Name.Name == "ClientExtension" {
							for _, m := range it.Methods.List {
								for _, nm := range m.Names {
									ifaceMethods = append(ifaceMethods, nm.Name)
								}
							}
						}
						types[sp.Name.Name] = ti
					case *ast.ValueSpec:
						for i, nm := range sp.Names {
							if i < len(sp.Values) {
								if lit, ok := sp.Values[i].(*ast.BasicLit); ok && lit.Kind == token.INT && d.Tok == token.CONST {
									if v, err := strconv.ParseInt(lit.Value, 0, 64); err == nil {
										consts[nm.Name] = v
										constOrder = append(constOrder, nm.Name)
									}
								}
								if nm.Name == "supportedVersions" && d.Tok == token.VAR {
									if cl, ok := sp.Values[i].(*ast.CompositeLit); ok {
										for _, el := range cl.Elts {
											supVers = append(supVers, exprStr(el))
										}
									}
								}
							}
						}
					}
				}
			}
		}
	}
	sort.Strings(ifaceMethods)
	if len(ifaceMethods) == 0 {
		return fmt.Errorf("c29 extractor: interface ClientExtension not found")
	}
	var names []string
	for name, ms := range methods {
		all := true
		for _, m := range ifaceMethods {
			if !ms[m] {
				all = false
			}
		}
		if all && types[name] != nil {
			names = append(names, name)
		}
	}
	sort.Slice(names, func(i, j int) bool {
		a, c := types[names[i]], types[names[j]]
		if a.file != c.file {
			return a.file < c.file
		}
		return a.pos < c.pos
	})
	var items, ims []string
	for _, n := range names {
		var fs []string
		for _, f := range types[n].fields {
			fs = append(fs, zvx.LeanStr(f))
		}
		items = append(items, "("+zvx.LeanStr(types[n].file+":"+n)+", ["+strings.Join(fs, ", ")+"])")
	}
	for _, m := range ifaceMethods {
		ims = append(ims, zvx.LeanStr(m))
	}
	b.WriteString("/-- methods of `interface ClientExtension` (tls/handshake_client.go), sorted -/\n")
	b.WriteString("def clientExtensionMethods : List String := [" + strings.Join(ims, ", ") + "]\n")
	b.WriteString("/-- go/ast: every type of package tls implementing ClientExtension (`file:Type`, struct fields), source order -/\n")
	b.WriteString("def extensionTypes : List (String × List String) := " + zvx.LeanList(items) + "\n")
	var cs []string
	for _, n := range constOrder {
		if strings.HasPrefix(n, "extension") || n == "pointFormatUncompressed" {
			cs = append(cs, "("+zvx.LeanStr(n)+", "+strconv.FormatInt(consts[n], 10)+")")
		}
	}
	b.WriteString("/-- go/ast: integer constants `extension*` / `pointFormatUncompressed` of package tls, source order -/\n")
	b.WriteString("def extConsts : List (String × Nat) := " + zvx.LeanList(cs) + "\n")
	var sv []string
	for _, e := range supVers {
		v, ok := consts[e]
		if !ok {
			return fmt.Errorf("c29 extractor: supportedVersions element %s is not an integer constant", e)
		}
		sv = append(sv, strconv.FormatInt(v, 10))
	}
	b.WriteString("/-- go/ast: `supportedVersions` of tls/common.go, table order -/\n")
	b.WriteString("def supportedVersions : List Nat := [" + strings.Join(sv, ", ") + "]\n")
	return nil
}

func init() { zvx.Register(zvx.Extractor{Name: "C29", Run: run}) }
