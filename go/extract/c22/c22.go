// Package c22 (extractor): T1 facts for C22, read syntactically (go/ast) from x509/pkix/pkix.go of the tree under test:
//   - the string fields of struct Name,
//   - the attribute-type dispatch of FillFromRDNSequence (prefix guard, `switch t[3]` arms, `else if t.Equal(oidX)` chain),
//   - the statement sequence of ToRDNSequence (OriginalRDNS short-cut, appendRDNs calls in order, guards, ExtraNames loop),
//
// with every oidX resolved through the package-level `var ( oidX = []int{…} )` block.
package c22

import (
	"bytes"
	"fmt"
	"go/ast"
	"go/parser"
	"go/printer"
	"go/token"
	"path/filepath"
	"strconv"
	"strings"

	"zv/internal/zvx"
)

type ex struct {
	fset *token.FileSet
	oids map[string][]int
}

func (e *ex) src(n ast.Node) string {
	var b bytes.Buffer
	printer.Fprint(&b, e.fset, n)
	s := strings.Join(strings.Fields(b.String()), " ")
	if len(s) > 120 {
		s = s[:120]
	}
	return s
}

func natList(l []int) string {
	ss := make([]string, len(l))
	for i, k := range l {
		ss[i] = strconv.Itoa(k)
	}
	return "[" + strings.Join(ss, ", ") + "]"
}

func strList(l []string) string {
	ss := make([]string, len(l))
	for i, k := range l {
		ss[i] = zvx.LeanStr(k)
	}
	return "[" + strings.Join(ss, ", ") + "]"
}

// n.X  ->  "X"
func selOf(x ast.Expr, recv string) (string, bool) {
	s, ok := x.(*ast.SelectorExpr)
	if !ok {
		return "", false
	}
	id, ok := s.X.(*ast.Ident)
	if !ok || id.Name != recv {
		return "", false
	}
	return s.Sel.Name, true
}

func intLit(x ast.Expr) (int, bool) {
	b, ok := x.(*ast.BasicLit)
	if !ok || b.Kind != token.INT {
		return 0, false
	}
	k, err := strconv.Atoi(b.Value)
	return k, err == nil
}

// one statement of an arm: `n.X = value` -> "=X", `n.X = append(n.X, value)` -> "+X"
func (e *ex) act(s ast.Stmt) string {
	a, ok := s.(*ast.AssignStmt)
	if ok && a.Tok == token.ASSIGN && len(a.Lhs) == 1 && len(a.Rhs) == 1 {
		if f, ok := selOf(a.Lhs[0], "n"); ok {
			if id, ok := a.Rhs[0].(*ast.Ident); ok && id.Name == "value" {
				return "=" + f
			}
			if c, ok := a.Rhs[0].(*ast.CallExpr); ok && len(c.Args) == 2 {
				fn, ok1 := c.Fun.(*ast.Ident)
				g, ok2 := selOf(c.Args[0], "n")
				v, ok3 := c.Args[1].(*ast.Ident)
				if ok1 && ok2 && ok3 && fn.Name == "append" && g == f && v.Name == "value" {
					return "+" + f
				}
			}
		}
	}
	return "?" + e.src(s)
}

func (e *ex) acts(l []ast.Stmt) string {
	var ss []string
	for _, s := range l {
		ss = append(ss, e.act(s))
	}
	return strList(ss)
}

func conjuncts(x ast.Expr) []ast.Expr {
	if b, ok := x.(*ast.BinaryExpr); ok && b.Op == token.LAND {
		return append(conjuncts(b.X), conjuncts(b.Y)...)
	}
	if p, ok := x.(*ast.ParenExpr); ok {
		return conjuncts(p.X)
	}
	return []ast.Expr{x}
}

func (e *ex) fill(fn *ast.FuncDecl, out *strings.Builder) error {
	// the if statement whose body is the `switch t[3]`
	var top *ast.IfStmt
	ast.Inspect(fn.Body, func(n ast.Node) bool {
		if i, ok := n.(*ast.IfStmt); ok && top == nil {
			for _, s := range i.Body.List {
				if _, ok := s.(*ast.SwitchStmt); ok {
					top = i
				}
			}
		}
		return top == nil
	})
	if top == nil {
		return fmt.Errorf("FillFromRDNSequence: no `if … { switch … }` found")
	}
	if len(top.Body.List) != 1 {
		return fmt.Errorf("FillFromRDNSequence: the prefix branch has %d statements, expected the switch only", len(top.Body.List))
	}
	plen := -1
	prefix := map[int]int{}
	var other []string
	for _, c := range conjuncts(top.Cond) {
		b, ok := c.(*ast.BinaryExpr)
		if ok && b.Op == token.EQL {
			if k, ok := intLit(b.Y); ok {
				if call, ok := b.X.(*ast.CallExpr); ok {
					if fn, ok := call.Fun.(*ast.Ident); ok && fn.Name == "len" && len(call.Args) == 1 {
						if id, ok := call.Args[0].(*ast.Ident); ok && id.Name == "t" {
							plen = k
							continue
						}
					}
				}
				if ix, ok := b.X.(*ast.IndexExpr); ok {
					if id, ok := ix.X.(*ast.Ident); ok && id.Name == "t" {
						if i, ok := intLit(ix.Index); ok {
							prefix[i] = k
							continue
						}
					}
				}
			}
		}
		other = append(other, e.src(c))
	}
	var pre []int
	for i := 0; i < len(prefix); i++ {
		v, ok := prefix[i]
		if !ok {
			return fmt.Errorf("FillFromRDNSequence: prefix guard does not test t[%d]", i)
		}
		pre = append(pre, v)
	}
	fmt.Fprintf(out, "/-- `len(t) == N` of the prefix guard -/\ndef fillPrefixLen : Nat := %d\n", max(plen, 0))
	fmt.Fprintf(out, "/-- `t[i] == c` conjuncts of the prefix guard, by index -/\ndef fillPrefix : List Nat := %s\n", natList(pre))
	fmt.Fprintf(out, "/-- any other conjunct of the prefix guard (expected: none) -/\ndef fillGuardOther : List String := %s\n", strList(other))
	sw := top.Body.List[0].(*ast.SwitchStmt)
	swIdx := -1
	if ix, ok := sw.Tag.(*ast.IndexExpr); ok {
		if id, ok := ix.X.(*ast.Ident); ok && id.Name == "t" {
			if i, ok := intLit(ix.Index); ok {
				swIdx = i
			}
		}
	}
	if swIdx < 0 {
		return fmt.Errorf("FillFromRDNSequence: switch tag is %s, expected t[i]", e.src(sw.Tag))
	}
	fmt.Fprintf(out, "/-- index i of `switch t[i]` -/\ndef fillSwitchIndex : Nat := %d\n", swIdx)
	var rows []string
	for _, s := range sw.Body.List {
		cc := s.(*ast.CaseClause)
		if cc.List == nil {
			return fmt.Errorf("FillFromRDNSequence: the switch has a default clause (not modelled)")
		}
		for _, v := range cc.List {
			k, ok := intLit(v)
			if !ok {
				return fmt.Errorf("FillFromRDNSequence: case %s is not an integer literal", e.src(v))
			}
			rows = append(rows, fmt.Sprintf("(%d, %s)", k, e.acts(cc.Body)))
		}
	}
	fmt.Fprintf(out, "/-- `case k:` arms in source order; \"=X\" is `n.X = value`, \"+X\" is `n.X = append(n.X, value)` -/\ndef fillSwitch : List (Nat × List String) := %s\n", zvx.LeanList(rows))
	rows = nil
	for el := top.Else; el != nil; {
		i, ok := el.(*ast.IfStmt)
		if !ok {
			return fmt.Errorf("FillFromRDNSequence: final else branch (not modelled): %s", e.src(el))
		}
		call, ok := i.Cond.(*ast.CallExpr)
		var oid []int
		good := false
		if ok && len(call.Args) == 1 {
			if f, ok := selOf(call.Fun, "t"); ok && f == "Equal" {
				if id, ok := call.Args[0].(*ast.Ident); ok {
					if o, ok := e.oids[id.Name]; ok {
						oid, good = o, true
					}
				}
			}
		}
		if !good {
			return fmt.Errorf("FillFromRDNSequence: else-if condition %s is not t.Equal(<package oid var>)", e.src(i.Cond))
		}
		rows = append(rows, fmt.Sprintf("(%s, %s)", natList(oid), e.acts(i.Body.List)))
		el = i.Else
	}
	fmt.Fprintf(out, "/-- `else if t.Equal(oidX)` chain in source order, oidX resolved -/\ndef fillChain : List (List Nat × List String) := %s\n", zvx.LeanList(rows))
	return nil
}

// ret = n.appendRDNs(ret, <values>, oidX)  ->  (kind, field, oid)
func (e *ex) appendCall(s ast.Stmt) (kind, field string, oid []int, ok bool) {
	a, isA := s.(*ast.AssignStmt)
	if !isA || a.Tok != token.ASSIGN || len(a.Lhs) != 1 || len(a.Rhs) != 1 {
		return
	}
	if id, isID := a.Lhs[0].(*ast.Ident); !isID || id.Name != "ret" {
		return
	}
	c, isC := a.Rhs[0].(*ast.CallExpr)
	if !isC || len(c.Args) != 3 {
		return
	}
	if f, isS := selOf(c.Fun, "n"); !isS || f != "appendRDNs" {
		return
	}
	if id, isID := c.Args[0].(*ast.Ident); !isID || id.Name != "ret" {
		return
	}
	oidID, isID := c.Args[2].(*ast.Ident)
	if !isID {
		return
	}
	o, known := e.oids[oidID.Name]
	if !known {
		return
	}
	if f, isS := selOf(c.Args[1], "n"); isS {
		return "slice", f, o, true
	}
	if cl, isCL := c.Args[1].(*ast.CompositeLit); isCL && len(cl.Elts) == 1 && e.src(cl.Type) == "[]string" {
		if f, isS := selOf(cl.Elts[0], "n"); isS {
			return "scalar", f, o, true
		}
	}
	return
}

func (e *ex) to(fn *ast.FuncDecl, out *strings.Builder) error {
	var rows []string
	row := func(kind, field string, oid []int) {
		rows = append(rows, fmt.Sprintf("(%s, %s, %s)", zvx.LeanStr(kind), zvx.LeanStr(field), natList(oid)))
	}
	for _, s := range fn.Body.List {
		if kind, f, o, ok := e.appendCall(s); ok {
			row(kind, f, o)
			continue
		}
		switch st := s.(type) {
		case *ast.IfStmt:
			if st.Else == nil && st.Init == nil && len(st.Body.List) == 1 {
				c := e.src(st.Cond)
				if c == "n.OriginalRDNS != nil" && e.src(st.Body.List[0]) == "return n.OriginalRDNS" {
					row("original", "OriginalRDNS", nil)
					continue
				}
				if kind, f, o, ok := e.appendCall(st.Body.List[0]); ok && kind == "scalar" && c == "len(n."+f+") > 0" {
					row("guarded", f, o)
					continue
				}
			}
		case *ast.RangeStmt:
			if e.src(st.X) == "n.ExtraNames" && len(st.Body.List) == 1 &&
				e.src(st.Body.List[0]) == "ret = append(ret, []AttributeTypeAndValue{"+e.src(st.Value)+"})" {
				row("extra", "ExtraNames", nil)
				continue
			}
		case *ast.ReturnStmt:
			if len(st.Results) == 1 && e.src(st.Results[0]) == "ret" {
				row("return", "ret", nil)
				continue
			}
		}
		row("unknown", e.src(s), nil)
	}
	fmt.Fprintf(out, "/-- the statements of ToRDNSequence in source order: (kind, field, oid) with kind\n    original = `if n.OriginalRDNS != nil { return n.OriginalRDNS }`, slice = `ret = n.appendRDNs(ret, n.F, oid)`,\n    guarded = `if len(n.S) > 0 { ret = n.appendRDNs(ret, []string{n.S}, oid) }`, scalar = the same without guard,\n    extra = the ExtraNames loop, return = `return ret` -/\ndef emitOrder : List (String × String × List Nat) := %s\n", zvx.LeanList(rows))
	return nil
}

func run(repo string) (string, error) {
	e := &ex{fset: token.NewFileSet(), oids: map[string][]int{}}
	path := filepath.Join(repo, "x509", "pkix", "pkix.go")
	file, err := parser.ParseFile(e.fset, path, nil, 0)
	if err != nil {
		return "", err
	}
	var fillFn, toFn, appFn *ast.FuncDecl
	var slices, scalars []string
	for _, d := range file.Decls {
		switch x := d.(type) {
		case *ast.GenDecl:
			for _, sp := range x.Specs {
				switch s := sp.(type) {
				case *ast.ValueSpec:
					for i, nm := range s.Names {
						if i < len(s.Values) {
							if cl, ok := s.Values[i].(*ast.CompositeLit); ok && e.src(cl.Type) == "[]int" {
								var l []int
								good := true
								for _, el := range cl.Elts {
									k, ok := intLit(el)
									good = good && ok
									l = append(l, k)
								}
								if good {
									e.oids[nm.Name] = l
								}
							}
						}
					}
				case *ast.TypeSpec:
					if st, ok := s.Type.(*ast.StructType); ok && s.Name.Name == "Name" {
						for _, f := range st.Fields.List {
							for _, nm := range f.Names {
								switch e.src(f.Type) {
								case "[]string":
									slices = append(slices, nm.Name)
								case "string":
									scalars = append(scalars, nm.Name)
								}
							}
						}
					}
				}
			}
		case *ast.FuncDecl:
			if x.Recv != nil && x.Body != nil {
				switch x.Name.Name {
				case "FillFromRDNSequence":
					fillFn = x
				case "ToRDNSequence":
					if e.src(x.Recv.List[0].Type) == "Name" {
						toFn = x
					}
				case "appendRDNs":
					appFn = x
				}
			}
		}
	}
	if fillFn == nil || toFn == nil || appFn == nil {
		return "", fmt.Errorf("pkix.go: FillFromRDNSequence / Name.ToRDNSequence / appendRDNs not found")
	}
	var out strings.Builder
	out.WriteString("/-! T1 facts for C22, extracted with go/ast from x509/pkix/pkix.go -/\nnamespace ZV.C22.Gen\n")
	fmt.Fprintf(&out, "/-- `[]string` fields of struct Name, declaration order -/\ndef nameSliceFields : List String := %s\n", strList(slices))
	fmt.Fprintf(&out, "/-- `string` fields of struct Name, declaration order -/\ndef nameScalarFields : List String := %s\n", strList(scalars))
	if err := e.fill(fillFn, &out); err != nil {
		return "", err
	}
	if err := e.to(toFn, &out); err != nil {
		return "", err
	}
	if err := anyArm(repo, &out); err != nil {
		return "", err
	}
	out.WriteString("end ZV.C22.Gen\n")
	return out.String(), nil
}

// anyArm: the ANY arm of encoding/asn1 parseField — the first `if` of the function whose body declares `var result
// interface{}` —: the guard of its type switch and the `case TagX:` arms (tag constant resolved through common.go, the
// function each arm calls or the identifier it assigns), in source order.
func anyArm(repo string, out *strings.Builder) error {
	fset := token.NewFileSet()
	consts := map[string]int{}
	cf, err := parser.ParseFile(fset, filepath.Join(repo, "encoding", "asn1", "common.go"), nil, 0)
	if err != nil {
		return err
	}
	for _, d := range cf.Decls {
		if gd, ok := d.(*ast.GenDecl); ok && gd.Tok == token.CONST {
			for _, sp := range gd.Specs {
				vs := sp.(*ast.ValueSpec)
				for i, nm := range vs.Names {
					if i < len(vs.Values) {
						if k, ok := intLit(vs.Values[i]); ok {
							consts[nm.Name] = k
						}
					}
				}
			}
		}
	}
	af, err := parser.ParseFile(fset, filepath.Join(repo, "encoding", "asn1", "asn1.go"), nil, 0)
	if err != nil {
		return err
	}
	e := &ex{fset: fset}
	var sw *ast.SwitchStmt
	var guard ast.Expr
	for _, d := range af.Decls {
		fn, ok := d.(*ast.FuncDecl)
		if !ok || fn.Name.Name != "parseField" || fn.Body == nil {
			continue
		}
		for _, st := range fn.Body.List {
			ifs, ok := st.(*ast.IfStmt)
			if !ok || !strings.Contains(e.src(ifs.Cond), "reflect.Interface") {
				continue
			}
			for _, b := range ifs.Body.List {
				if inner, ok := b.(*ast.IfStmt); ok {
					for _, c := range inner.Body.List {
						if s2, ok := c.(*ast.SwitchStmt); ok && e.src(s2.Tag) == "t.tag" {
							sw, guard = s2, inner.Cond
						}
					}
				}
			}
		}
	}
	if sw == nil {
		return fmt.Errorf("asn1.go: the ANY arm of parseField (switch t.tag) not found")
	}
	var g []string
	for _, c := range conjuncts(guard) {
		g = append(g, e.src(c))
	}
	var rows []string
	var dflt []string
	for _, c := range sw.Body.List {
		cc := c.(*ast.CaseClause)
		if cc.List == nil {
			for _, s := range cc.Body {
				dflt = append(dflt, e.src(s))
			}
			continue
		}
		callee := "?"
		if len(cc.Body) == 1 {
			if a, ok := cc.Body[0].(*ast.AssignStmt); ok && len(a.Rhs) == 1 && e.src(a.Lhs[0]) == "result" {
				switch r := a.Rhs[0].(type) {
				case *ast.CallExpr:
					if len(r.Args) == 1 && e.src(r.Args[0]) == "innerBytes" && len(a.Lhs) == 2 && e.src(a.Lhs[1]) == "err" {
						callee = e.src(r.Fun)
					}
				case *ast.Ident:
					if len(a.Lhs) == 1 {
						callee = r.Name
					}
				}
			}
		}
		for _, x := range cc.List {
			k, ok := consts[e.src(x)]
			if !ok {
				return fmt.Errorf("asn1.go: ANY arm: case %s is not a constant of common.go", e.src(x))
			}
			rows = append(rows, fmt.Sprintf("(%d, %s)", k, zvx.LeanStr(callee)))
		}
	}
	fmt.Fprintf(out, "/-- conjuncts of the `if` around the type switch of the ANY arm of parseField (encoding/asn1/asn1.go) -/\ndef anyGuard : List String := %s\n", strList(g))
	fmt.Fprintf(out, "/-- `case TagX: result, err = f(innerBytes)` / `result = innerBytes` arms of that switch in source order: (tag, f) -/\ndef anyArm : List (Nat × String) := %s\n", zvx.LeanList(rows))
	cu, ok := consts["ClassUniversal"]
	if !ok {
		return fmt.Errorf("common.go: ClassUniversal not found")
	}
	fmt.Fprintf(out, "/-- the constant ClassUniversal -/\ndef classUniversal : Nat := %d\n", cu)
	fmt.Fprintf(out, "/-- statements of its `default:` arm (expected: none — the interface stays nil) -/\ndef anyDefault : List String := %s\n", strList(dflt))
	return nil
}

func init() { zvx.Register(zvx.Extractor{Name: "C22", Run: run}) }
