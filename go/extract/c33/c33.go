// Package c33 is the T1 extractor of property C33: it dumps, AT RUN TIME from the zcrypto tree the
// harness is built against, every name table behind the MarshalJSON/UnmarshalJSON of the enumerated
// types as Lean association lists (lean/ZV/Generated/C33.lean).  Names are emitted as `"…".toList`
// (List Char) so that `decide` can evaluate the table theorems in the kernel.
package c33

import (
	"fmt"
	"sort"
	"strings"

	zjson "github.com/zmap/zcrypto/json"
	"github.com/zmap/zcrypto/tls"
	"github.com/zmap/zcrypto/x509"

	"zv/internal/zvx"
)

func chars(s string) string { return zvx.LeanStr(s) + ".toList" }

func natTable(name, doc string, m map[int]string) string {
	keys := make([]int, 0, len(m))
	for k := range m {
		keys = append(keys, k)
	}
	sort.Ints(keys)
	items := make([]string, 0, len(keys))
	for _, k := range keys {
		items = append(items, fmt.Sprintf("(%d, %s)", k, chars(m[k])))
	}
	return fmt.Sprintf("/-- %s -/\ndef %s : List (Nat × List Char) := %s\n\n", doc, name, zvx.LeanList(items))
}

func strList(name, doc string, l []string) string {
	items := make([]string, 0, len(l))
	for _, s := range l {
		items = append(items, chars(s))
	}
	return fmt.Sprintf("/-- %s -/\ndef %s : List (List Char) := %s\n\n", doc, name, zvx.LeanList(items))
}

func natList(l []int) string {
	ss := make([]string, len(l))
	for i, v := range l {
		ss[i] = fmt.Sprint(v)
	}
	return "[" + strings.Join(ss, ", ") + "]"
}

func run(repo string) (string, error) {
	var b strings.Builder
	b.WriteString("/-! T1 facts of C33: the name tables behind the JSON encoders/decoders of the enumerated zcrypto types. -/\n")
	b.WriteString("namespace ZV.C33.Gen\n\n")
	t := tls.ZVC33Tables()
	for _, n := range []string{"signatureNames", "hashNames", "cipherSuiteNames", "compressionNames", "curveNames", "pointFormatNames", "clientAuthTypeNames"} {
		m, ok := t[n]
		if !ok {
			return "", fmt.Errorf("tls hook does not return table %s", n)
		}
		for k := range m {
			if k < 0 {
				return "", fmt.Errorf("negative key %d in tls.%s", k, n)
			}
		}
		b.WriteString(natTable(n, "tls/tls_names.go: "+n+" (sorted by key)", m))
	}
	// TLSVersion.String() is a switch: dump every value whose name differs from the default.
	def := tls.TLSVersion(0xfffe).String()
	vm := map[int]string{}
	for v := 0; v < 65536; v++ {
		if s := tls.TLSVersion(v).String(); s != def {
			vm[v] = s
		}
	}
	b.WriteString(natTable("tlsVersionNames", "tls/tls_names.go: TLSVersion.String(), every value whose name is not the default", vm))
	b.WriteString(fmt.Sprintf("/-- TLSVersion.String() default branch -/\ndef tlsVersionDefault : List Char := %s\n\n", chars(def)))
	// ClientAuthType.String() (stringer): every value in -8..64 whose name is not "ClientAuthType(N)".
	cm := map[int]string{}
	for v := 0; v < 64; v++ {
		s := tls.ClientAuthType(v).String()
		if s != fmt.Sprintf("ClientAuthType(%d)", v) {
			cm[v] = s
		}
	}
	for v := -8; v < 0; v++ {
		if s := tls.ClientAuthType(v).String(); s != fmt.Sprintf("ClientAuthType(%d)", v) {
			return "", fmt.Errorf("ClientAuthType(%d).String() = %q: negative values have names, extractor must be extended", v, s)
		}
	}
	b.WriteString(natTable("clientAuthStringer", "tls/common_string.go: ClientAuthType.String() for the values 0..63 that have a name (others print ClientAuthType(N))", cm))
	b.WriteString(natTable("ecIDToName", "json/names.go: ecIDToName (sorted by key)", zjson.ZVC33ECIDToName()))

	// x509
	var rows []string
	for _, d := range x509.ZVC33SignatureAlgorithmDetails() {
		if d.Algo < 0 {
			return "", fmt.Errorf("negative algo in signatureAlgorithmDetails")
		}
		for _, a := range d.OID {
			if a < 0 {
				return "", fmt.Errorf("negative arc in signatureAlgorithmDetails")
			}
		}
		rows = append(rows, fmt.Sprintf("(%d, %s)", d.Algo, natList(d.OID)))
	}
	b.WriteString("/-- x509/x509.go: signatureAlgorithmDetails, columns (algo, oid), table order -/\ndef signatureAlgorithmDetails : List (Nat × List Nat) := " + zvx.LeanList(rows) + "\n\n")
	b.WriteString("/-- x509/x509.go: oidSignatureRSAPSS -/\ndef oidSignatureRSAPSS : List Nat := " + natList(x509.ZVC33OIDSignatureRSAPSS()) + "\n\n")
	b.WriteString(strList("algoName", "x509/x509.go: algoName (index = SignatureAlgorithm)", x509.ZVC33AlgoName()))
	b.WriteString(strList("keyAlgorithmNames", "x509/x509.go: keyAlgorithmNames (index = PublicKeyAlgorithm)", x509.ZVC33KeyAlgorithmNames()))
	b.WriteString(fmt.Sprintf("/-- x509/x509.go: total_key_algorithms -/\ndef totalKeyAlgorithms : Nat := %d\n\n", x509.ZVC33TotalKeyAlgorithms()))
	pm := x509.ZVC33PublicKeyNameToAlgorithm()
	var names []string
	for k := range pm {
		names = append(names, k)
	}
	sort.Strings(names)
	rows = nil
	for _, k := range names {
		if pm[k] < 0 {
			return "", fmt.Errorf("negative value in publicKeyNameToAlgorithm")
		}
		rows = append(rows, fmt.Sprintf("(%s, %d)", chars(k), pm[k]))
	}
	b.WriteString("/-- x509/json.go: publicKeyNameToAlgorithm (sorted by name) -/\ndef publicKeyNameToAlgorithm : List (List Char × Nat) := " + zvx.LeanList(rows) + "\n\n")
	b.WriteString("end ZV.C33.Gen\n")
	return b.String(), nil
}

func init() { zvx.Register(zvx.Extractor{Name: "C33", Run: run}) }
