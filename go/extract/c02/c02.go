// Package c02 is the T1 extractor of property C02. From the zcrypto tree the harness is built against it writes
// lean/ZV/Generated/C02.lean with
//   - keyAlgorithmNames, total_key_algorithms, algoName (run-time dump through x509/zv_c02_verif.go): the tables
//     PublicKeyAlgorithm.String and SignatureAlgorithm.String index;
//   - the else-if chain of (*Certificate).JsonifyExtensions read with go/ast from x509/extensions.go: the OID variable
//     named in every `e.Id.Equal(<oid>)` test, in chain order, with the value of that variable (run-time dump).
package c02

import (
	"fmt"
	"go/ast"
	"go/parser"
	"go/token"
	"path/filepath"
	"strings"

	"github.com/zmap/zcrypto/x509"

	"zv/internal/zvx"
)

func strList(name, doc string, l []string) string {
	items := make([]string, len(l))
	for i, s := range l {
		items[i] = zvx.LeanStr(s)
	}
	return fmt.Sprintf("/-- %s -/\ndef %s : List String := %s\n\n", doc, name, zvx.LeanList(items))
}

func natList(l []int) (string, error) {
	ss := make([]string, len(l))
	for i, v := range l {
		if v < 0 {
			return "", fmt.Errorf("negative arc %d", v)
		}
		ss[i] = fmt.Sprint(v)
	}
	return "[" + strings.Join(ss, ", ") + "]", nil
}

// chain returns the identifiers X of the tests `e.Id.Equal(X)` of the if / else-if chain inside the range loop of
// JsonifyExtensions, in order; the final else must be the unknown-extension branch.
func chain(repo string) ([]string, error) {
	fset := token.NewFileSet()
	f, err := parser.ParseFile(fset, filepath.Join(repo, "x509", "extensions.go"), nil, 0)
	if err != nil {
		return nil, err
	}
	for _, d := range f.Decls {
		fd, ok := d.(*ast.FuncDecl)
		if !ok || fd.Name.Name != "JsonifyExtensions" || fd.Body == nil {
			continue
		}
		var loop *ast.RangeStmt
		for _, st := range fd.Body.List {
			if r, ok := st.(*ast.RangeStmt); ok {
				if loop != nil {
					return nil, fmt.Errorf("JsonifyExtensions has more than one range loop")
				}
				loop = r
			}
		}
		if loop == nil || len(loop.Body.List) != 1 {
			return nil, fmt.Errorf("JsonifyExtensions: expected one range loop whose body is the if chain")
		}
		var names []string
		var cur ast.Stmt = loop.Body.List[0]
		for {
			is, ok := cur.(*ast.IfStmt)
			if !ok {
				break
			}
			call, ok := is.Cond.(*ast.CallExpr)
			if !ok || len(call.Args) != 1 || is.Init != nil {
				return nil, fmt.Errorf("JsonifyExtensions: condition at %v is not e.Id.Equal(oid)", fset.Position(is.Pos()))
			}
			sel, ok := call.Fun.(*ast.SelectorExpr)
			arg, ok2 := call.Args[0].(*ast.Ident)
			if !ok || !ok2 || sel.Sel.Name != "Equal" {
				return nil, fmt.Errorf("JsonifyExtensions: condition at %v is not e.Id.Equal(oid)", fset.Position(is.Pos()))
			}
			if inner, ok := sel.X.(*ast.SelectorExpr); !ok || inner.Sel.Name != "Id" {
				return nil, fmt.Errorf("JsonifyExtensions: condition at %v does not test e.Id", fset.Position(is.Pos()))
			}
			names = append(names, arg.Name)
			if is.Else == nil {
				return nil, fmt.Errorf("JsonifyExtensions: chain ends without the unknown-extension else")
			}
			cur = is.Else
		}
		if _, ok := cur.(*ast.BlockStmt); !ok {
			return nil, fmt.Errorf("JsonifyExtensions: unexpected end of the chain")
		}
		return names, nil
	}
	return nil, fmt.Errorf("JsonifyExtensions not found in x509/extensions.go")
}

func run(repo string) (string, error) {
	var b strings.Builder
	b.WriteString("/-! T1 facts of C02: the name tables behind PublicKeyAlgorithm.String / SignatureAlgorithm.String and the\n    extension OIDs of the else-if chain of JsonifyExtensions. -/\n")
	b.WriteString("namespace ZV.C02.Gen\n\n")
	b.WriteString(strList("keyAlgorithmNames", "x509/x509.go: keyAlgorithmNames (index = PublicKeyAlgorithm)", x509.ZVC02KeyAlgorithmNames()))
	n := x509.ZVC02TotalKeyAlgorithms()
	if n < 0 {
		return "", fmt.Errorf("total_key_algorithms negative")
	}
	b.WriteString(fmt.Sprintf("/-- x509/x509.go: total_key_algorithms -/\ndef totalKeyAlgorithms : Nat := %d\n\n", n))
	b.WriteString(strList("algoName", "x509/x509.go: algoName (index = SignatureAlgorithm)", x509.ZVC02AlgoName()))
	names, err := chain(repo)
	if err != nil {
		return "", err
	}
	vals := x509.ZVC02ExtOIDByName()
	var rows, nrows []string
	for _, nm := range names {
		v, ok := vals[nm]
		if !ok {
			return "", fmt.Errorf("JsonifyExtensions tests %s, which the hook ZVC02ExtOIDByName does not know: extend the hook", nm)
		}
		s, err := natList(v)
		if err != nil {
			return "", err
		}
		rows = append(rows, s)
		nrows = append(nrows, zvx.LeanStr(nm))
	}
	b.WriteString("/-- x509/extensions.go: the OIDs tested by the else-if chain of JsonifyExtensions, in chain order (go/ast + run-time values) -/\ndef knownExtOids : List (List Nat) := " + zvx.LeanList(rows) + "\n\n")
	b.WriteString("/-- the variables named by the chain, same order -/\ndef knownExtOidVars : List String := " + zvx.LeanList(nrows) + "\n\n")
	b.WriteString("end ZV.C02.Gen\n")
	return b.String(), nil
}

func init() { zvx.Register(zvx.Extractor{Name: "C02", Run: run}) }
