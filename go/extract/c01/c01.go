// Package c01 (extractor): T1 facts for C01.
//
//  1. entryPoints — a go/ast scan of the packages the anchors of C01 name (every non-test, non-hook .go file of
//     the directory of each anchored file): every exported function whose name starts with Parse / Unmarshal /
//     Deserialize / Read, every method with such a name, and every method called `unmarshal`. Props/C01.lean
//     holds a table entry point -> theorem -> owning model; `entrypoints_accounted` (decide) says the two lists
//     coincide, so a NEW parser added to zcrypto fails the check until it is accounted for.
//  2. curves — (name, bit size, order N) of the four named curves x509.parseECPrivateKey can return (run time,
//     crypto/elliptic), and the literal of ecPrivKeyVersion (go/ast): the model of the private-key
//     post-processing is stated over these.
package c01

import (
	"crypto/elliptic"
	"fmt"
	"go/ast"
	"go/parser"
	"go/token"
	"os"
	"path/filepath"
	"sort"
	"strings"

	"zv/internal/zvx"
)

// directories of the anchored files of C01 (properties.jsonl)
var dirs = []string{
	"encoding/asn1", "cryptobyte", "x509", "ct/x509", "ct", "x509/ct",
	"x509/revocation/ocsp", "x509/revocation/google", "x509/revocation/mozilla", "x509/revocation/microsoft",
	"tls", "rsa",
}

func isParserName(n string) bool {
	for _, p := range []string{"Parse", "Unmarshal", "Deserialize", "Read"} {
		if strings.HasPrefix(n, p) {
			return true
		}
	}
	return n == "unmarshal"
}

func recvName(fd *ast.FuncDecl) string {
	if fd.Recv == nil || len(fd.Recv.List) == 0 {
		return ""
	}
	t := fd.Recv.List[0].Type
	if s, ok := t.(*ast.StarExpr); ok {
		t = s.X
	}
	if ix, ok := t.(*ast.IndexExpr); ok {
		t = ix.X
	}
	if id, ok := t.(*ast.Ident); ok {
		return id.Name
	}
	return "?"
}

func hasVerifTag(f *ast.File) bool {
	for _, cg := range f.Comments {
		if cg.Pos() > f.Package {
			break
		}
		for _, c := range cg.List {
			if strings.HasPrefix(c.Text, "//go:build") && strings.Contains(c.Text, "verif") {
				return true
			}
		}
	}
	return false
}

func scan(repo string) ([]string, error) {
	var out []string
	for _, d := range dirs {
		ents, err := os.ReadDir(filepath.Join(repo, d))
		if err != nil {
			return nil, err
		}
		for _, e := range ents {
			n := e.Name()
			if e.IsDir() || !strings.HasSuffix(n, ".go") || strings.HasSuffix(n, "_test.go") {
				continue
			}
			fs := token.NewFileSet()
			f, err := parser.ParseFile(fs, filepath.Join(repo, d, n), nil, parser.ParseComments)
			if err != nil {
				return nil, err
			}
			if hasVerifTag(f) { // verification hooks are not part of zcrypto
				continue
			}
			for _, dcl := range f.Decls {
				fd, ok := dcl.(*ast.FuncDecl)
				if !ok || !isParserName(fd.Name.Name) {
					continue
				}
				rc := recvName(fd)
				if rc == "" && !ast.IsExported(fd.Name.Name) {
					continue
				}
				key := d + " " + fd.Name.Name
				if rc != "" {
					key = d + " " + rc + "." + fd.Name.Name
				}
				out = append(out, key)
			}
		}
	}
	sort.Strings(out)
	return out, nil
}

func ecVersion(repo string) (string, error) {
	fs := token.NewFileSet()
	f, err := parser.ParseFile(fs, filepath.Join(repo, "x509", "sec1.go"), nil, 0)
	if err != nil {
		return "", err
	}
	for _, d := range f.Decls {
		gd, ok := d.(*ast.GenDecl)
		if !ok {
			continue
		}
		for _, s := range gd.Specs {
			vs, ok := s.(*ast.ValueSpec)
			if !ok {
				continue
			}
			for i, n := range vs.Names {
				if n.Name == "ecPrivKeyVersion" && i < len(vs.Values) {
					if bl, ok := vs.Values[i].(*ast.BasicLit); ok {
						return bl.Value, nil
					}
				}
			}
		}
	}
	return "", fmt.Errorf("ecPrivKeyVersion literal not found in x509/sec1.go")
}

func run(repo string) (string, error) {
	eps, err := scan(repo)
	if err != nil {
		return "", err
	}
	var b strings.Builder
	b.WriteString("/-! T1 facts of C01: the parser entry points of the anchored packages (go/ast scan) and the named-curve orders. -/\n")
	b.WriteString("namespace ZV.C01.Gen\n")
	var items []string
	for _, e := range eps {
		items = append(items, zvx.LeanStr(e))
	}
	fmt.Fprintf(&b, "/-- \"<package dir> [<receiver>.]<name>\" of every exported Parse*/Unmarshal*/Deserialize*/Read* function or method and every `unmarshal` method, sorted -/\ndef entryPoints : List String := %s\n", zvx.LeanList(items))
	v, err := ecVersion(repo)
	if err != nil {
		return "", err
	}
	fmt.Fprintf(&b, "/-- x509/sec1.go: const ecPrivKeyVersion (go/ast) -/\ndef ecPrivKeyVersion : Nat := %s\n", v)
	var cs []string
	for _, c := range []elliptic.Curve{elliptic.P224(), elliptic.P256(), elliptic.P384(), elliptic.P521()} {
		p := c.Params()
		cs = append(cs, fmt.Sprintf("(%s, %d, %s)", zvx.LeanStr(p.Name), p.N.BitLen(), p.N.String()))
	}
	fmt.Fprintf(&b, "/-- (name, N.BitLen(), N) of the curves namedCurveFromOID can return, in the order P-224, P-256, P-384, P-521 (run time) -/\ndef curves : List (String × Nat × Nat) := %s\n", zvx.LeanList(cs))
	b.WriteString("end ZV.C01.Gen\n")
	return b.String(), nil
}

func init() { zvx.Register(zvx.Extractor{Name: "C01", Run: run}) }
