// Package c27 (extractor): T1 facts for C27 taken at run time from the tree through tls/zv_c27_verif.go —
// rsaSignatureSchemes, the typeAndHashFromSignatureScheme switch (all 65536 values), the constants the selection
// code compares with, requiresClientCert, and the decision table of processCertsFromClient (the REAL function run on
// every ClientAuthType x certificate kind of go/props/c27/selpki).
package c27

import (
	"fmt"
	"sort"
	"strings"

	"github.com/zmap/zcrypto/tls"

	"zv/internal/zvx"
	"zv/props/c27/selpki"
)

func run(repo string) (string, error) {
	var b strings.Builder
	b.WriteString("namespace ZV.C27.Gen\n")
	b.WriteString("/-- tls/auth.go rsaSignatureSchemes: (scheme, minModulusBytes, maxVersion), in order -/\n")
	var rows []string
	for _, r := range tls.ZVC27RSASignatureSchemes() {
		rows = append(rows, fmt.Sprintf("(0x%04x, %d, 0x%04x)", r[0], r[1], r[2]))
	}
	b.WriteString("def rsaSignatureSchemes : List (Nat × Nat × Nat) := " + zvx.LeanList(rows) + "\n")
	b.WriteString("/-- typeAndHashFromSignatureScheme: (scheme, sigType, crypto.Hash) for every uint16 it accepts, ascending -/\n")
	rows = nil
	for s := 0; s < 65536; s++ {
		if t, h, ok := tls.ZVC27TypeAndHash(tls.SignatureScheme(s)); ok {
			rows = append(rows, fmt.Sprintf("(0x%04x, %d, %d)", s, t, h))
		}
	}
	b.WriteString("def sigTypeTable : List (Nat × Nat × Nat) := " + zvx.LeanList(rows) + "\n")
	consts := tls.ZVC27Consts()
	for k, v := range map[string]int{
		"versionTLS12": tls.VersionTLS12, "versionTLS13": tls.VersionTLS13,
		"pkcs1WithSHA1": int(tls.PKCS1WithSHA1), "pkcs1WithSHA256": int(tls.PKCS1WithSHA256), "pkcs1WithSHA384": int(tls.PKCS1WithSHA384),
		"pkcs1WithSHA512": int(tls.PKCS1WithSHA512), "ecdsaWithSHA1": int(tls.ECDSAWithSHA1),
		"ecdsaWithP256AndSHA256": int(tls.ECDSAWithP256AndSHA256), "ecdsaWithP384AndSHA384": int(tls.ECDSAWithP384AndSHA384),
		"ecdsaWithP521AndSHA512": int(tls.ECDSAWithP521AndSHA512), "ed25519": int(tls.Ed25519),
		"noClientCert": int(tls.NoClientCert), "requestClientCert": int(tls.RequestClientCert), "requireAnyClientCert": int(tls.RequireAnyClientCert),
		"verifyClientCertIfGiven": int(tls.VerifyClientCertIfGiven), "requireAndVerifyClientCert": int(tls.RequireAndVerifyClientCert),
		"alertBadCertificate": int(tls.AlertBadCertificate), "alertUnsupportedCertificate": int(tls.AlertUnsupportedCertificate),
	} {
		consts[k] = v
	}
	var names []string
	for k := range consts {
		names = append(names, k)
	}
	sort.Strings(names)
	for _, k := range names {
		fmt.Fprintf(&b, "def %s : Nat := %d\n", k, consts[k])
	}
	b.WriteString("/-- requiresClientCert(ClientAuthType(n)) for n = 0..7 -/\n")
	rows = nil
	for n := 0; n < 8; n++ {
		rows = append(rows, fmt.Sprintf("(%d, %v)", n, tls.ZVC27RequiresClientCert(tls.ClientAuthType(n))))
	}
	b.WriteString("def requiresClientCertTable : List (Nat × Bool) := " + zvx.LeanList(rows) + "\n")
	b.WriteString("/-- processCertsFromClient run on ClientAuthType 0..4 x certificate kind (0 none, 1 valid, 2 untrusted root, 3 expired,\n    4 EKU serverAuth only, 5 no EKU, 6 EKU any, 7 unparseable), ClientCAs = the issuing root, no callback:\n    (mode, kind, alert sent or 0 when it returns nil, len(peerCertificates), len(verifiedChains)) -/\n")
	rows = nil
	for mode := 0; mode <= 4; mode++ {
		for ki, kind := range selpki.KindNames {
			ok, alert, peers, chains, _ := selpki.RunPolicy(mode, kind, 0)
			if ok != (alert < 0) {
				return "", fmt.Errorf("processCertsFromClient mode %d kind %s: ok=%v but alert=%d", mode, kind, ok, alert)
			}
			a := 0
			if !ok {
				a = alert
			}
			rows = append(rows, fmt.Sprintf("(%d, %d, %d, %d, %d)", mode, ki, a, peers, chains))
		}
	}
	b.WriteString("def clientAuthTable : List (Nat × Nat × Nat × Nat × Nat) := " + zvx.LeanList(rows) + "\n")
	b.WriteString("end ZV.C27.Gen\n")
	return b.String(), nil
}

func init() { zvx.Register(zvx.Extractor{Name: "C27", Run: run}) }
