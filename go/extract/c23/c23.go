// Package c23 (extractor): T1 facts for C23 — the PKCS#1 v1.5 DigestInfo prefix table of zcrypto/rsa
// (dumped at run time through the verif hook) and the digest sizes crypto.Hash.Size reports.
package c23

import (
	"crypto"
	"fmt"
	"strings"

	zrsa "github.com/zmap/zcrypto/rsa"

	"zv/internal/zvx"
)

func bytesLit(b []byte) string {
	s := make([]string, len(b))
	for i, x := range b {
		s[i] = fmt.Sprintf("0x%02x", x)
	}
	return "[" + strings.Join(s, ", ") + "]"
}

func sizeOf(h crypto.Hash) (n int, ok bool) {
	defer func() {
		if recover() != nil {
			ok = false
		}
	}()
	return h.Size(), true
}

func run(repo string) (string, error) {
	var b strings.Builder
	b.WriteString("import ZV.Base\nnamespace ZV.Gen.C23\n")
	ids, pre := zrsa.ZVHashPrefixes()
	var rows []string
	for i, h := range ids {
		rows = append(rows, fmt.Sprintf("(%d, %s)", int(h), bytesLit(pre[i])))
	}
	b.WriteString("/-- rsa/pkcs1v15.go `hashPrefixes` (crypto.Hash id → DigestInfo prefix), sorted by id -/\n")
	b.WriteString("def hashPrefixes : List (Nat × List UInt8) := " + zvx.LeanList(rows) + "\n")
	rows = nil
	for h := 0; h < 64; h++ {
		if n, ok := sizeOf(crypto.Hash(h)); ok {
			rows = append(rows, fmt.Sprintf("(%d, %d)", h, n))
		}
	}
	b.WriteString("/-- crypto.Hash.Size() for every id on which it does not panic -/\n")
	b.WriteString("def hashSizes : List (Nat × Nat) := " + zvx.LeanList(rows) + "\n")
	b.WriteString("end ZV.Gen.C23\n")
	return b.String(), nil
}

func init() { zvx.Register(zvx.Extractor{Name: "C23", Run: run}) }
