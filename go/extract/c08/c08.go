// Package c08 (extractor): T1 facts for property C08, taken syntactically (go/ast) from x509/cert_pool.go:
// the source text of EVERY `if` / `for` condition of every function of the file (so that weakening or
// removing a guard re-checks a named theorem), the string literal `block.Type` is compared with in
// AppendCertsFromPEM, the bound of the `len(block.Headers)` test, and the message of the AddCert(nil) panic.
package c08

import (
	"bytes"
	"fmt"
	"go/ast"
	"go/parser"
	"go/printer"
	"go/token"
	"path/filepath"
	"strconv"
	"strings"

	"zv/internal/zvx"
)

func src(fset *token.FileSet, n ast.Node) string {
	var b bytes.Buffer
	printer.Fprint(&b, fset, n)
	return strings.Join(strings.Fields(b.String()), " ")
}

func strLit(e ast.Expr) (string, bool) {
	if b, ok := e.(*ast.BasicLit); ok && b.Kind == token.STRING {
		s, err := strconv.Unquote(b.Value)
		return s, err == nil
	}
	return "", false
}

func run(repo string) (string, error) {
	fset := token.NewFileSet()
	f, err := parser.ParseFile(fset, filepath.Join(repo, "x509", "cert_pool.go"), nil, 0)
	if err != nil {
		return "", err
	}
	var guards, stmts []string
	pemType, pemTypeOp, hdrOp, hdrBound, panicMsg := "", "", "", "", ""
	nType, nHdr, nPanic := 0, 0, 0
	for _, d := range f.Decls {
		fd, ok := d.(*ast.FuncDecl)
		if !ok || fd.Body == nil {
			continue
		}
		name := fd.Name.Name
		nst := 0
		ast.Inspect(fd.Body, func(n ast.Node) bool {
			switch x := n.(type) {
			case *ast.IfStmt:
				guards = append(guards, fmt.Sprintf("(%s, %s)", zvx.LeanStr(name), zvx.LeanStr("if "+src(fset, x.Cond))))
			case *ast.ForStmt:
				c := ""
				if x.Cond != nil {
					c = src(fset, x.Cond)
				}
				guards = append(guards, fmt.Sprintf("(%s, %s)", zvx.LeanStr(name), zvx.LeanStr("for "+c)))
			case *ast.RangeStmt:
				guards = append(guards, fmt.Sprintf("(%s, %s)", zvx.LeanStr(name), zvx.LeanStr("range "+src(fset, x.X))))
			case *ast.BranchStmt:
				guards = append(guards, fmt.Sprintf("(%s, %s)", zvx.LeanStr(name), zvx.LeanStr(x.Tok.String())))
			case *ast.BinaryExpr:
				if name == "AppendCertsFromPEM" {
					if src(fset, x.X) == "block.Type" {
						if s, ok := strLit(x.Y); ok {
							pemType, pemTypeOp = s, x.Op.String()
							nType++
						}
					}
					if src(fset, x.X) == "len(block.Headers)" {
						hdrOp, hdrBound = x.Op.String(), src(fset, x.Y)
						nHdr++
					}
				}
			case *ast.CallExpr:
				if id, ok := x.Fun.(*ast.Ident); ok && id.Name == "panic" && name == "AddCert" && len(x.Args) == 1 {
					if s, ok := strLit(x.Args[0]); ok {
						panicMsg = s
						nPanic++
					}
				}
			case ast.Stmt:
				_ = x
			}
			if _, ok := n.(ast.Stmt); ok {
				nst++
			}
			return true
		})
		stmts = append(stmts, fmt.Sprintf("(%s, %d)", zvx.LeanStr(name), nst))
	}
	// a changed shape must fail the C08 theorem t1_pem_constants, not the extraction (which is shared by all properties):
	// absent / non-literal operands are rendered as sentinels and the occurrence counts are part of the facts
	if _, err := strconv.Atoi(hdrBound); err != nil {
		hdrOp, hdrBound = hdrOp+" "+hdrBound, "0"
	}
	var b strings.Builder
	b.WriteString("namespace ZV.Generated.C08\n\n")
	b.WriteString("/-- x509/cert_pool.go: every `if` / `for` / `range` header and every `break`/`continue`, per function, in source order -/\n")
	b.WriteString("def guards : List (String × String) := " + zvx.LeanList(guards) + "\n\n")
	b.WriteString("/-- x509/cert_pool.go: number of statements per function body (an added or removed statement shows here) -/\n")
	b.WriteString("def stmtCounts : List (String × Nat) := " + zvx.LeanList(stmts) + "\n\n")
	fmt.Fprintf(&b, "/-- AppendCertsFromPEM: `block.Type %s <literal>` -/\ndef pemBlockType : String := %s\ndef pemBlockTypeOp : String := %s\n", pemTypeOp, zvx.LeanStr(pemType), zvx.LeanStr(pemTypeOp))
	fmt.Fprintf(&b, "/-- AppendCertsFromPEM: `len(block.Headers) %s %s` -/\ndef pemHeaderOp : String := %s\ndef pemHeaderBound : Nat := %s\n", hdrOp, hdrBound, zvx.LeanStr(hdrOp), hdrBound)
	fmt.Fprintf(&b, "/-- AddCert: message of the nil-certificate panic -/\ndef addCertNilPanic : String := %s\n", zvx.LeanStr(panicMsg))
	fmt.Fprintf(&b, "/-- how often each of the three shapes above occurs in the source (each must be 1) -/\ndef shapeCounts : List Nat := [%d, %d, %d]\n", nType, nHdr, nPanic)
	b.WriteString("\nend ZV.Generated.C08\n")
	return b.String(), nil
}

func init() { zvx.Register(zvx.Extractor{Name: "C08", Run: run}) }
