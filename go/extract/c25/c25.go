// Package c25 (extractor): T1 facts for property C25 — the record-layer constants (run-time values through
// tls/zv_c25_verif.go and the exported version constants), the alert constants of tls/alert.go, and, by go/ast
// over tls/conn.go, the alert named at every sendAlert / return site of readRecordOrCCS, retryReadRecord,
// halfConn.decrypt and halfConn.changeCipherSpec in source order.
package c25

import (
	"fmt"
	"go/ast"
	"go/parser"
	"go/token"
	"path/filepath"
	"strconv"
	"strings"

	"github.com/zmap/zcrypto/tls"

	"zv/internal/zvx"
)

func run(repo string) (string, error) {
	var b strings.Builder
	b.WriteString("namespace ZV.C25.Gen\n")
	fmt.Fprintf(&b, "def maxPlaintext : Nat := %d\ndef maxCiphertext : Nat := %d\ndef maxCiphertextTLS13 : Nat := %d\n",
		tls.ZVC25MaxPlaintext, tls.ZVC25MaxCiphertext, tls.ZVC25MaxCiphertextTLS13)
	fmt.Fprintf(&b, "def recordHeaderLen : Nat := %d\ndef maxUselessRecords : Nat := %d\ndef tcpMSSEstimate : Int := %d\ndef recordSizeBoostThreshold : Int := %d\n",
		tls.ZVC25RecordHeaderLen, tls.ZVC25MaxUselessRecords, tls.ZVC25TCPMSSEstimate, tls.ZVC25RecordSizeBoostThreshold)
	fmt.Fprintf(&b, "def recordTypeChangeCipherSpec : Nat := %d\ndef recordTypeAlert : Nat := %d\ndef recordTypeHandshake : Nat := %d\ndef recordTypeApplicationData : Nat := %d\n",
		tls.ZVC25RecordTypeCCS, tls.ZVC25RecordTypeAlert, tls.ZVC25RecordTypeHandshake, tls.ZVC25RecordTypeAppData)
	fmt.Fprintf(&b, "def versionTLS10 : Nat := %d\ndef versionTLS11 : Nat := %d\ndef versionTLS12 : Nat := %d\ndef versionTLS13 : Nat := %d\n",
		tls.VersionTLS10, tls.VersionTLS11, tls.VersionTLS12, tls.VersionTLS13)
	fmt.Fprintf(&b, "def alertLevelWarning : Nat := %d\ndef alertLevelError : Nat := %d\n", tls.AlertLevelWarning, tls.AlertLevelError)

	fset := token.NewFileSet()
	// alert constants
	af, err := parser.ParseFile(fset, filepath.Join(repo, "tls", "alert.go"), nil, 0)
	if err != nil {
		return "", err
	}
	var items []string
	for _, d := range af.Decls {
		gd, ok := d.(*ast.GenDecl)
		if !ok || gd.Tok != token.CONST {
			continue
		}
		for _, sp := range gd.Specs {
			vs := sp.(*ast.ValueSpec)
			for i, n := range vs.Names {
				if !strings.HasPrefix(n.Name, "Alert") || strings.HasPrefix(n.Name, "AlertLevel") || i >= len(vs.Values) {
					continue
				}
				if lit, ok := vs.Values[i].(*ast.BasicLit); ok && lit.Kind == token.INT {
					v, _ := strconv.Atoi(lit.Value)
					items = append(items, fmt.Sprintf("(%s, %d)", zvx.LeanStr(n.Name), v))
				}
			}
		}
	}
	b.WriteString("/-- the Alert constants of tls/alert.go (name, value) -/\n")
	b.WriteString("def alerts : List (String × Nat) := " + zvx.LeanList(items) + "\n")
	b.WriteString("def alertValue (n : String) : Option Nat := (alerts.find? (fun p => p.1 == n)).map (fun p => p.2)\n")

	// alert sites
	cf, err := parser.ParseFile(fset, filepath.Join(repo, "tls", "conn.go"), nil, 0)
	if err != nil {
		return "", err
	}
	alertArg := func(e ast.Expr) string {
		switch x := e.(type) {
		case *ast.Ident:
			return x.Name
		case *ast.TypeAssertExpr:
			if id, ok := x.X.(*ast.Ident); ok {
				return id.Name
			}
		}
		return "<other>"
	}
	b.WriteString("/-- per function of tls/conn.go, in source order: the argument of every sendAlert / sendAlertLocked call and\n    every Alert constant in a return statement (`err` = the alert of the failed callee is passed on) -/\n")
	b.WriteString("def alertSites (f : String) : List String :=\n  match f with\n")
	for _, want := range []string{"readRecordOrCCS", "retryReadRecord", "decrypt", "changeCipherSpec", "writeRecordLocked"} {
		for _, d := range cf.Decls {
			fd, ok := d.(*ast.FuncDecl)
			if !ok || fd.Body == nil || fd.Name.Name != want {
				continue
			}
			var sites []string
			ast.Inspect(fd.Body, func(n ast.Node) bool {
				switch x := n.(type) {
				case *ast.CallExpr:
					if sel, ok := x.Fun.(*ast.SelectorExpr); ok && (sel.Sel.Name == "sendAlert" || sel.Sel.Name == "sendAlertLocked") && len(x.Args) == 1 {
						sites = append(sites, zvx.LeanStr(alertArg(x.Args[0])))
					}
				case *ast.ReturnStmt:
					for _, r := range x.Results {
						if id, ok := r.(*ast.Ident); ok && strings.HasPrefix(id.Name, "Alert") {
							sites = append(sites, zvx.LeanStr(id.Name))
						}
					}
				}
				return true
			})
			fmt.Fprintf(&b, "  | %s => [%s]\n", zvx.LeanStr(want), strings.Join(sites, ", "))
		}
	}
	b.WriteString("  | _ => []\n")
	b.WriteString("end ZV.C25.Gen\n")
	return b.String(), nil
}

func init() { zvx.Register(zvx.Extractor{Name: "C25", Run: run}) }
