// Package c11 (extractor): T1 facts for property C11, read syntactically (go/ast) from verifier/walk.go of the
// working tree: the constant maxIntermediateCount, the channel-size default of WalkChainsAsync (guard, literal),
// and the `if` conditions of WalkChainsAsync / continueWalking / canAddToChain in source order.
package c11

import (
	"fmt"
	"go/ast"
	"go/parser"
	"go/token"
	"path/filepath"
	"strconv"
	"strings"

	"zv/internal/zvx"
)

func exprStr(e ast.Expr) string {
	switch x := e.(type) {
	case *ast.Ident:
		return x.Name
	case *ast.BasicLit:
		return x.Value
	case *ast.SelectorExpr:
		return exprStr(x.X) + "." + x.Sel.Name
	case *ast.CallExpr:
		var a []string
		for _, y := range x.Args {
			a = append(a, exprStr(y))
		}
		return exprStr(x.Fun) + "(" + strings.Join(a, ",") + ")"
	case *ast.IndexExpr:
		return exprStr(x.X) + "[" + exprStr(x.Index) + "]"
	case *ast.BinaryExpr:
		return exprStr(x.X) + x.Op.String() + exprStr(x.Y)
	case *ast.UnaryExpr:
		return x.Op.String() + exprStr(x.X)
	case *ast.ParenExpr:
		return "(" + exprStr(x.X) + ")"
	}
	return fmt.Sprintf("?%T", e)
}

func run(repo string) (string, error) {
	fset := token.NewFileSet()
	f, err := parser.ParseFile(fset, filepath.Join(repo, "verifier", "walk.go"), nil, 0)
	if err != nil {
		return "", err
	}
	var maxIC int64 = -1
	var defSize int64 = -1
	sizeGuard := ""
	guards := map[string][]string{}
	for _, d := range f.Decls {
		switch x := d.(type) {
		case *ast.GenDecl:
			if x.Tok != token.CONST {
				continue
			}
			for _, sp := range x.Specs {
				vs := sp.(*ast.ValueSpec)
				for i, nm := range vs.Names {
					if nm.Name == "maxIntermediateCount" && i < len(vs.Values) {
						if bl, ok := vs.Values[i].(*ast.BasicLit); ok && bl.Kind == token.INT {
							maxIC, _ = strconv.ParseInt(bl.Value, 0, 64)
						}
					}
				}
			}
		case *ast.FuncDecl:
			name := x.Name.Name
			if x.Body == nil || (name != "WalkChainsAsync" && name != "continueWalking" && name != "canAddToChain") {
				continue
			}
			ast.Inspect(x.Body, func(n ast.Node) bool {
				is, ok := n.(*ast.IfStmt)
				if !ok {
					return true
				}
				c := exprStr(is.Cond)
				if is.Init != nil {
					if as, ok := is.Init.(*ast.AssignStmt); ok && len(as.Rhs) == 1 {
						c = exprStr(as.Rhs[0]) + ";" + c
					}
				}
				guards[name] = append(guards[name], c)
				if name == "WalkChainsAsync" && sizeGuard == "" {
					for _, s := range is.Body.List {
						if as, ok := s.(*ast.AssignStmt); ok && len(as.Lhs) == 1 && len(as.Rhs) == 1 && exprStr(as.Lhs[0]) == "opt.ChannelSize" {
							if bl, ok := as.Rhs[0].(*ast.BasicLit); ok && bl.Kind == token.INT {
								defSize, _ = strconv.ParseInt(bl.Value, 0, 64)
								sizeGuard = c
							}
						}
					}
				}
				return true
			})
		}
	}
	if maxIC < 0 {
		return "", fmt.Errorf("c11 extractor: const maxIntermediateCount not found in verifier/walk.go")
	}
	if defSize < 0 {
		return "", fmt.Errorf("c11 extractor: channel-size default (opt.ChannelSize = <literal>) not found in WalkChainsAsync")
	}
	q := func(l []string) string {
		var s []string
		for _, x := range l {
			s = append(s, zvx.LeanStr(x))
		}
		return "[" + strings.Join(s, ", ") + "]"
	}
	var b strings.Builder
	b.WriteString("/-! Constants and guards of verifier/walk.go (go/ast). -/\n")
	b.WriteString("namespace ZV.C11.Gen\n")
	b.WriteString("/-- `const maxIntermediateCount` -/\n")
	b.WriteString(fmt.Sprintf("def maxIntermediateCount : Nat := %d\n", maxIC))
	b.WriteString("/-- the literal assigned to `opt.ChannelSize` in the first guarded assignment of WalkChainsAsync -/\n")
	b.WriteString(fmt.Sprintf("def defaultChannelSize : Nat := %d\n", defSize))
	b.WriteString("/-- the condition guarding that assignment -/\n")
	b.WriteString("def channelSizeGuard : String := " + zvx.LeanStr(sizeGuard) + "\n")
	b.WriteString("/-- the `if` conditions of WalkChainsAsync, source order (nested ones follow their parent) -/\n")
	b.WriteString("def asyncGuards : List String := " + q(guards["WalkChainsAsync"]) + "\n")
	b.WriteString("/-- the `if` conditions of continueWalking, source order -/\n")
	b.WriteString("def walkGuards : List String := " + q(guards["continueWalking"]) + "\n")
	b.WriteString("/-- the `if` conditions of canAddToChain, source order -/\n")
	b.WriteString("def canAddGuards : List String := " + q(guards["canAddToChain"]) + "\n")
	b.WriteString("end ZV.C11.Gen\n")
	return b.String(), nil
}

func init() { zvx.Register(zvx.Extractor{Name: "C11", Run: run}) }
