// Package c07 (extractor): T1 facts for property C07, read syntactically (go/ast) from x509/verify.go of the
// working tree: the constant maxIntermediateCount, the InvalidReason and certificate-type iota blocks, and the `if`
// conditions of isValid, buildChains, FilterByDate and checkChainForKeyUsage in source order.
package c07

import (
	"fmt"
	"go/ast"
	"go/parser"
	"go/token"
	"path/filepath"
	"strconv"
	"strings"

	"zv/internal/zvx"
)

func exprStr(e ast.Expr) string {
	switch x := e.(type) {
	case *ast.Ident:
		return x.Name
	case *ast.BasicLit:
		return x.Value
	case *ast.SelectorExpr:
		return exprStr(x.X) + "." + x.Sel.Name
	case *ast.CallExpr:
		var a []string
		for _, y := range x.Args {
			a = append(a, exprStr(y))
		}
		return exprStr(x.Fun) + "(" + strings.Join(a, ",") + ")"
	case *ast.IndexExpr:
		return exprStr(x.X) + "[" + exprStr(x.Index) + "]"
	case *ast.BinaryExpr:
		return exprStr(x.X) + x.Op.String() + exprStr(x.Y)
	case *ast.UnaryExpr:
		return x.Op.String() + exprStr(x.X)
	case *ast.ParenExpr:
		return "(" + exprStr(x.X) + ")"
	}
	return fmt.Sprintf("?%T", e)
}

func run(repo string) (string, error) {
	fset := token.NewFileSet()
	f, err := parser.ParseFile(fset, filepath.Join(repo, "x509", "verify.go"), nil, 0)
	if err != nil {
		return "", err
	}
	var maxIC int64 = -1
	var reasons, certTypes []string
	guards := map[string][]string{}
	want := map[string]bool{"isValid": true, "buildChains": true, "FilterByDate": true, "checkChainForKeyUsage": true}
	for _, d := range f.Decls {
		switch x := d.(type) {
		case *ast.GenDecl:
			if x.Tok != token.CONST {
				continue
			}
			var names []string
			for _, sp := range x.Specs {
				vs := sp.(*ast.ValueSpec)
				for i, nm := range vs.Names {
					names = append(names, nm.Name)
					if nm.Name == "maxIntermediateCount" && i < len(vs.Values) {
						if bl, ok := vs.Values[i].(*ast.BasicLit); ok && bl.Kind == token.INT {
							maxIC, _ = strconv.ParseInt(bl.Value, 0, 64)
						}
					}
				}
			}
			if len(names) > 0 && names[0] == "NotAuthorizedToSign" {
				reasons = names
			}
			if len(names) > 0 && names[0] == "leafCertificate" {
				certTypes = names
			}
		case *ast.FuncDecl:
			name := x.Name.Name
			if x.Body == nil || !want[name] {
				continue
			}
			ast.Inspect(x.Body, func(n ast.Node) bool {
				if is, ok := n.(*ast.IfStmt); ok {
					guards[name] = append(guards[name], exprStr(is.Cond))
				}
				return true
			})
		}
	}
	if maxIC < 0 {
		return "", fmt.Errorf("c07 extractor: const maxIntermediateCount not found in x509/verify.go")
	}
	if len(reasons) == 0 || len(guards["isValid"]) == 0 || len(guards["FilterByDate"]) == 0 {
		return "", fmt.Errorf("c07 extractor: InvalidReason block / isValid / FilterByDate not found in x509/verify.go")
	}
	q := func(l []string) string {
		var s []string
		for _, x := range l {
			s = append(s, zvx.LeanStr(x))
		}
		return "[" + strings.Join(s, ", ") + "]"
	}
	var b strings.Builder
	b.WriteString("/-! Constants and guards of x509/verify.go (go/ast). -/\n")
	b.WriteString("namespace ZV.C07.Gen\n")
	b.WriteString("/-- `const maxIntermediateCount` -/\n")
	b.WriteString(fmt.Sprintf("def maxIntermediateCount : Nat := %d\n", maxIC))
	b.WriteString("/-- the `InvalidReason` iota block, in order -/\n")
	b.WriteString("def invalidReasons : List String := " + q(reasons) + "\n")
	b.WriteString("/-- the certificate-type iota block, in order -/\n")
	b.WriteString("def certTypes : List String := " + q(certTypes) + "\n")
	b.WriteString("/-- the `if` conditions of isValid, source order (nested ones follow their parent) -/\n")
	b.WriteString("def isValidGuards : List String := " + q(guards["isValid"]) + "\n")
	b.WriteString("/-- the `if` conditions of buildChains, source order -/\n")
	b.WriteString("def buildChainsGuards : List String := " + q(guards["buildChains"]) + "\n")
	b.WriteString("/-- the `if` conditions of FilterByDate, source order -/\n")
	b.WriteString("def filterByDateGuards : List String := " + q(guards["FilterByDate"]) + "\n")
	b.WriteString("/-- the `if` conditions of checkChainForKeyUsage, source order -/\n")
	b.WriteString("def ekuGuards : List String := " + q(guards["checkChainForKeyUsage"]) + "\n")
	b.WriteString("end ZV.C07.Gen\n")
	return b.String(), nil
}

func init() { zvx.Register(zvx.Extractor{Name: "C07", Run: run}) }
