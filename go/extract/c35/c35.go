// Package c35 (extractor): T1 facts for property C35, read syntactically (go/ast) from tls/common.go of the
// working tree: the local constant defaultSessionCacheCapacity of NewLRUClientSessionCache, the guard
// `if capacity < 1` in front of it (operator and literal), and the guard `c.q.Len() < c.capacity` of Put.
package c35

import (
	"fmt"
	"go/ast"
	"go/parser"
	"go/token"
	"path/filepath"
	"strconv"
	"strings"

	"zv/internal/zvx"
)

func exprStr(e ast.Expr) string {
	switch x := e.(type) {
	case *ast.Ident:
		return x.Name
	case *ast.BasicLit:
		return x.Value
	case *ast.SelectorExpr:
		return exprStr(x.X) + "." + x.Sel.Name
	case *ast.CallExpr:
		var a []string
		for _, y := range x.Args {
			a = append(a, exprStr(y))
		}
		return exprStr(x.Fun) + "(" + strings.Join(a, ",") + ")"
	case *ast.IndexExpr:
		return exprStr(x.X) + "[" + exprStr(x.Index) + "]"
	case *ast.BinaryExpr:
		return exprStr(x.X) + x.Op.String() + exprStr(x.Y)
	}
	return fmt.Sprintf("?%T", e)
}

func run(repo string) (string, error) {
	fset := token.NewFileSet()
	f, err := parser.ParseFile(fset, filepath.Join(repo, "tls", "common.go"), nil, 0)
	if err != nil {
		return "", err
	}
	var defCap int64 = -1
	var newGuards, putGuards []string // if-conditions in source order
	var newAssign []string
	for _, d := range f.Decls {
		fd, ok := d.(*ast.FuncDecl)
		if !ok || fd.Body == nil {
			continue
		}
		isNew := fd.Recv == nil && fd.Name.Name == "NewLRUClientSessionCache"
		isPut := false
		if fd.Recv != nil && len(fd.Recv.List) == 1 && fd.Name.Name == "Put" {
			if st, ok := fd.Recv.List[0].Type.(*ast.StarExpr); ok {
				if id, ok := st.X.(*ast.Ident); ok && id.Name == "lruSessionCache" {
					isPut = true
				}
			}
		}
		if !isNew && !isPut {
			continue
		}
		ast.Inspect(fd.Body, func(n ast.Node) bool {
			switch x := n.(type) {
			case *ast.GenDecl:
				if isNew && x.Tok == token.CONST {
					for _, sp := range x.Specs {
						vs := sp.(*ast.ValueSpec)
						for i, nm := range vs.Names {
							if nm.Name == "defaultSessionCacheCapacity" && i < len(vs.Values) {
								if bl, ok := vs.Values[i].(*ast.BasicLit); ok && bl.Kind == token.INT {
									defCap, _ = strconv.ParseInt(bl.Value, 0, 64)
								}
							}
						}
					}
				}
			case *ast.IfStmt:
				c := exprStr(x.Cond)
				if x.Init != nil {
					if as, ok := x.Init.(*ast.AssignStmt); ok && len(as.Rhs) == 1 {
						c = exprStr(as.Rhs[0]) + ";" + c
					}
				}
				if isNew {
					newGuards = append(newGuards, c)
					for _, s := range x.Body.List {
						if as, ok := s.(*ast.AssignStmt); ok && len(as.Lhs) == 1 && len(as.Rhs) == 1 {
							newAssign = append(newAssign, exprStr(as.Lhs[0])+as.Tok.String()+exprStr(as.Rhs[0]))
						}
					}
				} else {
					putGuards = append(putGuards, c)
				}
			}
			return true
		})
	}
	if defCap < 0 {
		return "", fmt.Errorf("c35 extractor: const defaultSessionCacheCapacity not found in NewLRUClientSessionCache")
	}
	q := func(l []string) string {
		var s []string
		for _, x := range l {
			s = append(s, zvx.LeanStr(x))
		}
		return "[" + strings.Join(s, ", ") + "]"
	}
	var b strings.Builder
	b.WriteString("/-! Constants and guards of tls/common.go `NewLRUClientSessionCache` / `(*lruSessionCache).Put` (go/ast). -/\n")
	b.WriteString("namespace ZV.C35.Gen\n")
	b.WriteString("/-- `const defaultSessionCacheCapacity` inside NewLRUClientSessionCache -/\n")
	b.WriteString(fmt.Sprintf("def defaultSessionCacheCapacity : Nat := %d\n", defCap))
	b.WriteString("/-- the `if` conditions of NewLRUClientSessionCache, source order -/\n")
	b.WriteString("def newGuards : List String := " + q(newGuards) + "\n")
	b.WriteString("/-- the assignments inside those `if` bodies -/\n")
	b.WriteString("def newAssigns : List String := " + q(newAssign) + "\n")
	b.WriteString("/-- the `if` conditions of (*lruSessionCache).Put, source order (nested ones follow their parent) -/\n")
	b.WriteString("def putGuards : List String := " + q(putGuards) + "\n")
	b.WriteString("end ZV.C35.Gen\n")
	return b.String(), nil
}

func init() { zvx.Register(zvx.Extractor{Name: "C35", Run: run}) }
