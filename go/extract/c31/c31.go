// Package c31 (extractor): T1 facts for C31 taken at run time from the tree through tls/zv_c31_verif.go —
// the (id, flags) rows of implementedCipherSuites, the (id, hash) rows of cipherSuitesTLS13, the flag
// constants cipherSuiteOk tests and the ticket constants.
package c31

import (
	"fmt"
	"strings"

	"github.com/zmap/zcrypto/tls"

	"zv/internal/zvx"
)

func pairs(l [][2]int) string {
	var ss []string
	for _, p := range l {
		ss = append(ss, fmt.Sprintf("(0x%04x, %d)", p[0], p[1]))
	}
	return zvx.LeanList(ss)
}

func run(repo string) (string, error) {
	t12, t13, fE, fS, f12 := tls.ZVC31SuiteTables()
	nameLen, maxLife, keyLife, keyRot, maxIDs := tls.ZVC31Consts()
	var b strings.Builder
	b.WriteString("namespace ZV.C31.Gen\n")
	b.WriteString("/-- (id, flags) of every entry of tls/cipher_suites.go implementedCipherSuites, in order -/\n")
	b.WriteString("def suiteTable : List (Nat × Nat) := " + pairs(t12) + "\n")
	b.WriteString("/-- (id, crypto.Hash) of every entry of cipherSuitesTLS13, in order -/\n")
	b.WriteString("def suiteTable13 : List (Nat × Nat) := " + pairs(t13) + "\n")
	fmt.Fprintf(&b, "def suiteECDHE : Nat := %d\ndef suiteECSign : Nat := %d\ndef suiteTLS12 : Nat := %d\n", fE, fS, f12)
	fmt.Fprintf(&b, "def ticketKeyNameLen : Nat := %d\ndef maxSessionTicketLifetimeS : Int := %d\ndef ticketKeyLifetimeS : Int := %d\ndef ticketKeyRotationS : Int := %d\ndef maxClientPSKIdentities : Nat := %d\n",
		nameLen, maxLife, keyLife, keyRot, maxIDs)
	b.WriteString("end ZV.C31.Gen\n")
	return b.String(), nil
}

func init() { zvx.Register(zvx.Extractor{Name: "C31", Run: run}) }
