// Package c24: T1 extractor for the TLS negotiation tables (run-time dump through tls/zv_c24_verif.go).
package c24

import (
	"fmt"
	"sort"
	"strings"

	"github.com/zmap/zcrypto/tls"

	"zv/internal/zvx"
)

func natList(l []uint16) string {
	s := make([]string, len(l))
	for i, v := range l {
		s[i] = fmt.Sprint(v)
	}
	return "[" + strings.Join(s, ", ") + "]"
}

func suiteRows(l []tls.ZVSuite) string {
	var rows []string
	for _, s := range l {
		rows = append(rows, fmt.Sprintf("{ id := %d, flags := %d, ka := %s, kind := %s, keyLen := %d, macLen := %d, ivLen := %d }",
			s.ID, s.Flags, zvx.LeanStr(s.KA), zvx.LeanStr(s.Kind), s.KeyLen, s.MacLen, s.IVLen))
	}
	return zvx.LeanList(rows)
}

func run(repo string) (string, error) {
	var b strings.Builder
	b.WriteString("namespace ZV.C24.Gen\n\n")
	b.WriteString("structure SuiteRow where\n  id : Nat\n  flags : Nat\n  ka : String\n  kind : String\n  keyLen : Nat\n  macLen : Nat\n  ivLen : Nat\n  deriving Repr, DecidableEq\n\n")
	fmt.Fprintf(&b, "/-- tls/common.go `supportedVersions` -/\ndef supportedVersions : List Nat := %s\n\n", natList(tls.ZVSupportedVersions()))
	bits := tls.ZVSuiteFlagBits()
	var names []string
	for k := range bits {
		names = append(names, k)
	}
	sort.Strings(names)
	for _, k := range names {
		fmt.Fprintf(&b, "def flag%s : Nat := %d\n", k, bits[k])
	}
	fmt.Fprintf(&b, "\n/-- tls/cipher_suites.go `cipherSuites` (what a client may advertise without ForceSuites) -/\ndef cipherSuites : List SuiteRow := %s\n\n", suiteRows(tls.ZVCipherSuites()))
	fmt.Fprintf(&b, "/-- tls/cipher_suites.go `implementedCipherSuites` (what `cipherSuiteByID` finds) -/\ndef implemented : List SuiteRow := %s\n\n", suiteRows(tls.ZVImplementedCipherSuites()))
	fmt.Fprintf(&b, "def cipherSuitesTLS13 : List Nat := %s\n", natList(tls.ZVCipherSuitesTLS13()))
	fmt.Fprintf(&b, "def defaultCipherSuites : List Nat := %s\n", natList(tls.ZVDefaultCipherSuites()))
	fmt.Fprintf(&b, "/-- TLS 1.3 suites whose KDF hash is SHA-384 (a PSK is bound to the hash of its suite) -/\ndef cipherSuitesTLS13SHA384 : List Nat := %s\n", natList(tls.ZVCipherSuitesTLS13SHA384()))
	fmt.Fprintf(&b, "def defaultCipherSuitesTLS13 : List Nat := %s\n", natList(tls.ZVDefaultCipherSuitesTLS13()))
	fmt.Fprintf(&b, "def hasAESGCMHardwareSupport : Bool := %v\n", tls.ZVHasAESGCMHardwareSupport())
	fmt.Fprintf(&b, "/-- `deprioritizeAES(defaultCipherSuites())` as the code computes it now -/\ndef deprioDefault : List Nat := %s\n", natList(tls.ZVDeprioritizeAES(tls.ZVDefaultCipherSuites())))
	fmt.Fprintf(&b, "def deprioDefaultTLS13 : List Nat := %s\n", natList(tls.ZVDeprioritizeAES(tls.ZVDefaultCipherSuitesTLS13())))
	// aesgcmCiphers: ids for which aesgcmPreferred([id]) holds, over every implemented / 1.3 id
	var aes []uint16
	seen := map[uint16]bool{}
	for _, s := range tls.ZVImplementedCipherSuites() {
		if !seen[s.ID] && tls.ZVAesgcmPreferred([]uint16{s.ID}) {
			aes = append(aes, s.ID)
		}
		seen[s.ID] = true
	}
	for _, id := range tls.ZVCipherSuitesTLS13() {
		if !seen[id] && tls.ZVAesgcmPreferred([]uint16{id}) {
			aes = append(aes, id)
		}
		seen[id] = true
	}
	fmt.Fprintf(&b, "/-- ids on which `aesgcmPreferred` answers true (the `aesgcmCiphers` map restricted to known suites) -/\ndef aesgcmCiphers : List Nat := %s\n", natList(aes))
	// nonAESGCMAEADCiphers: x such that deprioritizeAES([aes, x]) moves x in front of an AES-GCM id
	var nonAES []uint16
	if len(aes) > 0 {
		seen2 := map[uint16]bool{}
		all := tls.ZVCipherSuitesTLS13()
		for _, s := range tls.ZVImplementedCipherSuites() {
			all = append(all, s.ID)
		}
		for _, id := range all {
			if seen2[id] {
				continue
			}
			seen2[id] = true
			if r := tls.ZVDeprioritizeAES([]uint16{aes[0], id}); len(r) == 2 && r[0] == id && id != aes[0] {
				nonAES = append(nonAES, id)
			}
		}
	}
	fmt.Fprintf(&b, "/-- ids that `deprioritizeAES` moves in front of AES-GCM ids (`nonAESGCMAEADCiphers`) -/\ndef nonAESGCMAEADCiphers : List Nat := %s\n", natList(nonAES))
	c12, c11 := tls.ZVDowngradeCanaries()
	bl := func(s string) string {
		var x []string
		for _, c := range []byte(s) {
			x = append(x, fmt.Sprint(c))
		}
		return "[" + strings.Join(x, ", ") + "]"
	}
	fmt.Fprintf(&b, "def downgradeCanaryTLS12 : List Nat := %s\ndef downgradeCanaryTLS11 : List Nat := %s\n", bl(c12), bl(c11))
	var curves []uint16
	for _, c := range tls.ZVDefaultCurvePreferences() {
		curves = append(curves, uint16(c))
	}
	fmt.Fprintf(&b, "def defaultCurvePreferences : List Nat := %s\n", natList(curves))
	fmt.Fprintf(&b, "def fallbackSCSV : Nat := %d\n", tls.TLS_FALLBACK_SCSV)
	b.WriteString("\nend ZV.C24.Gen\n")
	return b.String(), nil
}

func init() { zvx.Register(zvx.Extractor{Name: "C24", Run: run}) }
