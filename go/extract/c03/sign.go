package c03

// T1 facts for the signer side: the OID column of both signatureAlgorithmDetails tables, the per-key-type defaults of
// both signingParamsForPublicKey functions (go/ast), oidSignatureRSAPSS, and (run time, through the verif hook)
// rsaPSSParameters(h) with what GetSignatureAlgorithmFromAI reads back from it.

import (
	"crypto"
	"errors"
	"fmt"
	"go/ast"
	"go/token"
	"strconv"
	"strings"

	"github.com/zmap/zcrypto/x509"
	"github.com/zmap/zcrypto/x509/pkix"

	"zv/internal/zvx"
)

// oidVars: every `name = asn1.ObjectIdentifier{...}` of the file.
func oidVars(f *ast.File) map[string][]int {
	out := map[string][]int{}
	ast.Inspect(f, func(n ast.Node) bool {
		vs, ok := n.(*ast.ValueSpec)
		if !ok || len(vs.Names) != 1 || len(vs.Values) != 1 {
			return true
		}
		cl, ok := vs.Values[0].(*ast.CompositeLit)
		if !ok || cl.Type == nil || identName(cl.Type) != "ObjectIdentifier" {
			return true
		}
		arcs := []int{}
		for _, e := range cl.Elts {
			bl, ok := e.(*ast.BasicLit)
			if !ok {
				return true
			}
			v, err := strconv.Atoi(bl.Value)
			if err != nil {
				return true
			}
			arcs = append(arcs, v)
		}
		out[vs.Names[0].Name] = arcs
		return true
	})
	return out
}

func leanNats(v []int) string {
	s := make([]string, len(v))
	for i, x := range v {
		s[i] = strconv.Itoa(x)
	}
	return "[" + strings.Join(s, ", ") + "]"
}

func leanBytes(v []byte) string {
	s := make([]string, len(v))
	for i, x := range v {
		s[i] = strconv.Itoa(int(x))
	}
	return "[" + strings.Join(s, ", ") + "]"
}

// detailsOid: rows (algo, oid, key algorithm, hash) of signatureAlgorithmDetails, in table order.
func detailsOid(fset *token.FileSet, f *ast.File, algo map[string]int, oids map[string][]int) ([]string, error) {
	var rows []string
	var err error
	ast.Inspect(f, func(n ast.Node) bool {
		vs, ok := n.(*ast.ValueSpec)
		if !ok || len(vs.Names) != 1 || vs.Names[0].Name != "signatureAlgorithmDetails" || len(vs.Values) != 1 {
			return true
		}
		cl, ok := vs.Values[0].(*ast.CompositeLit)
		if !ok {
			return true
		}
		for _, el := range cl.Elts {
			row, ok := el.(*ast.CompositeLit)
			if !ok || len(row.Elts) != 4 {
				err = errors.New("unexpected signatureAlgorithmDetails row shape")
				return false
			}
			a, ok := algo[identName(row.Elts[0])]
			if !ok {
				err = fmt.Errorf("unknown algorithm %s", identName(row.Elts[0]))
				return false
			}
			oid, ok := oids[identName(row.Elts[1])]
			if !ok {
				err = fmt.Errorf("unknown oid variable %s", identName(row.Elts[1]))
				return false
			}
			h, e2 := hashOf(fset, row.Elts[3])
			if e2 != nil {
				err = e2
				return false
			}
			rows = append(rows, fmt.Sprintf("(%d, %s, %s, %d)", a, leanNats(oid), zvx.LeanStr(identName(row.Elts[2])), h))
		}
		return false
	})
	return rows, err
}

type dflt struct {
	fam        string
	hash       int
	hashSet    bool
	oid        []int
	oidSet     bool
	nullParams bool
	shouldHash bool
}

// collect the plain assignments of a case body into d
func (d *dflt) collect(fset *token.FileSet, body []ast.Stmt, oids map[string][]int) error {
	for _, st := range body {
		as, ok := st.(*ast.AssignStmt)
		if !ok || len(as.Lhs) != 1 || len(as.Rhs) != 1 {
			continue
		}
		lhs, rhs := src(fset, as.Lhs[0]), src(fset, as.Rhs[0])
		switch lhs {
		case "pubType":
			d.fam = identName(as.Rhs[0])
		case "hashFunc":
			h, err := hashOf(fset, as.Rhs[0])
			if err != nil {
				return err
			}
			d.hash, d.hashSet = h, true
		case "sigAlgo.Algorithm":
			o, ok := oids[identName(as.Rhs[0])]
			if !ok {
				return fmt.Errorf("unknown oid variable %s", rhs)
			}
			d.oid, d.oidSet = o, true
		case "sigAlgo.Parameters":
			r := strings.Join(strings.Fields(rhs), " ")
			if r != "asn1.NullRawValue" && !strings.Contains(r, "Tag: 5") {
				return fmt.Errorf("unrecognised default parameters %q", r)
			}
			d.nullParams = true
		case "shouldHash":
			if rhs != "false" {
				return fmt.Errorf("unrecognised shouldHash assignment %q", rhs)
			}
			d.shouldHash = false
		case "_", "err":
		default:
			return fmt.Errorf("unrecognised assignment to %s in signingParamsForPublicKey", lhs)
		}
	}
	return nil
}

func (d dflt) row(label string) (string, error) {
	if d.fam == "" || !d.hashSet || !d.oidSet {
		return "", fmt.Errorf("signingParamsForPublicKey arm %s does not set pubType / hashFunc / sigAlgo.Algorithm", label)
	}
	return fmt.Sprintf("(%s, %s, %d, %s, %v, %v)", zvx.LeanStr(label), zvx.LeanStr(d.fam), d.hash, leanNats(d.oid), d.nullParams, d.shouldHash), nil
}

// signDefaults: the type switch (and the nested curve switch) of signingParamsForPublicKey:
// (label, key algorithm, default hash, default oid, NULL parameters?, shouldHash).
// Labels: the Go type as written, for ECDSA followed by ":" and the curve (P224, ...).
func signDefaults(fset *token.FileSet, f *ast.File, oids map[string][]int) ([]string, error) {
	fd := findFunc(f, "signingParamsForPublicKey")
	if fd == nil {
		return nil, errors.New("signingParamsForPublicKey not found")
	}
	var ts *ast.TypeSwitchStmt
	for _, st := range fd.Body.List {
		if s, ok := st.(*ast.TypeSwitchStmt); ok {
			ts = s
			break
		}
	}
	if ts == nil {
		return nil, errors.New("signingParamsForPublicKey: type switch not found")
	}
	var rows []string
	for _, c := range ts.Body.List {
		cc := c.(*ast.CaseClause)
		if cc.List == nil {
			continue
		}
		if len(cc.List) != 1 {
			return nil, errors.New("signingParamsForPublicKey: arm with several types")
		}
		label := src(fset, cc.List[0])
		base := dflt{shouldHash: true}
		if err := base.collect(fset, cc.Body, oids); err != nil {
			return nil, err
		}
		var inner *ast.SwitchStmt
		for _, st := range cc.Body {
			if s, ok := st.(*ast.SwitchStmt); ok {
				inner = s
			}
		}
		if inner == nil {
			r, err := base.row(label)
			if err != nil {
				return nil, err
			}
			rows = append(rows, r)
			continue
		}
		if src(fset, inner.Tag) != "pub.Curve" {
			return nil, fmt.Errorf("unexpected nested switch on %s", src(fset, inner.Tag))
		}
		for _, ic := range inner.Body.List {
			icc := ic.(*ast.CaseClause)
			if icc.List == nil {
				continue
			}
			d := base
			if err := d.collect(fset, icc.Body, oids); err != nil {
				return nil, err
			}
			for _, e := range icc.List {
				cn := strings.TrimSuffix(strings.TrimPrefix(src(fset, e), "elliptic."), "()")
				r, err := d.row(label + ":" + cn)
				if err != nil {
					return nil, err
				}
				rows = append(rows, r)
			}
		}
	}
	return rows, nil
}

// pssRows: (hash, rsaPSSParameters(hash), GetSignatureAlgorithmFromAI{oidSignatureRSAPSS, those parameters}) for every
// hash id 1..19 on which rsaPSSParameters does not panic.
func pssRows(pssOid []int) []string {
	var rows []string
	for h := 1; h < 20; h++ {
		func() {
			defer func() { recover() }()
			if !crypto.Hash(h).Available() {
				return
			}
			p := x509.ZVC03RSAPSSParameters(crypto.Hash(h))
			ai := pkix.AlgorithmIdentifier{Algorithm: pssOid}
			ai.Parameters.FullBytes = p
			rows = append(rows, fmt.Sprintf("(%d, %s, %d)", h, leanBytes(p), int(x509.GetSignatureAlgorithmFromAI(ai))))
		}()
	}
	return rows
}
