// Package c03 (extractor): T1 facts for C03.
//   go/ast:   the SignatureAlgorithm enumeration, the algorithm→hash switch and the key-type switch of
//             x509.CheckSignatureFromKey (with, per arm, whether trailing bytes after the DER signature are rejected),
//             isRSAPSS, and the signatureAlgorithmDetails tables of x509 and ocsp;
//   run time: for every (creation API, requested algorithm, key type): whether the API accepts it, the algorithm
//             identifier it writes into the object, and the scheme (PKCS#1 v1.5 / PSS, hash) it REALLY asks the signer for.
package c03

import (
	"crypto"
	"crypto/ecdsa"
	"crypto/ed25519"
	"crypto/elliptic"
	"crypto/rand"
	"errors"
	"fmt"
	"go/ast"
	"go/parser"
	"go/printer"
	"go/token"
	"path/filepath"
	"strings"

	zrsa "github.com/zmap/zcrypto/rsa"
	"github.com/zmap/zcrypto/x509"

	"zv/internal/zvx"
	"zv/props/c03/c03api"
)

var hashIDs = map[string]int{"MD5": int(crypto.MD5), "SHA1": int(crypto.SHA1), "SHA224": int(crypto.SHA224), "SHA256": int(crypto.SHA256),
	"SHA384": int(crypto.SHA384), "SHA512": int(crypto.SHA512)}

func src(fset *token.FileSet, n ast.Node) string {
	var b strings.Builder
	printer.Fprint(&b, fset, n)
	return b.String()
}

func findFunc(f *ast.File, name string) *ast.FuncDecl {
	for _, d := range f.Decls {
		if fd, ok := d.(*ast.FuncDecl); ok && fd.Name.Name == name {
			return fd
		}
	}
	return nil
}

func identName(e ast.Expr) string {
	switch x := e.(type) {
	case *ast.Ident:
		return x.Name
	case *ast.SelectorExpr:
		return x.Sel.Name
	}
	return "?"
}

// hashOf renders a hash expression (crypto.SHA256, crypto.Hash(0), cryptoNoDigest, 0) as an id.
func hashOf(fset *token.FileSet, e ast.Expr) (int, error) {
	s := src(fset, e)
	s = strings.TrimPrefix(s, "crypto.")
	if id, ok := hashIDs[s]; ok {
		return id, nil
	}
	if s == "0" || s == "cryptoNoDigest" || strings.HasPrefix(s, "Hash(0)") {
		return 0, nil
	}
	return 0, fmt.Errorf("unknown hash expression %q", s)
}

func details(fset *token.FileSet, f *ast.File, algo map[string]int) ([]string, error) {
	var rows []string
	var err error
	ast.Inspect(f, func(n ast.Node) bool {
		vs, ok := n.(*ast.ValueSpec)
		if !ok || len(vs.Names) != 1 || vs.Names[0].Name != "signatureAlgorithmDetails" || len(vs.Values) != 1 {
			return true
		}
		cl, ok := vs.Values[0].(*ast.CompositeLit)
		if !ok {
			return true
		}
		for _, el := range cl.Elts {
			row, ok := el.(*ast.CompositeLit)
			if !ok || len(row.Elts) != 4 {
				err = errors.New("unexpected signatureAlgorithmDetails row shape")
				return false
			}
			a, ok := algo[identName(row.Elts[0])]
			if !ok {
				err = fmt.Errorf("unknown algorithm %s", identName(row.Elts[0]))
				return false
			}
			h, e2 := hashOf(fset, row.Elts[3])
			if e2 != nil {
				err = e2
				return false
			}
			rows = append(rows, fmt.Sprintf("(%d, %s, %d)", a, zvx.LeanStr(identName(row.Elts[2])), h))
		}
		return false
	})
	return rows, err
}

type namedKey struct {
	name string
	key  crypto.Signer
}

func run(repo string) (string, error) {
	fset := token.NewFileSet()
	xf, err := parser.ParseFile(fset, filepath.Join(repo, "x509", "x509.go"), nil, 0)
	if err != nil {
		return "", err
	}
	of, err := parser.ParseFile(fset, filepath.Join(repo, "x509", "revocation", "ocsp", "ocsp.go"), nil, 0)
	if err != nil {
		return "", err
	}
	// --- enumeration
	algo := map[string]int{}
	var names []string
	for _, d := range xf.Decls {
		gd, ok := d.(*ast.GenDecl)
		if !ok || gd.Tok != token.CONST || len(gd.Specs) == 0 {
			continue
		}
		first := gd.Specs[0].(*ast.ValueSpec)
		if first.Names[0].Name != "UnknownSignatureAlgorithm" {
			continue
		}
		for i, s := range gd.Specs {
			n := s.(*ast.ValueSpec).Names[0].Name
			algo[n] = i
			names = append(names, fmt.Sprintf("(%d, %s)", i, zvx.LeanStr(n)))
		}
	}
	if len(algo) == 0 {
		return "", errors.New("SignatureAlgorithm const block not found")
	}
	// --- CheckSignatureFromKey
	fd := findFunc(xf, "CheckSignatureFromKey")
	if fd == nil {
		return "", errors.New("CheckSignatureFromKey not found")
	}
	var vh, keyCases []string
	seenSwitch := false
	for _, st := range fd.Body.List {
		switch s := st.(type) {
		case *ast.SwitchStmt:
			if seenSwitch {
				continue
			}
			seenSwitch = true
			for _, c := range s.Body.List {
				cc := c.(*ast.CaseClause)
				body := ""
				for _, b := range cc.Body {
					body += src(fset, b) + "\n"
				}
				val := ""
				switch {
				case cc.List == nil:
					if !strings.Contains(body, "ErrUnsupportedAlgorithm") {
						return "", errors.New("default arm of the algorithm switch is not 'unsupported'")
					}
					continue
				case strings.Contains(body, "InsecureAlgorithmError"):
					val = "none"
				case strings.HasPrefix(strings.TrimSpace(body), "hashType ="):
					as := cc.Body[0].(*ast.AssignStmt)
					h, err := hashOf(fset, as.Rhs[0])
					if err != nil {
						return "", err
					}
					val = fmt.Sprintf("some %d", h)
				default:
					return "", fmt.Errorf("unrecognised arm of the algorithm switch: %s", body)
				}
				for _, e := range cc.List {
					a, ok := algo[identName(e)]
					if !ok {
						return "", fmt.Errorf("unknown algorithm %s", identName(e))
					}
					vh = append(vh, fmt.Sprintf("(%d, %s)", a, val))
				}
			}
		case *ast.TypeSwitchStmt:
			for _, c := range s.Body.List {
				cc := c.(*ast.CaseClause)
				body := ""
				for _, b := range cc.Body {
					body += src(fset, b) + "\n"
				}
				for _, e := range cc.List {
					keyCases = append(keyCases, fmt.Sprintf("(%s, %v)", zvx.LeanStr(src(fset, e)), strings.Contains(body, "len(rest) != 0")))
				}
			}
		}
	}
	// --- isRSAPSS
	var pss []string
	if pf := findFunc(xf, "isRSAPSS"); pf != nil {
		ast.Inspect(pf, func(n ast.Node) bool {
			if cc, ok := n.(*ast.CaseClause); ok && cc.List != nil && len(cc.Body) == 1 && strings.Contains(src(fset, cc.Body[0]), "true") {
				for _, e := range cc.List {
					pss = append(pss, fmt.Sprint(algo[identName(e)]))
				}
			}
			return true
		})
	}
	xd, err := details(fset, xf, algo)
	if err != nil {
		return "", err
	}
	od, err := details(fset, of, algo)
	if err != nil {
		return "", err
	}
	// --- signer side: OID columns, defaults of signingParamsForPublicKey, RSA-PSS parameters
	xo, oo := oidVars(xf), oidVars(of)
	xdo, err := detailsOid(fset, xf, algo, xo)
	if err != nil {
		return "", err
	}
	odo, err := detailsOid(fset, of, algo, oo)
	if err != nil {
		return "", err
	}
	xsd, err := signDefaults(fset, xf, xo)
	if err != nil {
		return "", fmt.Errorf("x509: %v", err)
	}
	osd, err := signDefaults(fset, of, oo)
	if err != nil {
		return "", fmt.Errorf("ocsp: %v", err)
	}
	pssOid, ok := xo["oidSignatureRSAPSS"]
	if !ok {
		return "", errors.New("oidSignatureRSAPSS not found")
	}
	// --- run time: what the creation APIs do
	rk, err := zrsa.GenerateKey(rand.Reader, 2048)
	if err != nil {
		return "", err
	}
	e256, _ := ecdsa.GenerateKey(elliptic.P256(), rand.Reader)
	e384, _ := ecdsa.GenerateKey(elliptic.P384(), rand.Reader)
	_, ed, _ := ed25519.GenerateKey(rand.Reader)
	keys := []namedKey{{"rsa", rk}, {"ecdsa-p256", e256}, {"ecdsa-p384", e384}, {"ed25519", ed}}
	var signRows, refused []string
	for _, api := range c03api.APIs {
		for _, nk := range keys {
			iss, err := c03api.Issuer(nk.key)
			if err != nil {
				return "", fmt.Errorf("issuer for %s: %v", nk.name, err)
			}
			for a := 0; a < len(algo)+1; a++ {
				rec := &c03api.Recorder{Inner: nk.key}
				m, err := c03api.Make(api, x509.SignatureAlgorithm(a), rec, iss)
				if err != nil {
					if errors.Is(err, c03api.ErrCreate) {
						refused = append(refused, fmt.Sprintf("(%s, %d, %s)", zvx.LeanStr(api), a, zvx.LeanStr(nk.name)))
						continue
					}
					return "", fmt.Errorf("%s/%d/%s: created object does not parse: %v", api, a, nk.name, err)
				}
				signRows = append(signRows, fmt.Sprintf("(%s, %d, %s, %d, %v, %d)", zvx.LeanStr(api), a, zvx.LeanStr(nk.name), int(m.Written), rec.PSS, int(rec.Hash)))
			}
		}
	}
	var b strings.Builder
	b.WriteString("import ZV.Base\nnamespace ZV.Gen.C03\n")
	w := func(doc, name, ty string, rows []string) {
		b.WriteString("/-- " + doc + " -/\ndef " + name + " : List " + ty + " := " + zvx.LeanList(rows) + "\n")
	}
	w("x509.SignatureAlgorithm constants (value, name)", "algoNames", "(Nat × String)", names)
	w("first switch of x509.CheckSignatureFromKey: algorithm ↦ `some hash id` (0 = sign the message itself) | `none` = InsecureAlgorithmError; absent = ErrUnsupportedAlgorithm", "verifyHash", "(Nat × Option Nat)", vh)
	w("SignatureAlgorithm.isRSAPSS", "pssAlgos", "Nat", pss)
	w("arms of the key type switch of CheckSignatureFromKey, in order, with: does the arm reject bytes after the DER signature (`len(rest) != 0`)", "keyCases", "(String × Bool)", keyCases)
	w("x509 signatureAlgorithmDetails (algo, key algorithm, hash)", "x509Details", "(Nat × String × Nat)", xd)
	w("ocsp signatureAlgorithmDetails (algo, key algorithm, hash)", "ocspDetails", "(Nat × String × Nat)", od)
	w("x509 signatureAlgorithmDetails with the OID column (algo, oid, key algorithm, hash)", "x509DetailsOid", "(Nat × List Nat × String × Nat)", xdo)
	w("ocsp signatureAlgorithmDetails with the OID column (algo, oid, key algorithm, hash)", "ocspDetailsOid", "(Nat × List Nat × String × Nat)", odo)
	w("x509 signingParamsForPublicKey, type switch and nested curve switch: (Go type[:curve], key algorithm, default hash, default oid, NULL parameters?, shouldHash)", "x509SignDefaults", "(String × String × Nat × List Nat × Bool × Bool)", xsd)
	w("ocsp signingParamsForPublicKey, type switch and nested curve switch: (Go type[:curve], key algorithm, default hash, default oid, NULL parameters?, shouldHash)", "ocspSignDefaults", "(String × String × Nat × List Nat × Bool × Bool)", osd)
	b.WriteString("/-- oidSignatureRSAPSS -/\ndef pssOid : List Nat := " + leanNats(pssOid) + "\n")
	w("run time: (hash, rsaPSSParameters(hash).FullBytes, GetSignatureAlgorithmFromAI{oidSignatureRSAPSS, those parameters}) for every hash on which rsaPSSParameters does not panic", "pssParams", "(Nat × List Nat × Nat)", pssRows(pssOid))
	w("accepted (api, requested algorithm, key type): algorithm written into the object, PSS options passed to the signer?, hash passed to the signer", "signRows", "(String × Nat × String × Nat × Bool × Nat)", signRows)
	w("(api, requested algorithm, key type) refused by the creation API", "refusedRows", "(String × Nat × String)", refused)
	b.WriteString("end ZV.Gen.C03\n")
	return b.String(), nil
}

func init() { zvx.Register(zvx.Extractor{Name: "C03", Run: run}) }
