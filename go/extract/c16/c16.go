// Package c16 (extractor): T1 facts for C16 — the length-prefix sizes, size limits and enum values of
// packages ct and x509/ct (read at run time from the tree the harness is built against), and the two
// literals that are not named constants (go/ast): the minimum RSA modulus size NewSignatureVerifier
// accepts and the fixed part of SignedCertificateTimestamp.SerializedLength.
package c16

import (
	"fmt"
	"go/ast"
	"go/parser"
	"go/token"
	"path/filepath"
	"strconv"
	"strings"

	"github.com/zmap/zcrypto/ct"
	xct "github.com/zmap/zcrypto/x509/ct"

	"zv/internal/zvx"
)

func findFunc(f *ast.File, name string) *ast.FuncDecl {
	for _, d := range f.Decls {
		if fd, ok := d.(*ast.FuncDecl); ok && fd.Name.Name == name {
			return fd
		}
	}
	return nil
}

// the literal x of the first comparison `….BitLen() < x` in NewSignatureVerifier
func minRSABits(repo string) (int, error) {
	fs := token.NewFileSet()
	f, err := parser.ParseFile(fs, filepath.Join(repo, "ct", "signatures.go"), nil, 0)
	if err != nil {
		return 0, err
	}
	fd := findFunc(f, "NewSignatureVerifier")
	if fd == nil {
		return 0, fmt.Errorf("NewSignatureVerifier not found")
	}
	res, found := 0, false
	ast.Inspect(fd, func(n ast.Node) bool {
		be, ok := n.(*ast.BinaryExpr)
		if !ok || found || be.Op != token.LSS {
			return true
		}
		call, ok := be.X.(*ast.CallExpr)
		if !ok {
			return true
		}
		sel, ok := call.Fun.(*ast.SelectorExpr)
		lit, ok2 := be.Y.(*ast.BasicLit)
		if ok && ok2 && sel.Sel.Name == "BitLen" {
			res, _ = strconv.Atoi(lit.Value)
			found = true
		}
		return true
	})
	if !found {
		return 0, fmt.Errorf("no `BitLen() < literal` comparison in NewSignatureVerifier")
	}
	return res, nil
}

// sum of the integer literals of the first `return a + b + … , nil` in SerializedLength (V1 case) and the number of identifiers
func sctFixedLen(repo string) (int, int, error) {
	fs := token.NewFileSet()
	f, err := parser.ParseFile(fs, filepath.Join(repo, "ct", "serialization.go"), nil, 0)
	if err != nil {
		return 0, 0, err
	}
	fd := findFunc(f, "SerializedLength")
	if fd == nil {
		return 0, 0, fmt.Errorf("SerializedLength not found")
	}
	sum, idents, found := 0, 0, false
	var walk func(e ast.Expr) bool
	walk = func(e ast.Expr) bool {
		switch x := e.(type) {
		case *ast.BinaryExpr:
			return x.Op == token.ADD && walk(x.X) && walk(x.Y)
		case *ast.BasicLit:
			v, err := strconv.Atoi(x.Value)
			sum += v
			return err == nil
		case *ast.Ident:
			idents++
			return true
		case *ast.ParenExpr:
			return walk(x.X)
		}
		return false
	}
	ast.Inspect(fd, func(n ast.Node) bool {
		rs, ok := n.(*ast.ReturnStmt)
		if !ok || found || len(rs.Results) != 2 {
			return true
		}
		if _, isSum := rs.Results[0].(*ast.BinaryExpr); isSum {
			sum, idents = 0, 0
			if walk(rs.Results[0]) {
				found = true
			}
		}
		return true
	})
	if !found {
		return 0, 0, fmt.Errorf("no sum of literals and identifiers returned by SerializedLength")
	}
	return sum, idents, nil
}

func run(repo string) (string, error) {
	var b strings.Builder
	b.WriteString("/-! T1 facts of C16: constants of ct/serialization.go, ct/types.go, ct/signatures.go and of the x509/ct twin. -/\n")
	b.WriteString("namespace ZV.C16.Gen\n")
	def := func(name string, v int, doc string) {
		fmt.Fprintf(&b, "/-- %s -/\ndef %s : Nat := %d\n", doc, name, v)
	}
	def("certificateLengthBytes", ct.CertificateLengthBytes, "ct.CertificateLengthBytes")
	def("preCertificateLengthBytes", ct.PreCertificateLengthBytes, "ct.PreCertificateLengthBytes")
	def("extensionsLengthBytes", ct.ExtensionsLengthBytes, "ct.ExtensionsLengthBytes")
	def("certificateChainLengthBytes", ct.CertificateChainLengthBytes, "ct.CertificateChainLengthBytes")
	def("signatureLengthBytes", ct.SignatureLengthBytes, "ct.SignatureLengthBytes")
	def("xSignatureLengthBytes", xct.SignatureLengthBytes, "x509/ct.SignatureLengthBytes")
	def("xExtensionsLengthBytes", xct.ExtensionsLengthBytes, "x509/ct.ExtensionsLengthBytes")
	def("maxCertificateLength", ct.MaxCertificateLength, "ct.MaxCertificateLength")
	def("maxExtensionsLength", ct.MaxExtensionsLength, "ct.MaxExtensionsLength")
	def("v1", int(ct.V1), "ct.V1")
	def("xV1", int(xct.V1), "x509/ct.V1")
	def("x509LogEntryType", int(ct.X509LogEntryType), "ct.X509LogEntryType")
	def("precertLogEntryType", int(ct.PrecertLogEntryType), "ct.PrecertLogEntryType")
	def("timestampedEntryLeafType", int(ct.TimestampedEntryLeafType), "ct.TimestampedEntryLeafType")
	def("certificateTimestampSignatureType", int(ct.CertificateTimestampSignatureType), "ct.CertificateTimestampSignatureType")
	def("treeHashSignatureType", int(ct.TreeHashSignatureType), "ct.TreeHashSignatureType")
	def("hashSHA256", int(ct.SHA256), "ct.SHA256 (HashAlgorithm)")
	def("sigRSA", int(ct.RSA), "ct.RSA (SignatureAlgorithm)")
	def("sigECDSA", int(ct.ECDSA), "ct.ECDSA (SignatureAlgorithm)")
	var p ct.PreCert
	def("issuerKeyHashLength", len(p.IssuerKeyHash), "len(ct.PreCert{}.IssuerKeyHash)")
	var h ct.SHA256Hash
	def("sha256HashLength", len(h), "len(ct.SHA256Hash{})")
	n, err := minRSABits(repo)
	if err != nil {
		return "", err
	}
	def("minRSABits", n, "ct/signatures.go NewSignatureVerifier: `pkType.N.BitLen() < …` (go/ast)")
	s, ids, err := sctFixedLen(repo)
	if err != nil {
		return "", err
	}
	def("sctFixedLen", s, "ct/serialization.go SerializedLength: sum of the literals of the V1 length (go/ast)")
	def("sctVarTerms", ids, "… and the number of variable terms in that sum (extLen, sigLen)")
	rows := func(name, doc string, f func(i int) (string, string)) {
		var r []string
		for i := 0; i < 8; i++ {
			a, x := f(i)
			r = append(r, fmt.Sprintf("(%d, %s.toList, %s.toList)", i, zvx.LeanStr(a), zvx.LeanStr(x)))
		}
		fmt.Fprintf(&b, "/-- %s -/\ndef %s : List (Nat × List Char × List Char) := %s\n", doc, name, zvx.LeanList(r))
	}
	rows("hashNames", "HashAlgorithm(i).String() in ct and in x509/ct, i = 0..7", func(i int) (string, string) {
		return ct.HashAlgorithm(i).String(), xct.HashAlgorithm(i).String()
	})
	rows("sigNames", "SignatureAlgorithm(i).String() in ct and in x509/ct, i = 0..7", func(i int) (string, string) {
		return ct.SignatureAlgorithm(i).String(), xct.SignatureAlgorithm(i).String()
	})
	b.WriteString("end ZV.C16.Gen\n")
	return b.String(), nil
}

func init() { zvx.Register(zvx.Extractor{Name: "C16", Run: run}) }
