// Package c20 (extractor): T1 inventory for C20 — every syntactic occurrence of the identifier
// AllowPermissiveParsing in encoding/asn1/asn1.go and x509/x509.go of the tree under test, read with go/ast:
// (file base name, enclosing function, ordinal of the occurrence within that function, polarity).
//
// Polarity classifies the innermost enclosing condition of the occurrence:
//
//	"strict-guard"          `if !flag { B }` / `if … && !flag { B }`, no else, and B is REJECT-ONLY: it consists only of
//	                        `return …`, assignments to an error variable, and if/for/range statements (without else) whose
//	                        bodies are reject-only — the branch can only add a rejection in strict mode
//	"perm-guard/on-error"   `if flag { B }` (no else) lexically inside the then-block of an `if <e>rr != nil`, or
//	                        `if <e>rr != nil && flag { B }` (no else), AND the strict continuation rejects: the statements
//	                        following the if inside that error block (resp. the next statement `if <e>rr != nil {…}`) are
//	                        reject-only and end in `return` — B runs only where strict mode fails
//	"perm-guard/plain"      `if flag { B }` (no else) not on an error path: B may change results strict mode accepts
//	"other:<description>"   anything else (else-branch present, assignment to the flag, other expression shapes, a
//	                        strict-guard whose body is not reject-only, an on-error perm-guard whose strict continuation
//	                        does not reject, …) — meant to break the equality theorem in Lean
//
// No line numbers are emitted (they move).  The `var` declaration itself is reported separately (permissiveDecl).
package c20

import (
	"bytes"
	"fmt"
	"go/ast"
	"go/parser"
	"go/printer"
	"go/token"
	"path/filepath"
	"strings"

	"zv/internal/zvx"
)

const flagName = "AllowPermissiveParsing"

var files = []string{"encoding/asn1/asn1.go", "x509/x509.go"}

type site struct {
	file, fn string
	ord      int
	polarity string
	cond     string
}

type ex struct {
	fset *token.FileSet
}

func (e *ex) src(n ast.Node) string {
	var b bytes.Buffer
	printer.Fprint(&b, e.fset, n)
	s := strings.Join(strings.Fields(b.String()), " ")
	if len(s) > 100 {
		s = s[:100] + "…"
	}
	return s
}

func isErrIdent(x ast.Expr) bool {
	id, ok := x.(*ast.Ident)
	return ok && strings.HasSuffix(strings.ToLower(id.Name), "err")
}

// `<e>rr != nil`
func isErrNotNil(x ast.Expr) bool {
	b, ok := unparen(x).(*ast.BinaryExpr)
	if !ok || b.Op != token.NEQ {
		return false
	}
	id, ok := b.Y.(*ast.Ident)
	return ok && id.Name == "nil" && isErrIdent(b.X)
}

func unparen(x ast.Expr) ast.Expr {
	for {
		p, ok := x.(*ast.ParenExpr)
		if !ok {
			return x
		}
		x = p.X
	}
}

// conjuncts of an &&-chain
func conjuncts(x ast.Expr) []ast.Expr {
	x = unparen(x)
	if b, ok := x.(*ast.BinaryExpr); ok && b.Op == token.LAND {
		return append(conjuncts(b.X), conjuncts(b.Y)...)
	}
	return []ast.Expr{x}
}

// rejectOnly: the statements can only reject (return / set an error / guarded or looped versions of that).
func rejectOnly(stmts []ast.Stmt) bool {
	for _, s := range stmts {
		switch s := s.(type) {
		case *ast.ReturnStmt:
		case *ast.AssignStmt:
			for _, l := range s.Lhs {
				if !isErrIdent(l) {
					return false
				}
			}
		case *ast.IfStmt:
			if s.Else != nil || !rejectOnly(s.Body.List) {
				return false
			}
			if s.Init != nil {
				if a, ok := s.Init.(*ast.AssignStmt); !ok || a.Tok != token.DEFINE {
					return false
				}
			}
		case *ast.RangeStmt:
			if s.Tok == token.ASSIGN || !rejectOnly(s.Body.List) {
				return false
			}
		case *ast.ForStmt:
			if !rejectOnly(s.Body.List) {
				return false
			}
		case *ast.EmptyStmt:
		default:
			return false
		}
	}
	return true
}

func endsInReturn(stmts []ast.Stmt) bool {
	if len(stmts) == 0 {
		return false
	}
	_, ok := stmts[len(stmts)-1].(*ast.ReturnStmt)
	return ok
}

// stmtsAfter returns the statements following s in the block that directly contains it.
func stmtsAfter(stack []ast.Node, s ast.Stmt) ([]ast.Stmt, ast.Node) {
	for i := len(stack) - 1; i >= 0; i-- {
		var list []ast.Stmt
		switch b := stack[i].(type) {
		case *ast.BlockStmt:
			list = b.List
		case *ast.CaseClause:
			list = b.Body
		case *ast.CommClause:
			list = b.Body
		default:
			continue
		}
		for j, t := range list {
			if t == s {
				var owner ast.Node
				if i > 0 {
					owner = stack[i-1]
				}
				return list[j+1:], owner
			}
		}
	}
	return nil, nil
}

// classify: stack[len-1] is the flag expression (Ident or SelectorExpr); stack holds its ancestors, outermost first.
func (e *ex) classify(stack []ast.Node) (pol, cond string) {
	i := len(stack) - 1
	up := func() ast.Node {
		i--
		for i >= 0 {
			if _, ok := stack[i].(*ast.ParenExpr); !ok {
				break
			}
			i--
		}
		if i < 0 {
			return nil
		}
		return stack[i]
	}
	cur := stack[i].(ast.Expr)
	p := up()
	neg := false
	if u, ok := p.(*ast.UnaryExpr); ok && u.Op == token.NOT {
		neg, cur = true, u
		p = up()
	}
	conj := false
	for {
		b, ok := p.(*ast.BinaryExpr)
		if !ok || b.Op != token.LAND {
			break
		}
		conj, cur = true, b
		p = up()
	}
	ifs, ok := p.(*ast.IfStmt)
	if !ok || unparen(ifs.Cond) != unparen(cur) {
		switch q := p.(type) {
		case *ast.AssignStmt:
			for _, l := range q.Lhs {
				if unparen(l) == unparen(cur) {
					return "other:assignment-to-flag", e.src(q)
				}
			}
			return "other:flag-read-in-assignment", e.src(q)
		case *ast.BinaryExpr:
			return "other:operand-of-" + q.Op.String(), e.src(q)
		case *ast.IfStmt:
			return "other:if-init-or-non-condition", e.src(q.Cond)
		case nil:
			return "other:top-level", ""
		}
		return "other:" + strings.TrimPrefix(fmt.Sprintf("%T", p), "*ast."), e.src(p)
	}
	cond = e.src(ifs.Cond)
	ifIdx := i
	if ifs.Else != nil {
		d := "other:if-else"
		if eb, ok := ifs.Else.(*ast.BlockStmt); ok && !neg && rejectOnly(eb.List) && endsInReturn(eb.List) {
			d += "/perm-then/else-rejects"
		} else if neg {
			d += "/negated"
		}
		return d, cond
	}
	if neg {
		if !rejectOnly(ifs.Body.List) {
			return "other:strict-guard-body-not-reject-only", cond
		}
		return "strict-guard", cond
	}
	// positive use: perm-guard
	if conj {
		hasErr := false
		for _, c := range conjuncts(ifs.Cond) {
			if isErrNotNil(c) {
				hasErr = true
			} else if unparen(c) != unparen(stack[len(stack)-1].(ast.Expr)) {
				return "other:perm-guard-conjoined-with:" + e.src(c), cond
			}
		}
		if hasErr {
			// strict continuation: the next statement must be `if <e>rr != nil { reject }`
			rest, _ := stmtsAfter(stack[:ifIdx], ifs)
			if len(rest) > 0 {
				if nx, ok := rest[0].(*ast.IfStmt); ok && nx.Else == nil && isErrNotNil(nx.Cond) && rejectOnly(nx.Body.List) && endsInReturn(nx.Body.List) {
					return "perm-guard/on-error", cond
				}
			}
			return "other:perm-guard-on-error-but-strict-continues", cond
		}
	}
	// lexically inside the then-block of an `if <e>rr != nil`, directly (not through a loop or closure in between)
	rest, owner := stmtsAfter(stack[:ifIdx], ifs)
	if oi, ok := owner.(*ast.IfStmt); ok {
		onErr := false
		for _, c := range conjuncts(oi.Cond) {
			if isErrNotNil(c) {
				onErr = true
			}
		}
		inThen := false
		for _, s := range oi.Body.List {
			if s == ast.Stmt(ifs) {
				inThen = true
			}
		}
		if onErr && inThen {
			if rejectOnly(rest) && endsInReturn(rest) {
				return "perm-guard/on-error", cond
			}
			return "other:perm-guard-on-error-but-strict-continues", cond
		}
	}
	return "perm-guard/plain", cond
}

func funcName(d *ast.FuncDecl) string {
	if d.Recv != nil && len(d.Recv.List) == 1 {
		t := d.Recv.List[0].Type
		if s, ok := t.(*ast.StarExpr); ok {
			t = s.X
		}
		if id, ok := t.(*ast.Ident); ok {
			return id.Name + "." + d.Name.Name
		}
	}
	return d.Name.Name
}

// ekuTable reads x509/extended_key_usage.go: the string constants OID_EKU_… and every assignment
// `ekuConstants[<const>] = …` (the map extKeyUsageFromOID looks an OID up in, by its dotted string); result: the dotted
// keys in source order, and the source text of extKeyUsageFromOID's body (x509.go).
func ekuTable(repo string) (keys []string, lookup string, err error) {
	fset := token.NewFileSet()
	f, err := parser.ParseFile(fset, filepath.Join(repo, "x509/extended_key_usage.go"), nil, 0)
	if err != nil {
		return nil, "", err
	}
	consts := map[string]string{}
	for _, d := range f.Decls {
		gd, ok := d.(*ast.GenDecl)
		if !ok || gd.Tok != token.CONST {
			continue
		}
		for _, sp := range gd.Specs {
			vs := sp.(*ast.ValueSpec)
			for k, n := range vs.Names {
				if k < len(vs.Values) {
					if bl, ok := vs.Values[k].(*ast.BasicLit); ok && bl.Kind == token.STRING {
						consts[n.Name] = strings.Trim(bl.Value, "\"`")
					}
				}
			}
		}
	}
	ast.Inspect(f, func(n ast.Node) bool {
		as, ok := n.(*ast.AssignStmt)
		if !ok || len(as.Lhs) != 1 {
			return true
		}
		ix, ok := as.Lhs[0].(*ast.IndexExpr)
		if !ok {
			return true
		}
		if m, ok := ix.X.(*ast.Ident); !ok || m.Name != "ekuConstants" {
			return true
		}
		key := "<non-constant key>"
		switch k := ix.Index.(type) {
		case *ast.Ident:
			if v, ok := consts[k.Name]; ok {
				key = v
			}
		case *ast.BasicLit:
			key = strings.Trim(k.Value, "\"`")
		}
		keys = append(keys, key)
		return true
	})
	e := &ex{fset: token.NewFileSet()}
	g, err := parser.ParseFile(e.fset, filepath.Join(repo, "x509/x509.go"), nil, 0)
	if err != nil {
		return nil, "", err
	}
	for _, d := range g.Decls {
		if fd, ok := d.(*ast.FuncDecl); ok && fd.Name.Name == "extKeyUsageFromOID" && fd.Body != nil {
			var parts []string
			for _, st := range fd.Body.List {
				parts = append(parts, e.src(st))
			}
			lookup = strings.Join(parts, "; ")
		}
	}
	return keys, lookup, nil
}

func run(repo string) (string, error) {
	var sites []site
	decl := ""
	for _, rel := range files {
		e := &ex{fset: token.NewFileSet()}
		f, err := parser.ParseFile(e.fset, filepath.Join(repo, rel), nil, 0)
		if err != nil {
			return "", err
		}
		base := filepath.Base(rel)
		for _, d := range f.Decls {
			fn := "<package-level>"
			if gd, ok := d.(*ast.GenDecl); ok && gd.Tok == token.VAR {
				// the declaration itself
				for _, sp := range gd.Specs {
					vs := sp.(*ast.ValueSpec)
					for k, n := range vs.Names {
						if n.Name != flagName {
							continue
						}
						s := "var " + flagName
						if vs.Type != nil {
							s += " " + e.src(vs.Type)
						}
						if k < len(vs.Values) {
							s += " = " + e.src(vs.Values[k])
						}
						if decl != "" {
							decl += "; "
						}
						decl += s
					}
				}
			}
			if fd, ok := d.(*ast.FuncDecl); ok {
				fn = funcName(fd)
			}
			ord := 0
			var stack []ast.Node
			ast.Inspect(d, func(n ast.Node) bool {
				if n == nil {
					stack = stack[:len(stack)-1]
					return true
				}
				stack = append(stack, n)
				id, ok := n.(*ast.Ident)
				if !ok || id.Name != flagName {
					return true
				}
				st := stack
				if len(st) >= 2 {
					switch p := st[len(st)-2].(type) {
					case *ast.ValueSpec: // declared name
						for _, nm := range p.Names {
							if nm == id {
								return true
							}
						}
					case *ast.SelectorExpr:
						if p.Sel == id {
							st = st[:len(st)-1] // the flag expression is the selector
						} else {
							return true // AllowPermissiveParsing.x — not a use of the flag
						}
					}
				}
				pol, cond := e.classify(st)
				sites = append(sites, site{file: base, fn: fn, ord: ord, polarity: pol, cond: cond})
				ord++
				return true
			})
		}
	}
	if decl == "" {
		decl = "<no declaration found>"
	}
	var items, conds []string
	hist := map[string]int{}
	var order []string
	for _, s := range sites {
		items = append(items, fmt.Sprintf("(%s, %s, %d, %s)", zvx.LeanStr(s.file), zvx.LeanStr(s.fn), s.ord, zvx.LeanStr(s.polarity)))
		conds = append(conds, zvx.LeanStr(s.cond))
		if hist[s.polarity] == 0 {
			order = append(order, s.polarity)
		}
		hist[s.polarity]++
	}
	var hs []string
	for _, k := range order {
		hs = append(hs, fmt.Sprintf("(%s, %d)", zvx.LeanStr(k), hist[k]))
	}
	var b strings.Builder
	b.WriteString("/-! T1 facts for C20, extracted with go/ast from encoding/asn1/asn1.go and x509/x509.go: every syntactic\n")
	b.WriteString("    occurrence of `AllowPermissiveParsing` (file, enclosing function, ordinal within the function, polarity).\n")
	b.WriteString("    Polarity vocabulary: see go/extract/c20/c20.go. -/\n")
	b.WriteString("namespace ZV.Generated.C20\n")
	b.WriteString("/-- the declaration of the process-global mode switch (encoding/asn1/asn1.go) -/\n")
	b.WriteString("def permissiveDecl : String := " + zvx.LeanStr(decl) + "\n")
	b.WriteString("/-- (file, function, ordinal in function, polarity), source order, asn1.go first -/\n")
	b.WriteString("def permissiveSites : List (String × String × Nat × String) := " + zvx.LeanList(items) + "\n")
	b.WriteString(fmt.Sprintf("def permissiveSiteCount : Nat := %d\n", len(sites)))
	b.WriteString("/-- the condition text of the enclosing `if` of each site, same order (informational; not meant to be compared) -/\n")
	b.WriteString("def permissiveSiteConds : List String := " + zvx.LeanList(conds) + "\n")
	b.WriteString("/-- polarity histogram, first-occurrence order -/\n")
	b.WriteString("def permissivePolarityHist : List (String × Nat) := " + zvx.LeanList(hs) + "\n")
	keys, lookup, err := ekuTable(repo)
	if err != nil {
		return "", err
	}
	var ks []string
	for _, k := range keys {
		arcs := strings.Split(k, ".")
		okk := len(arcs) > 0
		for _, a := range arcs {
			if a == "" || strings.Trim(a, "0123456789") != "" {
				okk = false
			}
		}
		if !okk {
			arcs = []string{"-1"} // not a dotted OID: an entry no OID can match, visible in the table
		}
		ks = append(ks, "["+strings.Join(arcs, ", ")+"]")
	}
	b.WriteString("/-- the keys of the map `ekuConstants` (x509/extended_key_usage.go, `ekuConstants[OID_EKU_…] = …`, constants resolved),\n")
	b.WriteString("    as arc lists, source order: the OIDs `extKeyUsageFromOID` reports as known -/\n")
	b.WriteString("def ekuKnownOIDs : List (List Int) := " + zvx.LeanList(ks) + "\n")
	b.WriteString(fmt.Sprintf("def ekuKnownCount : Nat := %d\n", len(ks)))
	b.WriteString("/-- the statements of `extKeyUsageFromOID` (x509.go) -/\n")
	b.WriteString("def extKeyUsageFromOIDBody : String := " + zvx.LeanStr(lookup) + "\n")
	b.WriteString("end ZV.Generated.C20\n")
	return b.String(), nil
}

func init() { zvx.Register(zvx.Extractor{Name: "C20", Run: run}) }
