// Package c17 (extractor): T1 facts for property C17, read syntactically (go/ast) from ct/scanner/scanner.go of the
// working tree:
//   - the capacities of the two channels made in Scan (`fetches`, `jobs`),
//   - the ORDER of the synchronisation-relevant statements of Scan's body (counter resets, make, go, channel sends,
//     close, WaitGroup.Add/Wait, ticker.Stop, final return) — statements directly in the body or directly inside a
//     top-level `for` (prefixed "loop "), never inside function literals or `if`s,
//   - every syntactic access to the four counter fields of Scanner anywhere in the file: enclosing function, field,
//     how (atomic.<Fn> / read / write), and whether it sits in Scan after the last top-level `.Wait()` (the final
//     log lines and the return, which run after all workers have been joined).
//
// The extractor never fails on a reordered Scan: it reports what it sees, the Lean theorems decide.
package c17

import (
	"fmt"
	"go/ast"
	"go/parser"
	"go/token"
	"path/filepath"
	"strings"

	"zv/internal/zvx"
)

var counters = map[string]bool{"certsProcessed": true, "precertsSeen": true, "unparsableEntries": true, "entriesWithNonFatalErrors": true}

func exprStr(e ast.Expr) string {
	switch x := e.(type) {
	case *ast.Ident:
		return x.Name
	case *ast.BasicLit:
		return x.Value
	case *ast.SelectorExpr:
		return exprStr(x.X) + "." + x.Sel.Name
	case *ast.UnaryExpr:
		return x.Op.String() + exprStr(x.X)
	case *ast.StarExpr:
		return "*" + exprStr(x.X)
	case *ast.CallExpr:
		var a []string
		for _, y := range x.Args {
			a = append(a, exprStr(y))
		}
		return exprStr(x.Fun) + "(" + strings.Join(a, ",") + ")"
	case *ast.FuncLit:
		return "func"
	}
	return fmt.Sprintf("?%T", e)
}

// counterOf returns the counter field name if e is `&s.<counter>` or `s.<counter>`.
func counterOf(e ast.Expr) string {
	if u, ok := e.(*ast.UnaryExpr); ok && u.Op == token.AND {
		e = u.X
	}
	if s, ok := e.(*ast.SelectorExpr); ok && counters[s.Sel.Name] {
		return s.Sel.Name
	}
	return ""
}

// stmtTag classifies one statement of Scan's body; "" = not synchronisation-relevant.
func stmtTag(st ast.Stmt, caps map[string]string) string {
	switch x := st.(type) {
	case *ast.AssignStmt:
		if len(x.Lhs) == 1 && len(x.Rhs) == 1 {
			if c, ok := x.Rhs[0].(*ast.CallExpr); ok {
				if id, ok := c.Fun.(*ast.Ident); ok && id.Name == "make" && len(c.Args) >= 1 {
					if _, ok := c.Args[0].(*ast.ChanType); ok {
						name := exprStr(x.Lhs[0])
						if len(c.Args) >= 2 {
							caps[name] = exprStr(c.Args[1])
						} else {
							caps[name] = "0"
						}
						return "make " + name
					}
				}
			}
			if f := counterOf(x.Lhs[0]); f != "" {
				return "plain-reset " + f
			}
		}
	case *ast.GoStmt:
		if _, ok := x.Call.Fun.(*ast.FuncLit); ok {
			isTicker := false
			ast.Inspect(x.Call.Fun, func(n ast.Node) bool {
				if r, ok := n.(*ast.RangeStmt); ok && exprStr(r.X) == "ticker.C" {
					isTicker = true
				}
				return true
			})
			if isTicker {
				return "go ticker"
			}
			return "go func"
		}
		if s, ok := x.Call.Fun.(*ast.SelectorExpr); ok {
			return "go " + s.Sel.Name
		}
		return "go " + exprStr(x.Call.Fun)
	case *ast.SendStmt:
		return "send " + exprStr(x.Chan)
	case *ast.ExprStmt:
		c, ok := x.X.(*ast.CallExpr)
		if !ok {
			return ""
		}
		if id, ok := c.Fun.(*ast.Ident); ok && id.Name == "close" && len(c.Args) == 1 {
			return "close " + exprStr(c.Args[0])
		}
		if s, ok := c.Fun.(*ast.SelectorExpr); ok {
			switch {
			case s.Sel.Name == "Wait":
				return "wait " + exprStr(s.X)
			case s.Sel.Name == "Add" && strings.HasSuffix(exprStr(s.X), "WG"):
				return "add " + exprStr(s.X)
			case s.Sel.Name == "Stop" && exprStr(s.X) == "ticker":
				return "stop ticker"
			case exprStr(s.X) == "atomic" && len(c.Args) >= 1 && counterOf(c.Args[0]) != "":
				if s.Sel.Name == "StoreInt64" && len(c.Args) == 2 && exprStr(c.Args[1]) == "0" {
					return "reset " + counterOf(c.Args[0])
				}
				return "atomic." + s.Sel.Name + " " + counterOf(c.Args[0])
			}
		}
	case *ast.ReturnStmt:
		return "return"
	}
	return ""
}

type access struct {
	fn, field, how string
	atomic, after  bool
}

func run(repo string) (string, error) {
	fset := token.NewFileSet()
	f, err := parser.ParseFile(fset, filepath.Join(repo, "ct", "scanner", "scanner.go"), nil, 0)
	if err != nil {
		return "", err
	}
	caps := map[string]string{}
	var order []string
	var accs []access
	foundScan := false
	for _, d := range f.Decls {
		fd, ok := d.(*ast.FuncDecl)
		if !ok || fd.Body == nil {
			continue
		}
		isScan := fd.Recv != nil && fd.Name.Name == "Scan"
		var joinPos token.Pos = token.NoPos
		if isScan {
			foundScan = true
			for _, st := range fd.Body.List {
				if t := stmtTag(st, caps); t != "" {
					order = append(order, t)
					if strings.HasPrefix(t, "wait ") {
						joinPos = st.End()
					}
					continue
				}
				if fs, ok := st.(*ast.ForStmt); ok {
					for _, st2 := range fs.Body.List {
						if t := stmtTag(st2, caps); t != "" {
							order = append(order, "loop "+t)
						}
					}
				}
				if rs, ok := st.(*ast.RangeStmt); ok {
					for _, st2 := range rs.Body.List {
						if t := stmtTag(st2, caps); t != "" {
							order = append(order, "loop "+t)
						}
					}
				}
			}
		}
		// counter accesses, with a parent stack
		var stack []ast.Node
		ast.Inspect(fd.Body, func(n ast.Node) bool {
			if n == nil {
				stack = stack[:len(stack)-1]
				return true
			}
			stack = append(stack, n)
			sel, ok := n.(*ast.SelectorExpr)
			if !ok || !counters[sel.Sel.Name] {
				return true
			}
			a := access{fn: fd.Name.Name, field: sel.Sel.Name, how: "read"}
			a.after = isScan && joinPos != token.NoPos && sel.Pos() > joinPos
			// inside a function literal (goroutine) the position argument does not apply
			for _, p := range stack {
				if _, ok := p.(*ast.FuncLit); ok {
					a.after = false
					a.fn = fd.Name.Name + ".func"
				}
			}
			if len(stack) >= 3 {
				if u, ok := stack[len(stack)-2].(*ast.UnaryExpr); ok && u.Op == token.AND {
					if c, ok := stack[len(stack)-3].(*ast.CallExpr); ok {
						if s, ok := c.Fun.(*ast.SelectorExpr); ok && exprStr(s.X) == "atomic" && len(c.Args) >= 1 && c.Args[0] == ast.Expr(u) {
							a.how = "atomic." + s.Sel.Name
							a.atomic = true
						}
					}
					if !a.atomic {
						a.how = "address"
					}
				}
			}
			if len(stack) >= 2 && !a.atomic {
				switch p := stack[len(stack)-2].(type) {
				case *ast.AssignStmt:
					for _, l := range p.Lhs {
						if l == ast.Expr(sel) {
							a.how = "write"
						}
					}
				case *ast.IncDecStmt:
					a.how = "write"
				}
			}
			accs = append(accs, a)
			return true
		})
	}
	if !foundScan {
		return "", fmt.Errorf("c17 extractor: method Scan not found in ct/scanner/scanner.go")
	}
	capOf := func(name string) string {
		v, ok := caps[name]
		if !ok {
			return "0"
		}
		for _, c := range v {
			if c < '0' || c > '9' {
				return "0"
			}
		}
		return v
	}
	var ord, acc []string
	for _, s := range order {
		ord = append(ord, zvx.LeanStr(s))
	}
	for _, a := range accs {
		acc = append(acc, fmt.Sprintf("(%s, %s, %s, %v, %v)", zvx.LeanStr(a.fn), zvx.LeanStr(a.field), zvx.LeanStr(a.how), a.atomic, a.after))
	}
	var b strings.Builder
	b.WriteString("/-! Facts about ct/scanner/scanner.go `(*Scanner).Scan` and the four counter fields (go/ast). -/\n")
	b.WriteString("namespace ZV.C17.Gen\n")
	b.WriteString("/-- `fetches := make(chan fetchRange, N)` (0 = unbuffered, missing or not a literal) -/\n")
	b.WriteString("def fetchesCap : Nat := " + capOf("fetches") + "\n")
	b.WriteString("/-- `jobs := make(chan matcherJob, N)` -/\n")
	b.WriteString("def jobsCap : Nat := " + capOf("jobs") + "\n")
	b.WriteString("/-- synchronisation-relevant statements of Scan's body in source order (`loop ` = directly inside a top-level for) -/\n")
	b.WriteString("def scanOrder : List String := " + zvx.LeanList(ord) + "\n")
	b.WriteString("/-- every access to a counter field in scanner.go: (function, field, how, through sync/atomic, in Scan after the last Wait) -/\n")
	b.WriteString("def counterAccesses : List (String × String × String × Bool × Bool) := " + zvx.LeanList(acc) + "\n")
	b.WriteString("end ZV.C17.Gen\n")
	return b.String(), nil
}

func init() { zvx.Register(zvx.Extractor{Name: "C17", Run: run}) }
