// Package c09 (extractor): T1 facts for property C09 — every constant the hostname matcher depends on.
//   - the identifier hasSANExtension (x509/x509.go) passes to oidInExtensions, read syntactically, and its current
//     value through the verif hook x509.ZVC09OIDs;
//   - every literal (char / string / int, in source order) of VerifyHostname, matchHostnames, toLowerCaseASCII and
//     HostnameError.Error in x509/verify.go (go/ast), as byte values: the bracket bytes and the minimum length 3, the
//     "." / "*" of the label loop, the 'A'..'Z' bounds and the case offset, the three message templates;
//   - the standard library's IPv4-in-IPv6 prefix (first 12 bytes of net.IPv4(...)) and the IP lengths.
package c09

import (
	"fmt"
	"go/ast"
	"go/parser"
	"go/token"
	"net"
	"path/filepath"
	"strconv"
	"strings"

	"github.com/zmap/zcrypto/x509"

	"zv/internal/zvx"
)

func sel(e ast.Expr) string {
	switch x := e.(type) {
	case *ast.Ident:
		return x.Name
	case *ast.SelectorExpr:
		return sel(x.X) + "." + x.Sel.Name
	}
	return "?"
}

func nats(b []byte) string {
	var s []string
	for _, c := range b {
		s = append(s, fmt.Sprint(c))
	}
	return "[" + strings.Join(s, ", ") + "]"
}

// lits returns the literals of fn's body in source order as Lean pairs (kind, bytes / [value]).
func lits(fd *ast.FuncDecl) ([]string, error) {
	var out []string
	var err error
	ast.Inspect(fd.Body, func(n ast.Node) bool {
		bl, ok := n.(*ast.BasicLit)
		if !ok {
			return true
		}
		switch bl.Kind {
		case token.CHAR:
			r, _, _, e := strconv.UnquoteChar(bl.Value[1:len(bl.Value)-1], '\'')
			if e != nil || r > 255 {
				err = fmt.Errorf("c09 extractor: char literal %s", bl.Value)
				return false
			}
			out = append(out, fmt.Sprintf("(\"char\", [%d])", r))
		case token.STRING:
			s, e := strconv.Unquote(bl.Value)
			if e != nil {
				err = e
				return false
			}
			out = append(out, fmt.Sprintf("(\"string\", %s)", nats([]byte(s))))
		case token.INT:
			v, e := strconv.ParseInt(bl.Value, 0, 64)
			if e != nil || v < 0 {
				err = fmt.Errorf("c09 extractor: int literal %s", bl.Value)
				return false
			}
			out = append(out, fmt.Sprintf("(\"int\", [%d])", v))
		default:
			out = append(out, fmt.Sprintf("(%s, [])", zvx.LeanStr(bl.Kind.String())))
		}
		return true
	})
	return out, err
}

func recvName(fd *ast.FuncDecl) string {
	if fd.Recv == nil || len(fd.Recv.List) == 0 {
		return ""
	}
	t := fd.Recv.List[0].Type
	if st, ok := t.(*ast.StarExpr); ok {
		t = st.X
	}
	return sel(t)
}

func run(repo string) (string, error) {
	fset := token.NewFileSet()
	fx, err := parser.ParseFile(fset, filepath.Join(repo, "x509", "x509.go"), nil, 0)
	if err != nil {
		return "", err
	}
	sanName := ""
	for _, d := range fx.Decls {
		fd, ok := d.(*ast.FuncDecl)
		if !ok || fd.Name.Name != "hasSANExtension" || fd.Body == nil {
			continue
		}
		if len(fd.Body.List) == 1 {
			if rs, ok := fd.Body.List[0].(*ast.ReturnStmt); ok && len(rs.Results) == 1 {
				if call, ok := rs.Results[0].(*ast.CallExpr); ok && sel(call.Fun) == "oidInExtensions" && len(call.Args) == 2 && sel(call.Args[1]) == "c.Extensions" {
					sanName = sel(call.Args[0])
				}
			}
		}
	}
	if sanName == "" {
		return "", fmt.Errorf("c09 extractor: hasSANExtension is no longer `return oidInExtensions(<oid>, c.Extensions)`")
	}
	arcs, ok := x509.ZVC09OIDs()[sanName]
	if !ok {
		return "", fmt.Errorf("c09 extractor: identifier %s used by hasSANExtension is not known to the hook x509.ZVC09OIDs", sanName)
	}
	var as []string
	for _, a := range arcs {
		as = append(as, fmt.Sprint(a))
	}

	fv, err := parser.ParseFile(fset, filepath.Join(repo, "x509", "verify.go"), nil, 0)
	if err != nil {
		return "", err
	}
	want := map[string]string{ // receiver.name -> Lean def
		"Certificate.VerifyHostname": "verifyHostnameLits",
		".matchHostnames":            "matchHostnamesLits",
		".toLowerCaseASCII":          "toLowerCaseASCIILits",
		"HostnameError.Error":        "hostnameErrorLits",
	}
	got := map[string][]string{}
	for _, d := range fv.Decls {
		fd, ok := d.(*ast.FuncDecl)
		if !ok || fd.Body == nil {
			continue
		}
		if def, ok := want[recvName(fd)+"."+fd.Name.Name]; ok {
			l, err := lits(fd)
			if err != nil {
				return "", err
			}
			got[def] = l
		}
	}
	var b strings.Builder
	b.WriteString("namespace ZV.Generated.C09\n\n")
	b.WriteString("/-- `hasSANExtension`: the identifier passed to `oidInExtensions(…, c.Extensions)` and its current value -/\n")
	b.WriteString("def sanOidName : String := " + zvx.LeanStr(sanName) + "\n")
	b.WriteString("def sanOid : List Nat := [" + strings.Join(as, ", ") + "]\n\n")
	for _, def := range []string{"verifyHostnameLits", "matchHostnamesLits", "toLowerCaseASCIILits", "hostnameErrorLits"} {
		l, ok := got[def]
		if !ok {
			return "", fmt.Errorf("c09 extractor: function for %s not found in x509/verify.go", def)
		}
		b.WriteString("/-- literals of the function body in source order: (kind, bytes of a char/string literal or [value] of an int) -/\n")
		b.WriteString("def " + def + " : List (String × List Nat) := " + zvx.LeanList(l) + "\n\n")
	}
	ip := net.IPv4(1, 2, 3, 4)
	if len(ip) != 16 {
		return "", fmt.Errorf("c09 extractor: net.IPv4 no longer returns the 16-byte form")
	}
	b.WriteString("/-- standard library: first 12 bytes of `net.IPv4(1,2,3,4)` (the IPv4-in-IPv6 prefix), `net.IPv4len`, `net.IPv6len` -/\n")
	b.WriteString("def v4InV6Prefix : List Nat := " + nats(ip[:12]) + "\n")
	b.WriteString(fmt.Sprintf("def ipv4len : Nat := %d\ndef ipv6len : Nat := %d\n\n", net.IPv4len, net.IPv6len))
	b.WriteString("end ZV.Generated.C09\n")
	return b.String(), nil
}

func init() { zvx.Register(zvx.Extractor{Name: "C09", Run: run}) }
