// Package c30 (extractor): T1 — the handshake message type constants and the extension numbers used by the codecs of
// tls/handshake_messages.go, dumped from the working tree through the verif hook ZVC30Consts.
package c30

import (
	"fmt"
	"strings"

	"github.com/zmap/zcrypto/tls"

	"zv/internal/zvx"
)

func run(repo string) (string, error) {
	names, vals := tls.ZVC30Consts()
	var b strings.Builder
	b.WriteString("/-! Message type constants (`typeXxx`) and extension numbers (`extensionXxx`) of tls/common.go as used by\n    tls/handshake_messages.go. -/\n")
	b.WriteString("namespace ZV.C30.Gen\n")
	for i, n := range names {
		fmt.Fprintf(&b, "def %s : Nat := %d\n", n, vals[i])
	}
	b.WriteString("end ZV.C30.Gen\n")
	return b.String(), nil
}

func init() { zvx.Register(zvx.Extractor{Name: "C30", Run: run}) }
