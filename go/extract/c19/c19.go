// Package c19 (extractor): T1 facts for property C19, read syntactically (go/ast) from the working tree:
// the guard expressions (`if` conditions, `for` conditions, boolean `return` expressions, `case` lists) of the
// layer-0 DER decoders and encoders of encoding/asn1 (asn1.go, marshal.go) and cryptobyte (asn1.go, builder.go),
// one Lean list per Go function, in source order. The theorems ZV.C19.t1_* compare them with the expressions the
// model ZV.Model.Der0 / ZV.Model.C19 was written from, so removing or editing a minimality guard fails a named theorem.
package c19

import (
	"bytes"
	"fmt"
	"go/ast"
	"go/parser"
	"go/printer"
	"go/token"
	"path/filepath"
	"strings"

	"zv/internal/zvx"
)

func exprStr(fset *token.FileSet, e ast.Node) string {
	var b bytes.Buffer
	printer.Fprint(&b, fset, e)
	return strings.Join(strings.Fields(strings.ReplaceAll(b.String(), "' '", "'\\x20'")), "")
}

type want struct {
	file  string // relative to the repo
	fn    string // function name ("T.m" for methods)
	lean  string // Lean def name
	plain bool   // also record `return <expr>` with a non-trivial boolean expression
}

var wants = []want{
	{"encoding/asn1/asn1.go", "parseBool", "ea_parseBool", false},
	{"encoding/asn1/asn1.go", "checkInteger", "ea_checkInteger", false},
	{"encoding/asn1/asn1.go", "parseInt64", "ea_parseInt64", false},
	{"encoding/asn1/asn1.go", "parseInt32", "ea_parseInt32", false},
	{"encoding/asn1/asn1.go", "parseBitString", "ea_parseBitString", false},
	{"encoding/asn1/asn1.go", "parseObjectIdentifier", "ea_parseObjectIdentifier", false},
	{"encoding/asn1/asn1.go", "parseBase128Int", "ea_parseBase128Int", false},
	{"encoding/asn1/asn1.go", "parseTagAndLength", "ea_parseTagAndLength", false},
	{"encoding/asn1/asn1.go", "parseNumericString", "ea_parseNumericString", false},
	{"encoding/asn1/asn1.go", "isNumeric", "ea_isNumeric", true},
	{"encoding/asn1/asn1.go", "parsePrintableString", "ea_parsePrintableString", false},
	{"encoding/asn1/asn1.go", "isPrintable", "ea_isPrintable", true},
	{"encoding/asn1/asn1.go", "parseIA5String", "ea_parseIA5String", false},
	{"encoding/asn1/marshal.go", "makePrintableString", "ea_makePrintableString", false},
	{"encoding/asn1/marshal.go", "makeIA5String", "ea_makeIA5String", false},
	{"encoding/asn1/marshal.go", "makeNumericString", "ea_makeNumericString", false},
	{"encoding/asn1/marshal.go", "int64Encoder.Len", "ea_int64EncoderLen", false},
	{"encoding/asn1/marshal.go", "base128IntLength", "ea_base128IntLength", false},
	{"encoding/asn1/marshal.go", "lengthLength", "ea_lengthLength", false},
	{"encoding/asn1/marshal.go", "appendTagAndLength", "ea_appendTagAndLength", false},
	{"encoding/asn1/marshal.go", "makeObjectIdentifier", "ea_makeObjectIdentifier", false},
	{"cryptobyte/asn1.go", "checkASN1Integer", "cb_checkASN1Integer", false},
	{"cryptobyte/asn1.go", "asn1Signed", "cb_asn1Signed", false},
	{"cryptobyte/asn1.go", "asn1Unsigned", "cb_asn1Unsigned", false},
	{"cryptobyte/asn1.go", "String.ReadASN1Enum", "cb_ReadASN1Enum", false},
	{"cryptobyte/asn1.go", "String.ReadASN1Boolean", "cb_ReadASN1Boolean", false},
	{"cryptobyte/asn1.go", "String.readBase128Int", "cb_readBase128Int", false},
	{"cryptobyte/asn1.go", "String.ReadASN1ObjectIdentifier", "cb_ReadASN1ObjectIdentifier", false},
	{"cryptobyte/asn1.go", "String.ReadASN1BitString", "cb_ReadASN1BitString", false},
	{"cryptobyte/asn1.go", "String.readASN1", "cb_readASN1", false},
	{"cryptobyte/asn1.go", "Builder.addASN1Signed", "cb_addASN1Signed", false},
	{"cryptobyte/asn1.go", "isValidOID", "cb_isValidOID", false},
	{"cryptobyte/builder.go", "Builder.flushChild", "cb_flushChild", false},
}

func fnName(d *ast.FuncDecl) string {
	if d.Recv == nil || len(d.Recv.List) == 0 {
		return d.Name.Name
	}
	t := d.Recv.List[0].Type
	if s, ok := t.(*ast.StarExpr); ok {
		t = s.X
	}
	if id, ok := t.(*ast.Ident); ok {
		return id.Name + "." + d.Name.Name
	}
	return d.Name.Name
}

func guards(fset *token.FileSet, d *ast.FuncDecl, plain bool) []string {
	var out []string
	ast.Inspect(d.Body, func(n ast.Node) bool {
		switch x := n.(type) {
		case *ast.IfStmt:
			out = append(out, "if:"+exprStr(fset, x.Cond))
		case *ast.ForStmt:
			if x.Cond != nil {
				out = append(out, "for:"+exprStr(fset, x.Cond))
			}
		case *ast.CaseClause:
			var l []string
			for _, e := range x.List {
				l = append(l, exprStr(fset, e))
			}
			if len(l) > 0 {
				out = append(out, "case:"+strings.Join(l, ","))
			}
		case *ast.ReturnStmt:
			if plain && len(x.Results) == 1 {
				out = append(out, "ret:"+exprStr(fset, x.Results[0]))
			}
		}
		return true
	})
	return out
}

func run(repo string) (string, error) {
	files := map[string]*ast.File{}
	fset := token.NewFileSet()
	var b strings.Builder
	b.WriteString("/-! Guard expressions of the layer-0 DER primitives of encoding/asn1 and cryptobyte (go/ast), source order.\n    `if:` = if condition, `for:` = loop condition, `case:` = case list, `ret:` = returned boolean expression. -/\n")
	b.WriteString("namespace ZV.C19.Gen\n")
	for _, w := range wants {
		f := files[w.file]
		if f == nil {
			var err error
			f, err = parser.ParseFile(fset, filepath.Join(repo, filepath.FromSlash(w.file)), nil, 0)
			if err != nil {
				return "", err
			}
			files[w.file] = f
		}
		var found *ast.FuncDecl
		for _, d := range f.Decls {
			if fd, ok := d.(*ast.FuncDecl); ok && fd.Body != nil && fnName(fd) == w.fn {
				found = fd
			}
		}
		if found == nil {
			return "", fmt.Errorf("c19 extractor: func %s not found in %s", w.fn, w.file)
		}
		var items []string
		for _, s := range guards(fset, found, w.plain) {
			items = append(items, zvx.LeanStr(s))
		}
		b.WriteString(fmt.Sprintf("/-- `%s` in %s -/\ndef %s : List String := %s\n", w.fn, w.file, w.lean, zvx.LeanList(items)))
	}
	b.WriteString("end ZV.C19.Gen\n")
	return b.String(), nil
}

func init() { zvx.Register(zvx.Extractor{Name: "C19", Run: run}) }
