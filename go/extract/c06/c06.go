// Package c06 (extractor): T1 facts for property C06 — the object identifiers that parseCertificate (x509/x509.go)
// skips when it rebuilds the TBS for FingerprintNoCT.  The identifiers compared with `extension.Id.Equal(…)` followed
// by `continue` inside the filter loop are read syntactically (go/ast) from the working tree, their values at run
// time through the verif hook x509.ZVC06OIDs; also which AlgorithmIdentifier `out.SignatureAlgorithmOID` is taken from.
package c06

import (
	"fmt"
	"go/ast"
	"go/parser"
	"go/token"
	"path/filepath"
	"strings"

	"github.com/zmap/zcrypto/encoding/asn1"
	"github.com/zmap/zcrypto/x509"

	"zv/internal/zvx"
)

func sel(e ast.Expr) string {
	switch x := e.(type) {
	case *ast.Ident:
		return x.Name
	case *ast.SelectorExpr:
		return sel(x.X) + "." + x.Sel.Name
	}
	return "?"
}

func run(repo string) (string, error) {
	fset := token.NewFileSet()
	f, err := parser.ParseFile(fset, filepath.Join(repo, "x509", "x509.go"), nil, 0)
	if err != nil {
		return "", err
	}
	var names []string
	sigSrc := ""
	for _, d := range f.Decls {
		fd, ok := d.(*ast.FuncDecl)
		if !ok || fd.Recv != nil || fd.Name.Name != "parseCertificate" || fd.Body == nil {
			continue
		}
		ast.Inspect(fd.Body, func(n ast.Node) bool {
			switch x := n.(type) {
			case *ast.RangeStmt:
				if sel(x.X) != "originalExtensions" {
					return true
				}
				for _, st := range x.Body.List {
					is, ok := st.(*ast.IfStmt)
					if !ok || len(is.Body.List) != 1 {
						continue
					}
					if br, ok := is.Body.List[0].(*ast.BranchStmt); !ok || br.Tok != token.CONTINUE {
						continue
					}
					if call, ok := is.Cond.(*ast.CallExpr); ok && strings.HasSuffix(sel(call.Fun), ".Id.Equal") && len(call.Args) == 1 {
						names = append(names, sel(call.Args[0]))
					} else {
						names = append(names, "?unrecognised-condition")
					}
				}
			case *ast.AssignStmt:
				if len(x.Lhs) == 1 && sel(x.Lhs[0]) == "out.SignatureAlgorithmOID" && len(x.Rhs) == 1 {
					sigSrc = sel(x.Rhs[0])
				}
			}
			return true
		})
	}
	if len(names) == 0 {
		return "", fmt.Errorf("c06 extractor: no-CT filter loop of parseCertificate not found")
	}
	vals := x509.ZVC06OIDs()
	var b strings.Builder
	b.WriteString("namespace ZV.Generated.C06\n\n")
	b.WriteString("/-- `parseCertificate`, loop over `originalExtensions`: the identifiers whose match is followed by `continue`,\n    in source order, with the arcs and the DER contents octets of their current values. -/\n")
	var items []string
	for _, n := range names {
		arcs, ok := vals[n]
		if !ok {
			return "", fmt.Errorf("c06 extractor: identifier %s of the filter loop is not known to the hook x509.ZVC06OIDs", n)
		}
		der, err := asn1.Marshal(asn1.ObjectIdentifier(arcs))
		if err != nil || len(der) < 2 || der[1] >= 0x80 {
			return "", fmt.Errorf("c06 extractor: cannot encode %s", n)
		}
		var as, bs []string
		for _, a := range arcs {
			as = append(as, fmt.Sprint(a))
		}
		for _, c := range der[2:] {
			bs = append(bs, fmt.Sprintf("0x%02x", c))
		}
		items = append(items, fmt.Sprintf("(%s, [%s], [%s])", zvx.LeanStr(n), strings.Join(as, ", "), strings.Join(bs, ", ")))
	}
	b.WriteString("def ctFilter : List (String × List Nat × List UInt8) := " + zvx.LeanList(items) + "\n\n")
	b.WriteString("/-- right-hand side of `out.SignatureAlgorithmOID = …` in `parseCertificate` -/\n")
	b.WriteString("def sigAlgOIDSource : String := " + zvx.LeanStr(sigSrc) + "\n\n")
	b.WriteString("end ZV.Generated.C06\n")
	return b.String(), nil
}

func init() { zvx.Register(zvx.Extractor{Name: "C06", Run: run}) }
