// Package c14 (extractor): T1 facts for C14, read syntactically (go/ast) from x509/revocation/crl/crl.go of the tree
// under test:
//   - the extension OIDs (`crlNumberExtensionOID`, …),
//   - the reason-code name table filled in init(),
//   - the composite literal `&RevocationData{…}` of CheckCRLForCert (which field is copied from where),
//   - every `ret.F… = …` assignment of CheckCRLForCert / gatherListExtensionInfo (which fields are ever written),
//   - the if / else-if chain of gatherListExtensionInfo's loop body (conditions in source order).
//
// Strings are emitted as `"…".toList` so that `decide` evaluates the table theorems in the kernel.
package c14

import (
	"bytes"
	"fmt"
	"go/ast"
	"go/parser"
	"go/printer"
	"go/token"
	"path/filepath"
	"sort"
	"strconv"
	"strings"

	"zv/internal/zvx"
)

func chars(s string) string { return zvx.LeanStr(s) + ".toList" }

type ex struct{ fset *token.FileSet }

func (e *ex) src(n ast.Node) string {
	var b bytes.Buffer
	printer.Fprint(&b, e.fset, n)
	return strings.Join(strings.Fields(b.String()), " ")
}

func intLit(x ast.Expr) (int, bool) {
	b, ok := x.(*ast.BasicLit)
	if !ok || b.Kind != token.INT {
		return 0, false
	}
	k, err := strconv.Atoi(b.Value)
	return k, err == nil
}

// ret.A.B  ->  "A.B" (selector path below the identifier `ret`)
func retPath(x ast.Expr) (string, bool) {
	var parts []string
	for {
		s, ok := x.(*ast.SelectorExpr)
		if !ok {
			break
		}
		parts = append([]string{s.Sel.Name}, parts...)
		x = s.X
	}
	id, ok := x.(*ast.Ident)
	if !ok || id.Name != "ret" || len(parts) == 0 {
		return "", false
	}
	return strings.Join(parts, "."), true
}

func run(repo string) (string, error) {
	e := &ex{fset: token.NewFileSet()}
	path := filepath.Join(repo, "x509", "revocation", "crl", "crl.go")
	file, err := parser.ParseFile(e.fset, path, nil, 0)
	if err != nil {
		return "", err
	}
	oids := map[string][]int{}
	reasons := map[int]string{}
	var reasonOther []string
	var check, gather *ast.FuncDecl
	for _, d := range file.Decls {
		switch x := d.(type) {
		case *ast.GenDecl:
			for _, sp := range x.Specs {
				vs, ok := sp.(*ast.ValueSpec)
				if !ok {
					continue
				}
				for i, nm := range vs.Names {
					if i >= len(vs.Values) {
						continue
					}
					cl, ok := vs.Values[i].(*ast.CompositeLit)
					if !ok || e.src(cl.Type) != "asn1.ObjectIdentifier" {
						continue
					}
					var l []int
					good := true
					for _, el := range cl.Elts {
						k, ok := intLit(el)
						good = good && ok
						l = append(l, k)
					}
					if good {
						oids[nm.Name] = l
					}
				}
			}
		case *ast.FuncDecl:
			switch {
			case x.Name.Name == "init" && x.Recv == nil:
				for _, st := range x.Body.List {
					a, ok := st.(*ast.AssignStmt)
					if !ok || len(a.Lhs) != 1 || len(a.Rhs) != 1 {
						continue
					}
					ix, ok := a.Lhs[0].(*ast.IndexExpr)
					if !ok {
						continue // reasonCodeNames = make(…)
					}
					id, ok1 := ix.X.(*ast.Ident)
					k, ok2 := intLit(ix.Index)
					v, ok3 := a.Rhs[0].(*ast.BasicLit)
					if ok1 && ok2 && ok3 && id.Name == "reasonCodeNames" && v.Kind == token.STRING {
						s, _ := strconv.Unquote(v.Value)
						if _, dup := reasons[k]; dup {
							reasonOther = append(reasonOther, "duplicate key "+strconv.Itoa(k))
						}
						reasons[k] = s
					} else {
						reasonOther = append(reasonOther, e.src(st))
					}
				}
			case x.Name.Name == "CheckCRLForCert":
				check = x
			case x.Name.Name == "gatherListExtensionInfo":
				gather = x
			}
		}
	}
	if check == nil || gather == nil {
		return "", fmt.Errorf("crl.go: CheckCRLForCert / gatherListExtensionInfo not found")
	}
	var out strings.Builder
	out.WriteString("/-! T1 facts for C14, extracted with go/ast from x509/revocation/crl/crl.go -/\nnamespace ZV.C14.Gen\n")
	for _, n := range []string{"crlNumberExtensionOID", "revocationReasonExtensionOID", "invalidityDateExtensionOID"} {
		l, ok := oids[n]
		if !ok {
			return "", fmt.Errorf("crl.go: var %s not found", n)
		}
		ss := make([]string, len(l))
		for i, k := range l {
			ss[i] = strconv.Itoa(k)
		}
		fmt.Fprintf(&out, "def %s : List Nat := [%s]\n", n, strings.Join(ss, ", "))
	}
	var keys []int
	for k := range reasons {
		keys = append(keys, k)
	}
	sort.Ints(keys)
	var rows []string
	for _, k := range keys {
		rows = append(rows, fmt.Sprintf("(%d, %s)", k, chars(reasons[k])))
	}
	fmt.Fprintf(&out, "/-- `reasonCodeNames[k] = \"…\"` of init(), sorted by key -/\ndef reasonCodeNames : List (Nat × List Char) := %s\n", zvx.LeanList(rows))
	rows = nil
	for _, s := range reasonOther {
		rows = append(rows, chars(s))
	}
	fmt.Fprintf(&out, "/-- any other statement of init() touching the table (expected: none) -/\ndef reasonCodeOther : List (List Char) := %s\n", zvx.LeanList(rows))

	// the &RevocationData{…} literal
	var lit *ast.CompositeLit
	ast.Inspect(check.Body, func(n ast.Node) bool {
		if c, ok := n.(*ast.CompositeLit); ok && lit == nil && e.src(c.Type) == "RevocationData" {
			lit = c
		}
		return lit == nil
	})
	if lit == nil {
		return "", fmt.Errorf("CheckCRLForCert: no RevocationData literal")
	}
	rows = nil
	for _, el := range lit.Elts {
		kv, ok := el.(*ast.KeyValueExpr)
		if !ok {
			return "", fmt.Errorf("CheckCRLForCert: positional RevocationData literal")
		}
		rows = append(rows, fmt.Sprintf("(%s, %s)", chars(e.src(kv.Key)), chars(e.src(kv.Value))))
	}
	fmt.Fprintf(&out, "/-- the literal `ret := &RevocationData{F: src, …}` of CheckCRLForCert, source order -/\ndef headerLiteral : List (List Char × List Char) := %s\n", zvx.LeanList(rows))

	// every ret.… assignment / FillFrom call of both functions
	written := map[string]bool{}
	for _, fn := range []*ast.FuncDecl{check, gather} {
		ast.Inspect(fn.Body, func(n ast.Node) bool {
			switch a := n.(type) {
			case *ast.AssignStmt:
				for _, l := range a.Lhs {
					if p, ok := retPath(l); ok {
						written[p] = true
					}
				}
			case *ast.CallExpr:
				if s, ok := a.Fun.(*ast.SelectorExpr); ok {
					if p, ok := retPath(s.X); ok {
						written[p+"."+s.Sel.Name+"()"] = true
					}
				}
			}
			return true
		})
	}
	var ws []string
	for w := range written {
		ws = append(ws, w)
	}
	sort.Strings(ws)
	rows = nil
	for _, w := range ws {
		rows = append(rows, chars(w))
	}
	fmt.Fprintf(&out, "/-- every `ret.F = …` assignment target and `ret.F.m(…)` method call in CheckCRLForCert / gatherListExtensionInfo, sorted -/\ndef retWritten : List (List Char) := %s\n", zvx.LeanList(rows))

	// the if / else-if chain of the loop body of gatherListExtensionInfo
	var chain *ast.IfStmt
	ast.Inspect(gather.Body, func(n ast.Node) bool {
		if r, ok := n.(*ast.RangeStmt); ok && chain == nil {
			if len(r.Body.List) == 1 {
				chain, _ = r.Body.List[0].(*ast.IfStmt)
			}
			return false
		}
		return chain == nil
	})
	if chain == nil {
		return "", fmt.Errorf("gatherListExtensionInfo: loop body is not a single if chain")
	}
	rows = nil
	lastStmt := func(b *ast.BlockStmt) string {
		if len(b.List) == 0 {
			return ""
		}
		return e.src(b.List[len(b.List)-1])
	}
	for cur := chain; cur != nil; {
		rows = append(rows, fmt.Sprintf("(%s, %s)", chars(e.src(cur.Cond)), chars(lastStmt(cur.Body))))
		switch el := cur.Else.(type) {
		case *ast.IfStmt:
			cur = el
		case *ast.BlockStmt:
			rows = append(rows, fmt.Sprintf("(%s, %s)", chars("else"), chars(lastStmt(el))))
			cur = nil
		default:
			cur = nil
		}
	}
	fmt.Fprintf(&out, "/-- loop body of gatherListExtensionInfo: (condition, last statement of the branch), source order -/\ndef gatherChain : List (List Char × List Char) := %s\n", zvx.LeanList(rows))
	out.WriteString("end ZV.C14.Gen\n")
	return out.String(), nil
}

func init() { zvx.Register(zvx.Extractor{Name: "C14", Run: run}) }
