// Package c34 (extractor): T1 facts for property C34, read syntactically (go/ast + go/parser, no go/types) from
// tls/*.go of the working tree (without *_test.go and without the verif hooks zv_*.go).
//
// For every function / method of package tls that touches, directly or through calls, one of the mutexes
// handshakeMutex / in / out of Conn or one of the atomics handshakeStatus / activeCall, the ordered list (source
// order, ast.Inspect pre-order, nested func literals inline) of lock / unlock / deferred unlock / atomic / call /
// flush / `return nil` events is written to lean/ZV/Generated/C34.lean, together with two certificates (acq, underHM)
// that the Lean side re-checks.
//
// Call resolution is by name (see resolve). Method values and function values (x := c.f; x()) are NOT followed:
// only syntactic calls X.f(...) and f(...) are events.
package c34

import (
	"fmt"
	"go/ast"
	"go/parser"
	"go/token"
	"os"
	"path/filepath"
	"sort"
	"strconv"
	"strings"
	"unicode"

	"zv/internal/zvx"
)

func init() { zvx.Register(zvx.Extractor{Name: "C34", Run: run}) }

type ev struct {
	kind    string // lock unlock deferUnlock load store cas add call flush retNil
	a, b    int
	callees []string // kind == call: qualified candidate names (before the relevance filter)
}

type fn struct {
	qual, recvType, recvName, name string
	decl                           *ast.FuncDecl
	imports                        map[string]bool
	evs                            []ev
	exported                       bool
}

var mutexID = map[string]int{"handshakeMutex": 0, "in": 1, "out": 2}
var atomID = map[string]int{"handshakeStatus": 0, "activeCall": 1}

// syntactic type tables of package tls (filled by run)
var (
	tlsTypes  = map[string]bool{}     // named types declared in package tls
	iface     = map[string][]string{} // interface types of package tls: explicitly listed method names
	fieldType = map[string]string{}   // struct field name -> classify(type) if the same in every struct, else ""
	structs   []*ast.StructType
)

// classify: "ext" = a type that cannot have methods of package tls statically (pkg.T, *pkg.T, array, map, func, chan);
// a type name of package tls; "" = unknown.
func classify(e ast.Expr) string {
	switch x := e.(type) {
	case *ast.StarExpr:
		return classify(x.X)
	case *ast.ParenExpr:
		return classify(x.X)
	case *ast.SelectorExpr:
		return "ext"
	case *ast.ArrayType, *ast.MapType, *ast.FuncType, *ast.ChanType:
		return "ext"
	case *ast.Ident:
		if tlsTypes[x.Name] {
			return x.Name
		}
	}
	return ""
}

func typeName(e ast.Expr) string {
	switch x := e.(type) {
	case *ast.Ident:
		return x.Name
	case *ast.StarExpr:
		return typeName(x.X)
	case *ast.ParenExpr:
		return typeName(x.X)
	case *ast.IndexExpr:
		return typeName(x.X)
	case *ast.IndexListExpr:
		return typeName(x.X)
	}
	return ""
}

func isUpper(s string) bool {
	for _, r := range s {
		return unicode.IsUpper(r)
	}
	return false
}

func run(repo string) (string, error) {
	files, err := filepath.Glob(filepath.Join(repo, "tls", "*.go"))
	if err != nil {
		return "", err
	}
	sort.Strings(files)
	tlsTypes, iface, fieldType, structs = map[string]bool{}, map[string][]string{}, map[string]string{}, nil
	fset := token.NewFileSet()
	byQual := map[string]*fn{}
	methods := map[string][]*fn{} // method name -> methods
	var all []*fn
	for _, p := range files {
		b := filepath.Base(p)
		if strings.HasSuffix(b, "_test.go") || strings.HasPrefix(b, "zv_") {
			continue
		}
		f, err := parser.ParseFile(fset, p, nil, 0)
		if err != nil {
			return "", err
		}
		imps := map[string]bool{}
		for _, im := range f.Imports {
			path, _ := strconv.Unquote(im.Path.Value)
			nm := path[strings.LastIndex(path, "/")+1:]
			if im.Name != nil {
				nm = im.Name.Name
			}
			imps[nm] = true
		}
		for _, d := range f.Decls {
			if gd, ok := d.(*ast.GenDecl); ok && gd.Tok == token.TYPE {
				for _, sp := range gd.Specs {
					ts := sp.(*ast.TypeSpec)
					tlsTypes[ts.Name.Name] = true
					switch t := ts.Type.(type) {
					case *ast.StructType:
						structs = append(structs, t)
					case *ast.InterfaceType:
						ms := []string{}
						for _, m := range t.Methods.List {
							for _, n := range m.Names {
								ms = append(ms, n.Name)
							}
						}
						iface[ts.Name.Name] = ms
					}
				}
			}
			fd, ok := d.(*ast.FuncDecl)
			if !ok || fd.Body == nil {
				continue
			}
			x := &fn{name: fd.Name.Name, decl: fd, imports: imps}
			if fd.Recv != nil && len(fd.Recv.List) == 1 {
				x.recvType = typeName(fd.Recv.List[0].Type)
				if len(fd.Recv.List[0].Names) == 1 {
					x.recvName = fd.Recv.List[0].Names[0].Name
				}
			}
			x.qual = x.recvType + "_" + x.name
			x.exported = isUpper(x.name) && (x.recvType == "" || isUpper(x.recvType))
			if _, dup := byQual[x.qual]; dup {
				continue // e.g. several init(); first one wins (never relevant)
			}
			byQual[x.qual] = x
			all = append(all, x)
			if x.recvType != "" {
				methods[x.name] = append(methods[x.name], x)
			}
		}
	}
	for _, st := range structs {
		for _, fl := range st.Fields.List {
			k := classify(fl.Type)
			ns := []string{}
			for _, n := range fl.Names {
				ns = append(ns, n.Name)
			}
			if len(ns) == 0 {
				ns = append(ns, typeName(fl.Type)) // embedded (pkg.T: "")
			}
			for _, n := range ns {
				if old, ok := fieldType[n]; ok && old != k {
					k = ""
				}
				fieldType[n] = k
			}
		}
	}
	for _, l := range methods {
		sort.Slice(l, func(i, j int) bool { return l[i].qual < l[j].qual })
	}
	for _, f := range all {
		walk(f, byQual, methods)
	}
	// relevant set
	rel := map[string]bool{}
	for _, f := range all {
		for _, e := range f.evs {
			switch e.kind {
			case "lock", "unlock", "deferUnlock", "load", "store", "cas", "add":
				rel[f.qual] = true
			}
		}
	}
	for changed := true; changed; {
		changed = false
		for _, f := range all {
			if rel[f.qual] {
				continue
			}
			for _, e := range f.evs {
				for _, c := range e.callees {
					if rel[c] {
						rel[f.qual] = true
						changed = true
					}
				}
			}
		}
	}
	var names []string
	for q := range rel {
		names = append(names, q)
	}
	sort.Strings(names)
	id := map[string]int{}
	for i, q := range names {
		id[q] = i
	}
	// final event lists (calls split per relevant callee)
	type fe struct {
		kind string
		a, b int
	}
	rows := make([][]fe, len(names))
	nev := 0
	for i, q := range names {
		for _, e := range byQual[q].evs {
			if e.kind == "call" {
				for _, c := range e.callees {
					if rel[c] {
						rows[i] = append(rows[i], fe{"call", id[c], 0})
					}
				}
				continue
			}
			rows[i] = append(rows[i], fe{e.kind, e.a, e.b})
		}
		nev += len(rows[i])
	}
	// acq: least fixpoint
	acq := make([]map[int]bool, len(names))
	for i := range acq {
		acq[i] = map[int]bool{}
		for _, e := range rows[i] {
			if e.kind == "lock" {
				acq[i][e.a] = true
			}
		}
	}
	for changed := true; changed; {
		changed = false
		for i := range rows {
			for _, e := range rows[i] {
				if e.kind == "call" {
					for m := range acq[e.a] {
						if !acq[i][m] {
							acq[i][m] = true
							changed = true
						}
					}
				}
			}
		}
	}
	// underHM: greatest fixpoint
	type site struct {
		g    int
		held bool
	}
	sites := make([][]site, len(names))
	for g := range rows {
		held := false
		for _, e := range rows[g] {
			switch {
			case e.kind == "lock" && e.a == 0:
				held = true
			case e.kind == "unlock" && e.a == 0:
				held = false
			case e.kind == "call":
				sites[e.a] = append(sites[e.a], site{g, held})
			}
		}
	}
	S := map[int]bool{}
	for i, q := range names {
		if !byQual[q].exported && len(sites[i]) > 0 {
			S[i] = true
		}
	}
	for changed := true; changed; {
		changed = false
		for i := range names {
			if !S[i] {
				continue
			}
			for _, s := range sites[i] {
				if !s.held && !S[s.g] {
					delete(S, i)
					changed = true
					break
				}
			}
		}
	}

	fmt.Fprintf(os.Stderr, "C34 extractor: %d relevant functions, %d events\n", len(names), nev)
	var sb strings.Builder
	fmt.Fprintf(&sb, "/-! T1 facts of C34: lock / atomic / call event lists of every function of package tls that touches\n"+
		"(directly or through calls) Conn.handshakeMutex, Conn.in, Conn.out, Conn.handshakeStatus or Conn.activeCall; go/ast,\n"+
		"source order. %d relevant functions, %d events. -/\n", len(names), nev)
	sb.WriteString("namespace ZV.C34.Gen\n\n")
	sb.WriteString("/-- mutex ids: 0 handshakeMutex, 1 in, 2 out; atomic ids: 0 handshakeStatus, 1 activeCall -/\n")
	sb.WriteString("inductive Ev where\n  | lock (m : Nat) | unlock (m : Nat) | deferUnlock (m : Nat)\n" +
		"  | load (v : Nat) | store (v : Nat) (k : Nat) | cas (v : Nat) | add (v : Nat)\n" +
		"  | call (f : Nat) | flush | retNil\n  deriving DecidableEq, Repr\n\n")
	qn := make([]string, len(names))
	for i, q := range names {
		qn[i] = zvx.LeanStr(q)
	}
	sb.WriteString("/-- qualified names, index = function id -/\ndef funcNames : List String := [" + strings.Join(qn, ", ") + "]\n")
	sb.WriteString("/-- event list per function id, source order -/\ndef funcs : List (List Ev) := [\n")
	for i, q := range names {
		var es []string
		for _, e := range rows[i] {
			switch e.kind {
			case "flush", "retNil":
				es = append(es, "."+e.kind)
			case "store":
				es = append(es, fmt.Sprintf(".store %d %d", e.a, e.b))
			default:
				es = append(es, fmt.Sprintf(".%s %d", e.kind, e.a))
			}
		}
		sep := ","
		if i == len(names)-1 {
			sep = ""
		}
		fmt.Fprintf(&sb, "  -- %d %s\n  [%s]%s\n", i, q, strings.Join(es, ", "), sep)
	}
	sb.WriteString("  ]\n")
	var ex []string
	for i, q := range names {
		if byQual[q].exported {
			ex = append(ex, strconv.Itoa(i))
		}
	}
	sb.WriteString("/-- ids of exported functions/methods (name starts upper-case AND receiver type, if any, is exported) -/\n")
	sb.WriteString("def exported : List Nat := [" + strings.Join(ex, ", ") + "]\n")
	sb.WriteString("/-- certificate: for each function id the set (sorted list) of mutex ids it may acquire, itself or through calls (least fixpoint) -/\n")
	sb.WriteString("def acq : List (List Nat) := [\n")
	for i := range names {
		var ms []string
		for m := 0; m < 3; m++ {
			if acq[i][m] {
				ms = append(ms, strconv.Itoa(m))
			}
		}
		sep := ","
		if i == len(names)-1 {
			sep = ""
		}
		fmt.Fprintf(&sb, "  [%s]%s -- %d %s\n", strings.Join(ms, ", "), sep, i, names[i])
	}
	sb.WriteString("  ]\n")
	var uh, uhn []string
	for i := range names {
		if S[i] {
			uh = append(uh, strconv.Itoa(i))
			uhn = append(uhn, names[i])
		}
	}
	sb.WriteString("/-- certificate: ids of functions that are only ever called with handshakeMutex held: greatest set S of\nnon-exported functions having at least one call site in the table such that every call site of f (a `.call f` event in\nsome g) has mutex 0 held at that point in g (held = `.lock 0` seen earlier in g's list and no `.unlock 0` since;\ndeferUnlock does not release) or g ∈ S -/\n")
	sb.WriteString("def underHM : List Nat := [" + strings.Join(uh, ", ") + "]\n")
	sb.WriteString("-- underHM names: " + strings.Join(uhn, " ") + "\n")
	for i, q := range names {
		fmt.Fprintf(&sb, "def id_%s : Nat := %d\n", q, i)
	}
	sb.WriteString("end ZV.C34.Gen\n")
	return sb.String(), nil
}

// atomField returns the atomic id of an argument `&X.handshakeStatus` / `&X.activeCall` and the selector node.
func atomField(e ast.Expr) (int, *ast.SelectorExpr, bool) {
	u, ok := e.(*ast.UnaryExpr)
	if !ok || u.Op != token.AND {
		return 0, nil, false
	}
	s, ok := u.X.(*ast.SelectorExpr)
	if !ok {
		return 0, nil, false
	}
	v, ok := atomID[s.Sel.Name]
	return v, s, ok
}

func walk(f *fn, byQual map[string]*fn, methods map[string][]*fn) {
	// syntactic local types: hs := &T{..} / hs := T{..} / var hs T / parameter hs T or *T
	local := map[string]string{}
	if f.decl.Type.Params != nil {
		for _, p := range f.decl.Type.Params.List {
			if t := classify(p.Type); t != "" {
				for _, n := range p.Names {
					local[n.Name] = t
				}
			}
		}
	}
	// updated during the walk (pre-order = source order): the most recent declaration before a call counts
	upd := func(n ast.Node) bool {
		switch x := n.(type) {
		case *ast.AssignStmt:
			if x.Tok == token.DEFINE && len(x.Lhs) == len(x.Rhs) {
				for i, l := range x.Lhs {
					id, ok := l.(*ast.Ident)
					if !ok {
						continue
					}
					delete(local, id.Name) // redeclared: unknown unless recognised below
					r := x.Rhs[i]
					if u, ok := r.(*ast.UnaryExpr); ok && u.Op == token.AND {
						r = u.X
					}
					if cl, ok := r.(*ast.CompositeLit); ok && cl.Type != nil {
						if t := classify(cl.Type); t != "" {
							local[id.Name] = t
						}
					} else if ce, ok := r.(*ast.CallExpr); ok { // x := pkg.F(...)
						if se, ok := ce.Fun.(*ast.SelectorExpr); ok {
							if pk, ok := se.X.(*ast.Ident); ok && f.imports[pk.Name] {
								local[id.Name] = "ext"
							}
						}
					}
				}
			}
		case *ast.DeclStmt:
			if gd, ok := x.Decl.(*ast.GenDecl); ok && gd.Tok == token.VAR {
				for _, sp := range gd.Specs {
					vs := sp.(*ast.ValueSpec)
					if vs.Type == nil {
						continue
					}
					if t := classify(vs.Type); t != "" {
						for _, nm := range vs.Names {
							local[nm.Name] = t
						}
					}
				}
			}
		}
		return true
	}

	deferred := map[*ast.CallExpr]bool{}
	consumed := map[*ast.SelectorExpr]bool{}
	emit := func(e ev) { f.evs = append(f.evs, e) }
	ast.Inspect(f.decl.Body, func(n ast.Node) bool {
		upd(n)
		switch x := n.(type) {
		case *ast.DeferStmt:
			deferred[x.Call] = true
		case *ast.ReturnStmt:
			if len(x.Results) == 1 {
				if id, ok := x.Results[0].(*ast.Ident); ok && id.Name == "nil" {
					emit(ev{kind: "retNil"})
				}
			}
		case *ast.SelectorExpr:
			if v, ok := atomID[x.Sel.Name]; ok && !consumed[x] {
				emit(ev{kind: "store", a: v, b: 98})
			}
		case *ast.CallExpr:
			switch fun := x.Fun.(type) {
			case *ast.Ident:
				if g, ok := byQual["_"+fun.Name]; ok {
					emit(ev{kind: "call", callees: []string{g.qual}})
				}
			case *ast.SelectorExpr:
				name := fun.Sel.Name
				// mutexes
				if name == "Lock" || name == "Unlock" {
					if in, ok := fun.X.(*ast.SelectorExpr); ok {
						if m, ok := mutexID[in.Sel.Name]; ok {
							k := "lock"
							if name == "Unlock" {
								k = "unlock"
								if deferred[x] {
									k = "deferUnlock"
								}
							}
							emit(ev{kind: k, a: m})
							return true
						}
					}
				}
				if pk, ok := fun.X.(*ast.Ident); ok && f.imports[pk.Name] && local[pk.Name] == "" && pk.Name != f.recvName {
					if pk.Name == "atomic" && len(x.Args) > 0 {
						if v, s, ok := atomField(x.Args[0]); ok {
							consumed[s] = true
							switch {
							case v == 0 && name == "LoadUint32", v == 1 && name == "LoadInt32":
								emit(ev{kind: "load", a: v})
							case v == 0 && name == "StoreUint32":
								k := 99
								if len(x.Args) == 2 {
									if bl, ok := x.Args[1].(*ast.BasicLit); ok && bl.Kind == token.INT {
										if kk, err := strconv.ParseInt(bl.Value, 0, 32); err == nil && kk >= 0 {
											k = int(kk)
										}
									}
								}
								emit(ev{kind: "store", a: 0, b: k})
							case v == 1 && name == "CompareAndSwapInt32":
								emit(ev{kind: "cas", a: 1})
							case v == 1 && name == "AddInt32":
								emit(ev{kind: "add", a: 1})
							default:
								emit(ev{kind: "store", a: v, b: 99})
							}
						}
					}
					return true // package-qualified call: ignored
				}
				if name == "flush" {
					emit(ev{kind: "flush"})
					return true
				}
				if c := resolve(f, fun, local, byQual, methods); len(c) > 0 {
					emit(ev{kind: "call", callees: c})
				}
			}
		}
		return true
	})
}

// resolve: candidates of the selector call X.f, by name.
//
//	(a) X is the receiver identifier and the receiver type has f -> that method
//	(b) X is `c` or ends in `.c` and Conn has f -> Conn_f
//	(t) syntactic type of X known (local variable / parameter / struct field with the same declared type in every
//	    struct of the package): "ext" -> no tls method (ignored); tls type T with method f -> T_f; tls interface T ->
//	    every method f of a type that has all explicitly listed methods of T
//	(1) f unexported: exactly one method named f -> it;  (d) otherwise every method named f (over-approximation)
//	(x) f exported and not resolved by (a), (b), (t): ignored (the callee may be declared outside package tls)
func resolve(f *fn, sel *ast.SelectorExpr, local map[string]string, byQual map[string]*fn, methods map[string][]*fn) []string {
	name := sel.Sel.Name
	cands := methods[name]
	if len(cands) == 0 {
		return nil
	}
	has := func(t string) bool { _, ok := byQual[t+"_"+name]; return ok && t != "" }
	t := ""
	switch x := sel.X.(type) {
	case *ast.Ident:
		if f.recvName != "" && x.Name == f.recvName {
			if has(f.recvType) { // (a)
				return []string{f.recvType + "_" + name}
			}
			t = f.recvType
		} else if _, isLocal := local[x.Name]; x.Name == "c" && has("Conn") && !isLocal { // (b)
			return []string{"Conn_" + name}
		} else {
			t = local[x.Name]
		}
	case *ast.SelectorExpr:
		if x.Sel.Name == "c" && has("Conn") { // (b)
			return []string{"Conn_" + name}
		}
		t = fieldType[x.Sel.Name]
	}
	if t == "ext" {
		return nil
	}
	if has(t) {
		return []string{t + "_" + name}
	}
	if ms, ok := iface[t]; ok && !isUpper(name) {
		var out []string
		for _, c := range cands {
			okc := true
			for _, m := range ms {
				if _, ok := byQual[c.recvType+"_"+m]; !ok {
					okc = false
				}
			}
			if okc {
				out = append(out, c.qual)
			}
		}
		return out
	}
	if isUpper(name) {
		// exported method name: types outside package tls may declare it too (net.Conn.Close, bytes.Reader.Read,
		// x509.Certificate.VerifyHostname, hash.Hash.Write ...), so "unique candidate" / "all candidates" would be wrong
		// rather than over-approximate: resolved only through (a), (b), (t) above, otherwise ignored.
		return nil
	}
	var out []string // (1), (d)
	for _, c := range cands {
		out = append(out, c.qual)
	}
	return out
}
