// Package zvx is the registry of T1 extractors: each writes one Lean file with facts (tables, switch maps,
// constants) taken from /repo's CURRENT working tree — at run time through verif-tagged dump hooks, or
// syntactically with go/ast.  Theorems in lean/ZV/Props quantify over these generated definitions.
package zvx

import (
	"fmt"
	"sort"
	"strings"
)

// Extractor returns the body of lean/ZV/Generated/<Name>.lean (without the header).
type Extractor struct {
	Name string // Lean file / module name, e.g. "C33"
	Run  func(repo string) (string, error)
}

var all []Extractor

func Register(e Extractor) { all = append(all, e) }
func All() []Extractor {
	sort.Slice(all, func(i, j int) bool { return all[i].Name < all[j].Name })
	return all
}

// LeanStr renders a Go string as a Lean string literal.
func LeanStr(s string) string {
	var b strings.Builder
	b.WriteByte('"')
	for _, r := range s {
		switch {
		case r == '"':
			b.WriteString("\\\"")
		case r == '\\':
			b.WriteString("\\\\")
		case r == '\n':
			b.WriteString("\\n")
		case r < 32 || r == 127:
			b.WriteString(fmt.Sprintf("\\x%02x", r))
		default:
			b.WriteRune(r)
		}
	}
	b.WriteByte('"')
	return b.String()
}

// LeanList renders items as a Lean list literal, one per line.
func LeanList(items []string) string {
	if len(items) == 0 {
		return "[]"
	}
	return "[\n  " + strings.Join(items, ",\n  ") + "]"
}
