package tlsrig

import (
	"net"
	"sync"
	"time"

	"github.com/zmap/zcrypto/tls"
)

// Side is what one endpoint reports after Handshake returned.
type Side struct {
	Err   error
	State tls.ConnectionState
	EKM   []byte // ExportKeyingMaterial("zv exporter", ctx, 32) or nil
	Conn  *tls.Conn
	Panic any
}

type Result struct {
	Client, Server Side
	TimedOut       bool
	// raw transcripts as seen by the client's transport
	ClientIn, ClientOut []byte
}

type Opts struct {
	Timeout time.Duration
	// WrapClient / WrapServer may interpose on the transports (fault injection)
	WrapClient func(net.Conn) net.Conn
	WrapServer func(net.Conn) net.Conn
	KeepOpen   bool // do not close the connections after the handshake (caller continues with app data)
}

// Handshake runs a real zcrypto client against a real zcrypto server over a buffered in-memory transport.
func Handshake(ccfg, scfg *tls.Config, o Opts) *Result {
	if o.Timeout == 0 {
		o.Timeout = 20 * time.Second // in-memory handshakes take milliseconds; only a hang or a starved machine gets here
	}
	a, b := Pipe()
	tap := &Tap{Conn: a}
	var ct, st net.Conn = tap, b
	if o.WrapClient != nil {
		ct = o.WrapClient(tap)
	}
	if o.WrapServer != nil {
		st = o.WrapServer(b)
	}
	cc := tls.Client(ct, ccfg)
	sc := tls.Server(st, scfg)
	res := &Result{}
	res.Client.Conn, res.Server.Conn = cc, sc
	var wg sync.WaitGroup
	run := func(c *tls.Conn, s *Side, other net.Conn) {
		defer wg.Done()
		defer func() {
			if r := recover(); r != nil {
				s.Panic = r
				other.Close()
			}
		}()
		s.Err = c.Handshake()
		if s.Err == nil {
			s.State = c.ConnectionState()
			if ekm, err := s.State.ExportKeyingMaterial("zv exporter", []byte("ctx"), 32); err == nil {
				s.EKM = ekm
			}
		} else {
			// make the peer's pending read fail instead of waiting for the timeout
			c.Close()
		}
	}
	wg.Add(2)
	go run(cc, &res.Client, b)
	go run(sc, &res.Server, a)
	done := make(chan struct{})
	go func() { wg.Wait(); close(done) }()
	select {
	case <-done:
	case <-time.After(o.Timeout):
		res.TimedOut = true
		a.Close()
		b.Close()
		<-done
	}
	res.ClientIn, res.ClientOut = tap.Snapshot()
	if !o.KeepOpen {
		cc.Close()
		sc.Close()
	}
	return res
}
