package tlsrig

// ScriptReader: a deterministic transport read side. The whole byte stream is known in advance and is handed to
// the endpoint step by step, using everything the io.Reader / net.Conn contracts allow a transport to do:
//
//	short reads of any size                         Step{N: k}
//	zero-byte reads with a nil error                Step{N: 0}
//	data together with io.EOF in one call           Step{N: k, Err: io.EOF} as the last step
//	data together with a (temporary) timeout error  Step{N: k, Err: TimeoutErr(..)}: a read deadline fired after k
//	                                                bytes had arrived
//	a timeout without data                          Step{N: 0, Err: TimeoutErr(..)}
//
// Nothing depends on goroutine timing: a Read never blocks. Install it with RecordBox.ReadHook = s.Read.

import (
	"io"
	"net"
	"os"
	"time"
)

var (
	timeZero time.Time
	timePast = time.Unix(1, 0)
)

// Step is one planned transport event.
type Step struct {
	N   int   // stream bytes this step hands out (in several Reads when the caller's buffer is smaller)
	Err error // returned by the Read that exhausts the step, together with its last bytes (nil: plain short read)
}

// ScriptReader replays Stream according to Steps. After the last step every Read returns (0, io.EOF).
// Bytes of Stream not covered by the steps are delivered by one final plain step before that EOF.
type ScriptReader struct {
	Stream []byte
	Steps  []Step
	// OnRead, if set, is called at the start of every Read with the number of stream bytes handed out so far
	// (from the goroutine that reads).
	OnRead func(off int)

	off, step, used int
	Reads           int // transport Read calls
	ZeroReads       int // of which returned (0, nil)
	Timeouts        int // of which returned a timeout error
	DataEOF         int // of which returned n > 0 together with io.EOF
	DataTimeout     int // of which returned n > 0 together with a timeout error
}

// Off is the number of stream bytes handed out so far.
func (s *ScriptReader) Off() int { return s.off }

func (s *ScriptReader) Read(p []byte) (int, error) {
	if s.OnRead != nil {
		s.OnRead(s.off)
	}
	s.Reads++
	if len(p) == 0 {
		return 0, nil
	}
	for {
		if s.step >= len(s.Steps) {
			if s.off < len(s.Stream) { // uncovered rest: plain delivery
				n := copy(p, s.Stream[s.off:])
				s.off += n
				return n, nil
			}
			return 0, io.EOF
		}
		st := s.Steps[s.step]
		rem := st.N - s.used
		if rem > len(s.Stream)-s.off {
			rem = len(s.Stream) - s.off
		}
		if rem < 0 {
			rem = 0
		}
		n := rem
		if n > len(p) {
			n = len(p)
		}
		copy(p[:n], s.Stream[s.off:s.off+n])
		s.off += n
		s.used += n
		if n < rem {
			return n, nil // the caller's buffer was smaller than the segment: the step continues
		}
		s.step++
		s.used = 0
		switch {
		case st.Err == nil:
			if n == 0 {
				s.ZeroReads++
			}
		case st.Err == io.EOF:
			if n > 0 {
				s.DataEOF++
			}
			if s.off < len(s.Stream) || s.step < len(s.Steps) {
				// an EOF in the middle of the script would be a rig error: ignore the mark
				return n, nil
			}
		case IsTimeout(st.Err):
			s.Timeouts++
			if n > 0 {
				s.DataTimeout++
			}
		}
		return n, st.Err
	}
}

// TimeoutErr returns the error a transport read reports when its deadline fires: either the bare
// os.ErrDeadlineExceeded (in-memory pipes, net.Pipe) or wrapped in a *net.OpError (kernel sockets).
// Both are net.Errors with Timeout() == Temporary() == true.
func TimeoutErr(wrapped bool) error {
	if wrapped {
		return &net.OpError{Op: "read", Net: "zvscript", Err: os.ErrDeadlineExceeded}
	}
	return os.ErrDeadlineExceeded
}

// IsTimeout reports whether err is a net.Error timeout (the way callers of net.Conn test for it).
func IsTimeout(err error) bool {
	ne, ok := err.(net.Error)
	return ok && ne.Timeout()
}

// DrainPending removes and returns the bytes that are already buffered for reading on an in-memory transport
// (for example TLS 1.3 session tickets the peer wrote at the end of its handshake) without blocking.
func DrainPending(c net.Conn) []byte {
	var out []byte
	c.SetReadDeadline(timePast)
	buf := make([]byte, 4096)
	for {
		n, err := c.Read(buf)
		out = append(out, buf[:n]...)
		if err != nil || n == 0 {
			break
		}
	}
	c.SetReadDeadline(timeZero)
	return out
}

// RecordAlignedRead returns a read function over c that never hands out bytes of two TLS records in one call
// (header and body are served separately). Installed as RecordBox.ReadHook during a handshake it keeps the endpoint
// from reading ahead, so whatever the peer sends after its last handshake flight (TLS 1.3 session tickets) is
// still queued in the transport when the handshake returns.
func RecordAlignedRead(c net.Conn) func(p []byte) (int, error) {
	var hdr [5]byte
	have, body := 0, 0 // header bytes collected, body bytes still to deliver
	return func(p []byte) (int, error) {
		if len(p) == 0 {
			return 0, nil
		}
		if body > 0 {
			if len(p) > body {
				p = p[:body]
			}
			n, err := c.Read(p)
			body -= n
			return n, err
		}
		if len(p) > 5-have {
			p = p[:5-have]
		}
		n, err := c.Read(p)
		copy(hdr[have:], p[:n])
		if have += n; have == 5 {
			have, body = 0, int(hdr[3])<<8|int(hdr[4])
		}
		return n, err
	}
}
