package tlsrig

// Record-level tooling for post-handshake wire experiments: a TLS record splitter and a
// record-aware middlebox (RecordBox) that sits between an endpoint and its transport.

import (
	"net"
	"sync"
)

// SplitRecords parses b as a sequence of TLS records (5-byte header, 16-bit length) and returns the complete
// records (header included, aliasing b) and the trailing incomplete rest.
func SplitRecords(b []byte) (recs [][]byte, rest []byte) {
	for len(b) >= 5 {
		n := 5 + (int(b[3])<<8 | int(b[4]))
		if len(b) < n {
			break
		}
		recs = append(recs, b[:n:n])
		b = b[n:]
	}
	return recs, b
}

// BoxMode selects what a RecordBox does with the bytes its endpoint writes.
type BoxMode int

const (
	BoxPass BoxMode = iota // forward unchanged, do not log (handshake phase)
	BoxLog                 // forward unchanged, log the byte stream (record parsing on demand)
	BoxHold                // log and hold back: nothing reaches the peer until Release / Inject
)

// RecordBox wraps one endpoint's transport. Outgoing bytes are passed, logged or held according to Mode;
// incoming transport reads can be cut into segments of a caller-chosen size (ReadSeg) so that the endpoint sees
// an arbitrarily segmented byte stream. All methods are safe for concurrent use by one reader and one writer.
type RecordBox struct {
	net.Conn
	mu   sync.Mutex
	mode BoxMode
	log  []byte // bytes written by the endpoint since the last SetMode(BoxLog/BoxHold)
	// ReadSeg, if set, returns the maximal number of bytes the next transport Read may return (<=0: no limit).
	// Called only from the reading goroutine. With Exact the read blocks until that many bytes (or the buffer
	// size, EOF or an error) are available, which makes the segmentation independent of goroutine timing.
	ReadSeg func() int
	Exact   bool
	pendErr error
	// EOFWithData (Exact mode only): when the transport ends while a segment is being collected, return the
	// collected bytes together with the error in the same call (n > 0, io.EOF), as io.Reader allows, instead of
	// (n, nil) followed by (0, io.EOF).
	EOFWithData bool
	// ReadHook, if set, replaces the transport read side altogether (see ScriptReader).
	ReadHook func(p []byte) (int, error)
}

func NewRecordBox(c net.Conn) *RecordBox { return &RecordBox{Conn: c} }

// SetMode switches the write-side behaviour; switching to BoxLog or BoxHold clears the log.
func (b *RecordBox) SetMode(m BoxMode) {
	b.mu.Lock()
	b.mode = m
	if m != BoxPass {
		b.log = nil
	}
	b.mu.Unlock()
}

func (b *RecordBox) Write(p []byte) (int, error) {
	b.mu.Lock()
	m := b.mode
	if m != BoxPass {
		b.log = append(b.log, p...)
	}
	b.mu.Unlock()
	if m == BoxHold {
		return len(p), nil
	}
	return b.Conn.Write(p)
}

// Logged returns a copy of the bytes written by the endpoint since logging started.
func (b *RecordBox) Logged() []byte {
	b.mu.Lock()
	defer b.mu.Unlock()
	return append([]byte(nil), b.log...)
}

// LoggedLen is the number of bytes logged so far (record boundaries of individual writes can be found with it).
func (b *RecordBox) LoggedLen() int {
	b.mu.Lock()
	defer b.mu.Unlock()
	return len(b.log)
}

// Inject writes raw bytes to the peer, bypassing mode and log (used to release held, possibly altered, records).
func (b *RecordBox) Inject(p []byte) error {
	_, err := b.Conn.Write(p)
	return err
}

// CloseTransportWrite half-closes the underlying in-memory pipe: the peer sees EOF after draining.
func (b *RecordBox) CloseTransportWrite() {
	var c net.Conn = b.Conn
	for {
		switch t := c.(type) {
		case *Tap:
			c = t.Conn
			continue
		case *RecordBox:
			c = t.Conn
			continue
		case interface{ CloseWrite() error }:
			t.CloseWrite()
		default:
			c.Close()
		}
		return
	}
}

func (b *RecordBox) Read(p []byte) (int, error) {
	if b.ReadHook != nil {
		return b.ReadHook(p)
	}
	if b.ReadSeg == nil {
		return b.Conn.Read(p)
	}
	if b.pendErr != nil {
		err := b.pendErr
		b.pendErr = nil
		return 0, err
	}
	k := b.ReadSeg()
	if k <= 0 || k > len(p) {
		k = len(p)
	}
	if !b.Exact {
		return b.Conn.Read(p[:k])
	}
	n := 0
	for n < k {
		m, err := b.Conn.Read(p[n:k])
		n += m
		if err != nil {
			if n > 0 && b.EOFWithData {
				return n, err // later reads reach the transport again, which keeps reporting its end
			}
			if n > 0 {
				b.pendErr = err
				return n, nil
			}
			return 0, err
		}
	}
	return n, nil
}
