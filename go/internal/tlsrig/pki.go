package tlsrig

import (
	"crypto"
	"crypto/ecdsa"
	"crypto/ed25519"
	"crypto/elliptic"
	"crypto/rand"
	"crypto/rsa"
	stdx509 "crypto/x509"
	"crypto/x509/pkix"
	"math/big"
	"net"
	"sync"
	"time"

	zrsa "github.com/zmap/zcrypto/rsa"
	"github.com/zmap/zcrypto/tls"
	"github.com/zmap/zcrypto/x509"
)

// PKI is a small fixed test PKI created once per process with the Go standard library
// (independent of the code under test): one root, one leaf per key type, plus "bad" variants.
type PKI struct {
	RootDER  []byte
	RootKey  *ecdsa.PrivateKey
	Roots    *x509.CertPool // zcrypto pool holding the root
	Leaf     map[string]tls.Certificate // "rsa", "ecdsa", "ecdsa384", "ed25519": valid for DNS example.com, 127.0.0.1
	Expired  tls.Certificate            // ecdsa leaf, NotAfter in the past
	WrongName tls.Certificate           // ecdsa leaf for other.test
	Untrusted tls.Certificate           // ecdsa leaf under another root
	OtherRootDER []byte
	Client   map[string]tls.Certificate // client-auth leaves (ExtKeyUsageClientAuth) "rsa", "ecdsa", "ed25519"
	ClientUntrusted tls.Certificate
	Keys     map[string]crypto.Signer
}

var (
	pkiOnce sync.Once
	pki     *PKI
)

const Host = "example.com"

func mustSerial(i int64) *big.Int { return big.NewInt(1000 + i) }

func GetPKI() *PKI {
	pkiOnce.Do(func() { pki = buildPKI() })
	return pki
}

func buildPKI() *PKI {
	now := time.Now()
	p := &PKI{Leaf: map[string]tls.Certificate{}, Client: map[string]tls.Certificate{}, Keys: map[string]crypto.Signer{}}
	mkRoot := func(cn string) ([]byte, *ecdsa.PrivateKey, *stdx509.Certificate) {
		k, err := ecdsa.GenerateKey(elliptic.P256(), rand.Reader)
		if err != nil {
			panic(err)
		}
		t := &stdx509.Certificate{SerialNumber: mustSerial(1), Subject: pkix.Name{CommonName: cn},
			NotBefore: now.Add(-24 * time.Hour), NotAfter: now.Add(24 * 365 * time.Hour),
			IsCA: true, BasicConstraintsValid: true, KeyUsage: stdx509.KeyUsageCertSign | stdx509.KeyUsageDigitalSignature}
		der, err := stdx509.CreateCertificate(rand.Reader, t, t, &k.PublicKey, k)
		if err != nil {
			panic(err)
		}
		c, _ := stdx509.ParseCertificate(der)
		return der, k, c
	}
	rootDER, rootKey, rootCert := mkRoot("zv root")
	p.RootDER, p.RootKey = rootDER, rootKey
	p.Roots = x509.NewCertPool()
	zc, err := x509.ParseCertificate(rootDER)
	if err != nil {
		panic(err)
	}
	p.Roots.AddCert(zc)
	otherDER, otherKey, otherCert := mkRoot("zv other root")
	p.OtherRootDER = otherDER

	serial := int64(10)
	leaf := func(key crypto.Signer, dns string, nb, na time.Time, issuer *stdx509.Certificate, ikey crypto.Signer, eku stdx509.ExtKeyUsage) tls.Certificate {
		serial++
		t := &stdx509.Certificate{SerialNumber: mustSerial(serial), Subject: pkix.Name{CommonName: dns},
			NotBefore: nb, NotAfter: na, DNSNames: []string{dns}, IPAddresses: []net.IP{net.ParseIP("127.0.0.1")},
			KeyUsage:    stdx509.KeyUsageDigitalSignature | stdx509.KeyUsageKeyEncipherment,
			ExtKeyUsage: []stdx509.ExtKeyUsage{eku}}
		der, err := stdx509.CreateCertificate(rand.Reader, t, issuer, key.Public(), ikey)
		if err != nil {
			panic(err)
		}
		zl, err := x509.ParseCertificate(der)
		if err != nil {
			panic(err)
		}
		return tls.Certificate{Certificate: [][]byte{der}, PrivateKey: ZKey(key), Leaf: zl}
	}
	rsaKey, err := rsa.GenerateKey(rand.Reader, 2048)
	if err != nil {
		panic(err)
	}
	ecKey, _ := ecdsa.GenerateKey(elliptic.P256(), rand.Reader)
	ec384, _ := ecdsa.GenerateKey(elliptic.P384(), rand.Reader)
	_, edKey, _ := ed25519.GenerateKey(rand.Reader)
	p.Keys["rsa"], p.Keys["ecdsa"], p.Keys["ecdsa384"], p.Keys["ed25519"] = rsaKey, ecKey, ec384, edKey
	nb, na := now.Add(-time.Hour), now.Add(24*30*time.Hour)
	for name, k := range p.Keys {
		p.Leaf[name] = leaf(k, Host, nb, na, rootCert, rootKey, stdx509.ExtKeyUsageServerAuth)
	}
	p.Expired = leaf(ecKey, Host, now.Add(-48*time.Hour), now.Add(-24*time.Hour), rootCert, rootKey, stdx509.ExtKeyUsageServerAuth)
	p.WrongName = leaf(ecKey, "other.test", nb, na, rootCert, rootKey, stdx509.ExtKeyUsageServerAuth)
	p.Untrusted = leaf(ecKey, Host, nb, na, otherCert, otherKey, stdx509.ExtKeyUsageServerAuth)
	crsa, _ := rsa.GenerateKey(rand.Reader, 2048)
	cec, _ := ecdsa.GenerateKey(elliptic.P256(), rand.Reader)
	_, ced, _ := ed25519.GenerateKey(rand.Reader)
	p.Client["rsa"] = leaf(crsa, "client", nb, na, rootCert, rootKey, stdx509.ExtKeyUsageClientAuth)
	p.Client["ecdsa"] = leaf(cec, "client", nb, na, rootCert, rootKey, stdx509.ExtKeyUsageClientAuth)
	p.Client["ed25519"] = leaf(ced, "client", nb, na, rootCert, rootKey, stdx509.ExtKeyUsageClientAuth)
	p.ClientUntrusted = leaf(cec, "client", nb, na, otherCert, otherKey, stdx509.ExtKeyUsageClientAuth)
	return p
}

// ZKey converts a standard-library RSA private key into zcrypto's own rsa.PrivateKey type
// (the zcrypto tls package only understands its fork's key types); other keys pass through.
func ZKey(k crypto.Signer) crypto.PrivateKey {
	r, ok := k.(*rsa.PrivateKey)
	if !ok {
		return k
	}
	z := &zrsa.PrivateKey{PublicKey: zrsa.PublicKey{N: r.N, E: big.NewInt(int64(r.E))}, D: r.D, Primes: r.Primes}
	z.Precompute()
	return z
}
