// Package tlsrig: shared rig for real zcrypto client/server handshakes in-process
// (buffered in-memory transport, small PKI, fault-injecting middlebox).
package tlsrig

import (
	"io"
	"net"
	"os"
	"sync"
	"time"
)

// half is one direction of a buffered pipe: writes never block, reads block until data, close or deadline.
type half struct {
	mu       sync.Mutex
	cond     *sync.Cond
	buf      []byte
	closed   bool // writer closed: reader sees EOF after draining
	rclosed  bool // reader closed: writes fail
	deadline time.Time
	timer    *time.Timer
}

func newHalf() *half { h := &half{}; h.cond = sync.NewCond(&h.mu); return h }

func (h *half) write(p []byte) (int, error) {
	h.mu.Lock()
	defer h.mu.Unlock()
	if h.closed || h.rclosed {
		return 0, io.ErrClosedPipe
	}
	h.buf = append(h.buf, p...)
	h.cond.Broadcast()
	return len(p), nil
}

func (h *half) read(p []byte) (int, error) {
	h.mu.Lock()
	defer h.mu.Unlock()
	for {
		if h.rclosed {
			return 0, io.ErrClosedPipe
		}
		if len(h.buf) > 0 {
			n := copy(p, h.buf)
			h.buf = h.buf[n:]
			return n, nil
		}
		if h.closed {
			return 0, io.EOF
		}
		if !h.deadline.IsZero() && !time.Now().Before(h.deadline) {
			return 0, os.ErrDeadlineExceeded
		}
		h.cond.Wait()
	}
}

func (h *half) setDeadline(t time.Time) {
	h.mu.Lock()
	defer h.mu.Unlock()
	h.deadline = t
	if h.timer != nil {
		h.timer.Stop()
		h.timer = nil
	}
	if !t.IsZero() {
		d := time.Until(t)
		if d < 0 {
			d = 0
		}
		h.timer = time.AfterFunc(d, func() { h.mu.Lock(); h.cond.Broadcast(); h.mu.Unlock() })
	}
	h.cond.Broadcast()
}

func (h *half) closeWrite() { h.mu.Lock(); h.closed = true; h.cond.Broadcast(); h.mu.Unlock() }
func (h *half) closeRead()  { h.mu.Lock(); h.rclosed = true; h.cond.Broadcast(); h.mu.Unlock() }

// Conn is one end of a buffered in-memory duplex connection.
type Conn struct {
	r, w *half
	once sync.Once
}

type addr struct{}

func (addr) Network() string { return "zvpipe" }
func (addr) String() string  { return "zvpipe" }

func (c *Conn) Read(p []byte) (int, error)  { return c.r.read(p) }
func (c *Conn) Write(p []byte) (int, error) { return c.w.write(p) }
func (c *Conn) Close() error {
	c.once.Do(func() { c.w.closeWrite(); c.r.closeRead() })
	return nil
}
func (c *Conn) CloseWrite() error                  { c.w.closeWrite(); return nil }
func (c *Conn) LocalAddr() net.Addr                { return addr{} }
func (c *Conn) RemoteAddr() net.Addr               { return addr{} }
func (c *Conn) SetDeadline(t time.Time) error      { c.r.setDeadline(t); return nil }
func (c *Conn) SetReadDeadline(t time.Time) error  { c.r.setDeadline(t); return nil }
func (c *Conn) SetWriteDeadline(t time.Time) error { return nil }

// Pipe returns the two ends of a buffered duplex connection.
func Pipe() (*Conn, *Conn) {
	a, b := newHalf(), newHalf()
	return &Conn{r: a, w: b}, &Conn{r: b, w: a}
}

// Tap wraps a net.Conn and records everything read and written (for transcript capture).
type Tap struct {
	net.Conn
	mu   sync.Mutex
	In   []byte // bytes read from the peer
	Out  []byte // bytes written to the peer
	// WriteFilter, if set, may rewrite / drop / duplicate an outgoing chunk (fault injection). Returning nil drops it.
	WriteFilter func(seq int, p []byte) [][]byte
	nw          int
}

func (t *Tap) Read(p []byte) (int, error) {
	n, err := t.Conn.Read(p)
	t.mu.Lock()
	t.In = append(t.In, p[:n]...)
	t.mu.Unlock()
	return n, err
}

func (t *Tap) Write(p []byte) (int, error) {
	t.mu.Lock()
	t.Out = append(t.Out, p...)
	seq := t.nw
	t.nw++
	f := t.WriteFilter
	t.mu.Unlock()
	if f == nil {
		return t.Conn.Write(p)
	}
	for _, q := range f(seq, append([]byte(nil), p...)) {
		if _, err := t.Conn.Write(q); err != nil {
			return 0, err
		}
	}
	return len(p), nil
}

func (t *Tap) Snapshot() (in, out []byte) {
	t.mu.Lock()
	defer t.mu.Unlock()
	return append([]byte(nil), t.In...), append([]byte(nil), t.Out...)
}
