package zv

import (
	"sync"
	"testing"
	"time"
)

func TestRetryTimeouts(t *testing.T) {
	var mu sync.Mutex
	seen := map[string]int{}
	p := &Prop{ID: "T", Timeout: 300 * time.Millisecond, Exec: func(l string) Out {
		mu.Lock()
		seen[l]++
		n := seen[l]
		mu.Unlock()
		if l == "hang" {
			time.Sleep(5 * time.Second)
		}
		if l == "slow-once" && n == 1 {
			time.Sleep(time.Second)
		}
		return Out{Go: "ok " + l}
	}}
	lines := []string{"a", "slow-once", "b"}
	outs := make([]Out, len(lines))
	for i, l := range lines {
		outs[i] = safeExec(p, l)
	}
	if outs[1].Go != "timeout" {
		t.Fatalf("expected first run to time out, got %q", outs[1].Go)
	}
	retryTimeouts(p, lines, outs, 2)
	if outs[1].Go != "ok slow-once" {
		t.Fatalf("retry did not replace the timeout: %q", outs[1].Go)
	}
	lines = []string{"hang"}
	outs = []Out{safeExec(p, "hang")}
	retryTimeouts(p, lines, outs, 2)
	if outs[0].Go != "timeout" || outs[0].Viol == "" {
		t.Fatalf("a genuine hang must stay a timeout: %+v", outs[0])
	}
}
