// Package zv is the shared part of the correspondence / oracle harness.
//
// A property registers a Prop: Gen produces self-contained input lines (the
// same lines are later piped to the Lean driver), Exec runs the REAL zcrypto
// code on one line and returns (a) the canonical observable output that the
// Lean model must reproduce (T2) and (b) a non-empty message when the
// property itself — evaluated on the implementation alone — fails on that
// input (T3).
package zv

import (
	"bufio"
	"encoding/hex"
	"encoding/json"
	"fmt"
	"os"
	"path/filepath"
	"runtime"
	"runtime/debug"
	"sort"
	"strings"
	"sync"
	"sync/atomic"
	"time"
)

// SplitMix64: every random choice of a run derives from VERIF_SEED through this.
type Rng struct{ s uint64 }

func NewRng(seed uint64) *Rng { return &Rng{s: seed} }
func (r *Rng) U64() uint64 {
	r.s += 0x9e3779b97f4a7c15
	z := r.s
	z = (z ^ (z >> 30)) * 0xbf58476d1ce4e5b9
	z = (z ^ (z >> 27)) * 0x94d049bb133111eb
	return z ^ (z >> 31)
}
func (r *Rng) Intn(n int) int {
	if n <= 0 {
		return 0
	}
	return int(r.U64() % uint64(n))
}
func (r *Rng) Bool() bool        { return r.U64()&1 == 1 }
func (r *Rng) Chance(p int) bool { return r.Intn(100) < p } // p percent
func (r *Rng) Bytes(n int) []byte {
	b := make([]byte, n)
	for i := range b {
		b[i] = byte(r.U64())
	}
	return b
}
func (r *Rng) Pick(n int) int { return r.Intn(n) }

// Read implements io.Reader so the Rng can seed key generation deterministically.
func (r *Rng) Read(p []byte) (int, error) {
	for i := range p {
		p[i] = byte(r.U64())
	}
	return len(p), nil
}
func (r *Rng) Fork() *Rng { return NewRng(r.U64()) }

// Hex writes lower-case hex, "-" for empty (a trailing blank would be trimmed by the driver).
func Hex(b []byte) string {
	if len(b) == 0 {
		return "-"
	}
	return hex.EncodeToString(b)
}
func UnHex(s string) []byte {
	if s == "-" {
		return nil
	}
	b, err := hex.DecodeString(s)
	if err != nil {
		panic("bad hex in input line: " + s)
	}
	return b
}

type Gen struct {
	Tier  string
	Seed  uint64
	Rng   *Rng
	emit  func(string)
	Quick bool
}

func (g *Gen) Emit(line string) { g.emit(line) }
func (g *Gen) Emitf(f string, a ...any) {
	g.emit(fmt.Sprintf(f, a...))
}

// N picks the case budget by tier.
func (g *Gen) N(quick, thorough int) int {
	if g.Quick {
		return quick
	}
	return thorough
}

// Result of running the real code on one line.
type Out struct {
	Go    string   // canonical output, compared with the Lean driver ("" = line is T3-only, not sent to the model)
	Viol  string   // T3: property fails on the implementation at this input
	Tags  []string // histogram keys (branches, sizes, error kinds)
	Trivial bool   // does not count as a non-trivial case
}

type Prop struct {
	ID     string
	Topic  string // driver topic; lines start with it
	Serial bool   // Exec touches process-global state: run single-threaded
	Gen    func(g *Gen)
	Exec   func(line string) Out
	// Timeout per case (0 = 60 s)
	Timeout time.Duration
	Rule   string // how cases are generated / what is non-trivial
}

var props = map[string]*Prop{}

func Register(p *Prop) { props[p.ID] = p }
func Lookup(id string) *Prop { return props[id] }
func IDs() []string {
	var ids []string
	for k := range props {
		ids = append(ids, k)
	}
	sort.Strings(ids)
	return ids
}

type Violation struct {
	Line string `json:"line"`
	What string `json:"what"`
	Go   string `json:"go"`
}

type Report struct {
	Property    string         `json:"property"`
	Tier        string         `json:"tier"`
	Seed        uint64         `json:"seed"`
	Evaluations int            `json:"evaluations"`
	Distinct    int            `json:"distinct_nontrivial"`
	ModelLines  int            `json:"model_lines"`
	Hist        map[string]int `json:"hist"`
	Samples     []string       `json:"samples"`
	Violations  []Violation    `json:"violations"`
	ViolationsTotal int        `json:"violations_total"`
	Rule        string         `json:"rule"`
	WallS       float64        `json:"wall_s"`
}

// violClass maps a violation message to a coarse class: first 60 bytes with digits and hex runs removed.
// lineKind is the first four tokens of a case line, long ones (data) left out.
func lineKind(l string) string {
	f := strings.Fields(l)
	if len(f) > 4 {
		f = f[:4]
	}
	var k []string
	for _, t := range f {
		if len(t) <= 24 {
			k = append(k, t)
		}
	}
	return strings.Join(k, " ")
}

func violClass(s string) string {
	var b strings.Builder
	for _, r := range s {
		if b.Len() >= 60 {
			break
		}
		if (r >= '0' && r <= '9') || (r >= 'a' && r <= 'f') {
			continue
		}
		b.WriteRune(r)
	}
	return b.String()
}

// timeouts counts watchdog expiries of this process. A hung call cannot be killed (its goroutine keeps spinning), so
// after maxTimeouts of them the remaining cases are skipped: the run ends quickly and reports the hanging inputs.
var timeouts int32

const maxTimeouts = 3

// safeExec runs Exec with recover and a watchdog.
func safeExec(p *Prop, line string) (out Out) {
	to := p.Timeout
	if to == 0 {
		to = 60 * time.Second
	}
	done := make(chan Out, 1)
	go func() {
		defer func() {
			if r := recover(); r != nil {
				st := string(debug.Stack())
				if len(st) > 1500 {
					st = st[:1500]
				}
				done <- Out{Go: "panic", Viol: fmt.Sprintf("panic: %v\n%s", r, st), Tags: []string{"PANIC"}}
			}
		}()
		done <- p.Exec(line)
	}()
	select {
	case o := <-done:
		return o
	case <-time.After(to):
		atomic.AddInt32(&timeouts, 1)
		return Out{Go: "timeout", Viol: "timeout: call did not return within " + to.String(), Tags: []string{"TIMEOUT"}}
	}
}

// retryTimeouts makes the watchdog independent of machine load: a case that hit the watchdog while all workers were
// busy is run again ALONE; only if it does not return then either is it reported as a timeout. When every timed-out case
// returned on its own, the cases skipped after the early abort are executed too (at most three such rounds). A genuine
// hang times out again and costs one more watchdog period per hung case (at most maxTimeouts of them).
func retryTimeouts(p *Prop, lines []string, outs []Out, workers int) {
	to := p.Timeout
	if to == 0 {
		to = 60 * time.Second
	}
	if to > 120*time.Second {
		return // properties with long-running cases bring their own reproduction logic
	}
	for round := 0; round < 3; round++ {
		still := 0
		for i := range outs {
			if outs[i].Go != "timeout" || len(outs[i].Tags) == 0 || outs[i].Tags[0] != "TIMEOUT" {
				continue
			}
			o := safeExec(p, lines[i])
			if o.Go == "timeout" {
				still++
				continue
			}
			o.Tags = append(o.Tags, "RETURNED-WHEN-RUN-ALONE-AFTER-WATCHDOG")
			outs[i] = o
		}
		if still > 0 {
			return
		}
		atomic.StoreInt32(&timeouts, 0)
		var skipped []int
		for i := range outs {
			if len(outs[i].Tags) == 1 && outs[i].Tags[0] == "SKIPPED-AFTER-TIMEOUTS" {
				skipped = append(skipped, i)
			}
		}
		if len(skipped) == 0 {
			return
		}
		var wg sync.WaitGroup
		idx := make(chan int, 1024)
		for w := 0; w < workers; w++ {
			wg.Add(1)
			go func() {
				defer wg.Done()
				for i := range idx {
					if atomic.LoadInt32(&timeouts) >= maxTimeouts {
						continue
					}
					outs[i] = safeExec(p, lines[i])
				}
			}()
		}
		for _, i := range skipped {
			idx <- i
		}
		close(idx)
		wg.Wait()
	}
}

// Run generates, executes and writes cases.in / go.out / report.json into dir.
func Run(p *Prop, tier string, seed uint64, dir string) error {
	t0 := time.Now()
	var lines []string
	g := &Gen{Tier: tier, Seed: seed, Rng: NewRng(seed ^ 0x5a5a), Quick: tier != "thorough"}
	g.emit = func(s string) {
		if strings.ContainsAny(s, "\n\r") {
			panic("newline in case line")
		}
		lines = append(lines, s)
	}
	// corpus first: minimised past failures kept under $ZV_CORPUS/<ID>/*.txt (one case line per line)
	if dir := os.Getenv("ZV_CORPUS"); dir != "" {
		files, _ := filepath.Glob(filepath.Join(dir, p.ID, "*.txt"))
		sort.Strings(files)
		for _, f := range files {
			b, err := os.ReadFile(f)
			if err != nil {
				continue
			}
			for _, l := range strings.Split(string(b), "\n") {
				l = strings.TrimSpace(l)
				if l != "" && !strings.HasPrefix(l, "#") {
					lines = append(lines, l)
				}
			}
		}
	}
	p.Gen(g)
	return execAndWrite(p, tier, seed, dir, lines, t0)
}

func execAndWrite(p *Prop, tier string, seed uint64, dir string, lines []string, t0 time.Time) error {
	outs := make([]Out, len(lines))
	workers := runtime.NumCPU()
	if p.Serial {
		workers = 1
	}
	var wg sync.WaitGroup
	idx := make(chan int, 1024)
	for w := 0; w < workers; w++ {
		wg.Add(1)
		go func() {
			defer wg.Done()
			for i := range idx {
				if atomic.LoadInt32(&timeouts) >= maxTimeouts {
					outs[i] = Out{Tags: []string{"SKIPPED-AFTER-TIMEOUTS"}, Trivial: true}
					continue
				}
				outs[i] = safeExec(p, lines[i])
			}
		}()
	}
	for i := range lines {
		idx <- i
	}
	close(idx)
	wg.Wait()
	retryTimeouts(p, lines, outs, workers)

	fin, err := os.Create(filepath.Join(dir, "cases.in"))
	if err != nil {
		return err
	}
	fout, err := os.Create(filepath.Join(dir, "go.out"))
	if err != nil {
		return err
	}
	win, wout := bufio.NewWriterSize(fin, 1<<20), bufio.NewWriterSize(fout, 1<<20)
	rep := Report{Property: p.ID, Tier: tier, Seed: seed, Hist: map[string]int{}, Rule: p.Rule, Samples: []string{}, Violations: []Violation{}}
	seen := map[string]struct{}{}
	perClass := map[string]int{}
	for i, l := range lines {
		o := outs[i]
		rep.Evaluations++
		for _, t := range o.Tags {
			rep.Hist[t]++
		}
		if !o.Trivial {
			if _, dup := seen[l]; !dup {
				seen[l] = struct{}{}
			}
		}
		if o.Go != "" {
			win.WriteString(l)
			win.WriteByte('\n')
			wout.WriteString(o.Go)
			wout.WriteByte('\n')
			rep.ModelLines++
		}
		if o.Viol != "" {
			// at most 8 violations per class (message with digits/hex stripped) and 4000 overall, so that one
			// frequent (possibly known) failure cannot crowd a different one out of the report
			// the class also carries the line's kind (its first tokens), so a new failure of another line kind is kept
			// even when a listed finding fills its own classes
			cls := violClass(o.Viol) + "|" + violClass(lineKind(l))
			if perClass[cls] < 8 && len(rep.Violations) < 4000 {
				rep.Violations = append(rep.Violations, Violation{Line: l, What: o.Viol, Go: o.Go})
			}
			perClass[cls]++
			rep.ViolationsTotal++
		}
		if len(rep.Samples) < 5 && i%(len(lines)/5+1) == 0 {
			s := l
			if len(s) > 400 {
				s = s[:400] + "…"
			}
			g := o.Go
			if len(g) > 200 {
				g = g[:200] + "…"
			}
			rep.Samples = append(rep.Samples, s+" => "+g)
		}
	}
	rep.Distinct = len(seen)
	win.Flush()
	wout.Flush()
	fin.Close()
	fout.Close()
	rep.WallS = time.Since(t0).Seconds()
	b, _ := json.MarshalIndent(rep, "", " ")
	return os.WriteFile(filepath.Join(dir, "report.json"), b, 0o644)
}

// Replay executes the given lines only.
func Replay(p *Prop, dir string, lines []string) error {
	return execAndWrite(p, "replay", 0, dir, lines, time.Now())
}
