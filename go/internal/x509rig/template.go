package x509rig

import (
	"fmt"
	"math/big"
	"net"
	"time"

	"github.com/zmap/zcrypto/encoding/asn1"
	"github.com/zmap/zcrypto/x509"
	"github.com/zmap/zcrypto/x509/pkix"

	"zv/internal/zv"
)

var words = []string{"alpha", "beta", "gamma", "delta", "example", "test", "corp", "unit-7", "Zeta Org", "Nord", "x", "QA Lab 42"}

func word(r *zv.Rng) string { return words[r.Intn(len(words))] }

func strList(r *zv.Rng, max int, f func() string) []string {
	n := r.Intn(max + 1)
	if n == 0 {
		return nil
	}
	out := make([]string, n)
	for i := range out {
		out[i] = f()
	}
	return out
}

// RandName: a distinguished name over the attribute set pkix.Name marshals (printable ASCII and, sometimes, UTF-8 values).
func RandName(r *zv.Rng) pkix.Name {
	n := pkix.Name{}
	w := func() string {
		s := word(r)
		if r.Chance(10) {
			s += " Ünï©ode"
		}
		return s
	}
	if r.Chance(85) {
		n.CommonName = w() + fmt.Sprintf(" %d", r.Intn(1000))
	}
	n.Organization = strList(r, 2, w)
	n.OrganizationalUnit = strList(r, 2, w)
	n.Country = strList(r, 1, func() string { return []string{"US", "DE", "FR", "JP"}[r.Intn(4)] })
	if r.Chance(30) {
		n.Locality = strList(r, 2, w)
		n.Province = strList(r, 1, w)
		n.StreetAddress = strList(r, 1, w)
		n.PostalCode = strList(r, 1, func() string { return fmt.Sprintf("%05d", r.Intn(100000)) })
	}
	if r.Chance(20) {
		n.SerialNumber = fmt.Sprintf("SN%d", r.Intn(1_000_000))
	}
	if r.Chance(10) {
		n.DomainComponent = strList(r, 2, func() string { return word(r) })
		n.EmailAddress = strList(r, 1, func() string { return word(r) + "@example.org" })
	}
	if n.CommonName == "" && len(n.Organization) == 0 && len(n.Country) == 0 {
		n.CommonName = "fallback"
	}
	return n
}

func RandSerial(r *zv.Rng) *big.Int {
	switch r.Intn(8) {
	case 0:
		return big.NewInt(int64(r.Intn(3))) // 0,1,2
	case 1:
		return big.NewInt(127 + int64(r.Intn(3))) // sign-bit boundary
	case 2:
		return new(big.Int).Neg(big.NewInt(1 + int64(r.Intn(1<<20)))) // negative (accepted by both APIs)
	case 3:
		return new(big.Int).SetBytes(r.Bytes(19 + r.Intn(2))) // ~150-160 bit
	case 4:
		return new(big.Int).Neg(new(big.Int).SetBytes(r.Bytes(10)))
	default:
		return new(big.Int).SetBytes(r.Bytes(1 + r.Intn(16)))
	}
}

// RandTime: second precision UTC; both the UTCTime (1950..2049) and GeneralizedTime (2050..9999) ranges and their boundaries.
func RandTime(r *zv.Rng) time.Time {
	switch r.Intn(10) {
	case 0:
		return time.Date(1950, 1, 1, 0, 0, r.Intn(3), 0, time.UTC)
	case 1:
		return time.Date(2049, 12, 31, 23, 59, 57+r.Intn(3), 0, time.UTC)
	case 2:
		return time.Date(2050, 1, 1, 0, 0, r.Intn(3), 0, time.UTC)
	case 3:
		return time.Date(9999, 12, 31, 23, 59, 59, 0, time.UTC)
	case 4:
		return time.Date(2050+r.Intn(7000), time.Month(1+r.Intn(12)), 1+r.Intn(28), r.Intn(24), r.Intn(60), r.Intn(60), 0, time.UTC)
	default:
		return time.Date(1950+r.Intn(100), time.Month(1+r.Intn(12)), 1+r.Intn(28), r.Intn(24), r.Intn(60), r.Intn(60), 0, time.UTC)
	}
}

func dns(r *zv.Rng) string {
	s := word(r) + "." + []string{"example.com", "test", "a.b.example.org"}[r.Intn(3)]
	if r.Chance(10) {
		s = "*." + s
	}
	return s
}

func RandIP(r *zv.Rng) net.IP {
	switch r.Intn(3) {
	case 0:
		return net.IP(r.Bytes(4))
	case 1:
		return net.IPv4(byte(r.U64()), byte(r.U64()), byte(r.U64()), byte(r.U64())) // IPv4 in 16-byte form
	default:
		ip := net.IP(r.Bytes(16))
		if ip.To4() != nil {
			ip[0] = 0x20
		}
		return ip
	}
}

func RandOID(r *zv.Rng) asn1.ObjectIdentifier {
	// private test arcs that are in none of zcrypto's tables
	oid := asn1.ObjectIdentifier{1, 3, 9999, 7}
	n := 1 + r.Intn(4)
	for i := 0; i < n; i++ {
		switch r.Intn(4) {
		case 0:
			oid = append(oid, r.Intn(128))
		case 1:
			oid = append(oid, 128+r.Intn(16384))
		default:
			oid = append(oid, r.Intn(1<<27))
		}
	}
	return oid
}

func url(r *zv.Rng, kind string) string {
	return fmt.Sprintf("http://%s.%s/%s%d", kind, dns(r)[0:1]+"x.example.net", word(r)[:1], r.Intn(100))
}

var KnownEKUs = []x509.ExtKeyUsage{x509.ExtKeyUsageAny, x509.ExtKeyUsageServerAuth, x509.ExtKeyUsageClientAuth, x509.ExtKeyUsageCodeSigning,
	x509.ExtKeyUsageEmailProtection, x509.ExtKeyUsageIpsecEndSystem, x509.ExtKeyUsageIpsecTunnel, x509.ExtKeyUsageIpsecUser,
	x509.ExtKeyUsageTimeStamping, x509.ExtKeyUsageOcspSigning, x509.ExtKeyUsageMicrosoftServerGatedCrypto, x509.ExtKeyUsageNetscapeServerGatedCrypto}

func randMask(r *zv.Rng, n int) net.IPMask {
	ones := r.Intn(n*8 + 1)
	return net.CIDRMask(ones, n*8)
}

// SigAlgsFor lists the SignatureAlgorithm values CreateCertificate accepts for a key kind (0 = default).
func SigAlgsFor(kind string) []x509.SignatureAlgorithm {
	switch kind {
	case "rsa":
		return []x509.SignatureAlgorithm{0, x509.SHA1WithRSA, x509.SHA256WithRSA, x509.SHA384WithRSA, x509.SHA512WithRSA,
			x509.SHA256WithRSAPSS, x509.SHA384WithRSAPSS, x509.SHA512WithRSAPSS, x509.MD5WithRSA}
	case "ecdsa":
		return []x509.SignatureAlgorithm{0, x509.ECDSAWithSHA1, x509.ECDSAWithSHA256, x509.ECDSAWithSHA384, x509.ECDSAWithSHA512}
	default:
		return []x509.SignatureAlgorithm{0, x509.Ed25519Sig}
	}
}

// RandTemplate draws a certificate template over the domain documented for CreateCertificate.
// rich=false gives small templates (few extensions).
func RandTemplate(r *zv.Rng, rich bool) *x509.Certificate {
	t := &x509.Certificate{SerialNumber: RandSerial(r), Subject: RandName(r)}
	a, b := RandTime(r), RandTime(r)
	if b.Before(a) {
		a, b = b, a
	}
	t.NotBefore, t.NotAfter = a, b
	p := 35
	if rich {
		p = 60
	}
	if r.Chance(p) {
		t.KeyUsage = x509.KeyUsage(r.Intn(512))
		if r.Chance(30) {
			t.KeyUsage = x509.KeyUsage(1 << uint(r.Intn(9)))
		}
	}
	if r.Chance(p) {
		n := r.Intn(4)
		perm := r.Intn(len(KnownEKUs))
		for i := 0; i < n; i++ {
			t.ExtKeyUsage = append(t.ExtKeyUsage, KnownEKUs[(perm+i*5)%len(KnownEKUs)])
		}
		for i := r.Intn(3); i > 0; i-- {
			t.UnknownExtKeyUsage = append(t.UnknownExtKeyUsage, RandOID(r))
		}
	}
	if r.Chance(p) {
		t.BasicConstraintsValid = true
		t.IsCA = r.Bool()
		switch r.Intn(5) {
		case 0:
			t.MaxPathLen, t.MaxPathLenZero = 0, true
		case 1:
			t.MaxPathLen, t.MaxPathLenZero = 0, false // unset
		case 2:
			t.MaxPathLen = -1
		default:
			t.MaxPathLen = 1 + r.Intn(300)
		}
	}
	if r.Chance(p) {
		t.SubjectKeyId = r.Bytes(1 + r.Intn(32))
	}
	if r.Chance(p) {
		t.AuthorityKeyId = r.Bytes(1 + r.Intn(32))
	}
	if r.Chance(p) {
		t.DNSNames = strList(r, 3, func() string { return dns(r) })
		t.EmailAddresses = strList(r, 2, func() string { return word(r)[:1] + "@" + dns(r) })
		for i := r.Intn(4); i > 0; i-- {
			t.IPAddresses = append(t.IPAddresses, RandIP(r))
		}
	}
	if r.Chance(p / 2) {
		t.OCSPServer = strList(r, 2, func() string { return url(r, "ocsp") })
		t.IssuingCertificateURL = strList(r, 2, func() string { return url(r, "ca") })
	}
	if r.Chance(p / 2) {
		t.CRLDistributionPoints = strList(r, 3, func() string { return url(r, "crl") })
	}
	if r.Chance(p / 2) {
		for i := 1 + r.Intn(3); i > 0; i-- {
			t.PolicyIdentifiers = append(t.PolicyIdentifiers, RandOID(r))
		}
	}
	if rich && r.Chance(30) {
		t.NameConstraintsCritical = r.Bool()
		for i := r.Intn(3); i > 0; i-- {
			t.PermittedDNSNames = append(t.PermittedDNSNames, x509.GeneralSubtreeString{Data: dns(r)})
		}
		for i := r.Intn(2); i > 0; i-- {
			t.ExcludedDNSNames = append(t.ExcludedDNSNames, x509.GeneralSubtreeString{Data: "." + dns(r)})
		}
		for i := r.Intn(2); i > 0; i-- {
			t.PermittedEmailAddresses = append(t.PermittedEmailAddresses, x509.GeneralSubtreeString{Data: "a@" + dns(r)})
		}
		for i := r.Intn(2); i > 0; i-- {
			t.ExcludedEmailAddresses = append(t.ExcludedEmailAddresses, x509.GeneralSubtreeString{Data: dns(r)})
		}
		for i := r.Intn(3); i > 0; i-- {
			n := 4
			if r.Bool() {
				n = 16
			}
			s := x509.GeneralSubtreeIP{Data: net.IPNet{IP: net.IP(r.Bytes(n)), Mask: randMask(r, n)}}
			if r.Bool() {
				t.PermittedIPAddresses = append(t.PermittedIPAddresses, s)
			} else {
				t.ExcludedIPAddresses = append(t.ExcludedIPAddresses, s)
			}
		}
		for i := r.Intn(2); i > 0; i-- {
			s := x509.GeneralSubtreeName{Data: RandName(r)}
			if r.Bool() {
				t.PermittedDirectoryNames = append(t.PermittedDirectoryNames, s)
			} else {
				t.ExcludedDirectoryNames = append(t.ExcludedDirectoryNames, s)
			}
		}
	}
	if r.Chance(25) {
		for i := 1 + r.Intn(2); i > 0; i-- {
			t.ExtraExtensions = append(t.ExtraExtensions, pkix.Extension{Id: RandOID(r), Critical: r.Chance(30), Value: r.Bytes(r.Intn(20))})
		}
	}
	return t
}
