package x509rig

import (
	"fmt"
	"math/big"
	"net"
	"time"

	"github.com/zmap/zcrypto/encoding/asn1"
	"github.com/zmap/zcrypto/x509"
	"github.com/zmap/zcrypto/x509/pkix"

	"zv/internal/zv"
)

var words = []string{"alpha", "beta", "gamma", "delta", "example", "test", "corp", "unit-7", "Zeta Org", "Nord", "x", "QA Lab 42"}

func word(r *zv.Rng) string { return words[r.Intn(len(words))] }

func strList(r *zv.Rng, max int, f func() string) []string {
	n := r.Intn(max + 1)
	if n == 0 {
		return nil
	}
	out := make([]string, n)
	for i := range out {
		out[i] = f()
	}
	return out
}

// ---- attribute-value strings ----
//
// encoding/asn1 picks PrintableString or UTF8String for an untagged Go string by looking at every rune, and the parser
// enforces the PrintableString alphabet; a creation/parsing round trip therefore depends on the exact rune set of a
// value. The values are drawn from classes aimed at that decision (same idea as the C18/C22 string generators):
// printable ASCII; ASCII outside the PrintableString set; Latin-1; runes >= U+0100 whose LOW BYTE is a PrintableString
// character (U+0144 -> 'D', U+4E2D -> '-', ...: indistinguishable from printable ASCII for code that truncates a rune
// to a byte); whole Unicode blocks; UTF-8 length boundaries; real-world names; and mixtures with printable ASCII.

const printableSet = "abcdefghijklmnopqrstuvwxyzABCDEFGHIJKLMNOPQRSTUVWXYZ0123456789 '()+,-./:=?"
const asciiNonPrintable = "*&@_!\"#$%;<>[\\]^`{|}~"

var realNames = []string{"Gda\u0144sk", "Plze\u0148", "Po\u0161ta", "\u0130stanbul", "\u0141\u00f3d\u017a", "\u4e2d", "\u65e5\u672c", "\u03a3 Acme Co",
	"Z\u00fcrich", "caf\u00e9 \u2603", "\u0141A", "\u0160koda Auto a.s.", "\u010cesk\u00e1 po\u0161ta", "T\u00dcRKTRUST", "\u4e2d\u534e", "\u041c\u043e\u0441\u043a\u0432\u0430", "\U0001F512 Safe"}

// unicode blocks (first, last) the "block" class draws from
var runeBlocks = [][2]rune{{0x80, 0xff}, {0x100, 0x17f}, {0x180, 0x24f}, {0x370, 0x3ff}, {0x400, 0x4ff}, {0x5d0, 0x5ea}, {0x621, 0x64a},
	{0x900, 0x97f}, {0xe01, 0xe3a}, {0x1e00, 0x1eff}, {0x2000, 0x206f}, {0x20a0, 0x20bf}, {0x2600, 0x26ff}, {0x3040, 0x30ff},
	{0x4e00, 0x9fff}, {0xac00, 0xd7a3}, {0xe000, 0xf8ff}, {0xff01, 0xff5e}, {0x10000, 0x1007f}, {0x1f300, 0x1f6ff}, {0x20000, 0x2a6df}, {0xe0100, 0xe01ef}}

var boundaryRunes = []rune{0x7f, 0x80, 0xff, 0x100, 0x7ff, 0x800, 0xd7ff, 0xe000, 0xfffd, 0xffff, 0x10000, 0x10ffff, 0x1, 0x1f}

func validRune(c rune) bool { return c >= 0 && c <= 0x10ffff && !(c >= 0xd800 && c <= 0xdfff) }

// LowBytePrintableRune: a rune >= U+0100 whose low 8 bits are a PrintableString character.
func LowBytePrintableRune(r *zv.Rng) rune {
	for {
		var hi rune
		switch r.Intn(4) {
		case 0:
			hi = rune(1 + r.Intn(2)) // Latin Extended-A/B: the common real-world case
		case 1:
			hi = rune(1 + r.Intn(0xff)) // BMP
		case 2:
			hi = rune(0x4e + r.Intn(0x52)) // CJK
		default:
			hi = rune(1 + r.Intn(0x10ff)) // anything up to U+10FFxx
		}
		c := hi<<8 | rune(printableSet[r.Intn(len(printableSet))])
		if validRune(c) {
			return c
		}
	}
}

func blockRune(r *zv.Rng) rune {
	b := runeBlocks[r.Intn(len(runeBlocks))]
	return b[0] + rune(r.Intn(int(b[1]-b[0])+1))
}

func asciiRunes(r *zv.Rng, set string, n int) []rune {
	out := make([]rune, n)
	for i := range out {
		out[i] = rune(set[r.Intn(len(set))])
	}
	return out
}

func shuffleRunes(r *zv.Rng, l []rune) {
	for i := len(l) - 1; i > 0; i-- {
		j := r.Intn(i + 1)
		l[i], l[j] = l[j], l[i]
	}
}

// AttrClasses lists the value classes of AttrValue (for tags).
var AttrClasses = []string{"word", "latin1", "lowbyte-printable", "lowbyte-printable+ascii", "block", "block+ascii", "boundary", "ascii-nonprintable", "real", "any"}

// AttrValue draws a non-empty, valid-UTF-8 attribute value; the second result names its class.
func AttrValue(r *zv.Rng) (string, string) {
	c := r.Intn(100)
	switch {
	case c < 40:
		return word(r), "word"
	case c < 46:
		return word(r) + " \u00dcn\u00ef\u00a9ode", "latin1"
	case c < 56: // only runes whose low byte is printable
		n := 1 + r.Intn(4)
		l := make([]rune, n)
		for i := range l {
			l[i] = LowBytePrintableRune(r)
		}
		return string(l), "lowbyte-printable"
	case c < 68: // the same mixed with printable ASCII ("Gda\u0144sk")
		l := asciiRunes(r, printableSet, 1+r.Intn(6))
		for i := 1 + r.Intn(3); i > 0; i-- {
			l = append(l, LowBytePrintableRune(r))
		}
		shuffleRunes(r, l)
		return string(l), "lowbyte-printable+ascii"
	case c < 74:
		n := 1 + r.Intn(5)
		l := make([]rune, n)
		for i := range l {
			l[i] = blockRune(r)
		}
		return string(l), "block"
	case c < 82:
		l := asciiRunes(r, printableSet, 1+r.Intn(6))
		for i := 1 + r.Intn(3); i > 0; i-- {
			l = append(l, blockRune(r))
		}
		shuffleRunes(r, l)
		return string(l), "block+ascii"
	case c < 86:
		l := asciiRunes(r, printableSet, r.Intn(4))
		for i := 1 + r.Intn(2); i > 0; i-- {
			l = append(l, boundaryRunes[r.Intn(len(boundaryRunes))])
		}
		shuffleRunes(r, l)
		return string(l), "boundary"
	case c < 91:
		l := asciiRunes(r, printableSet, r.Intn(5))
		l = append(l, asciiRunes(r, asciiNonPrintable, 1+r.Intn(2))...)
		shuffleRunes(r, l)
		return string(l), "ascii-nonprintable"
	case c < 96:
		return realNames[r.Intn(len(realNames))], "real"
	default: // uniformly random code points
		n := 1 + r.Intn(4)
		l := make([]rune, 0, n)
		for len(l) < n {
			if c := rune(r.Intn(0x110000)); validRune(c) {
				l = append(l, c)
			}
		}
		return string(l), "any"
	}
}

// ValueClass classifies an attribute value by what decides its string type: "printable" (PrintableString),
// "ascii-other" (ASCII outside the PrintableString set), "nonascii-lowbyte-printable" (not ASCII, but every rune's low
// byte is a PrintableString character — the class a byte-truncating encoder mistakes for printable), "nonascii".
func ValueClass(s string) string {
	ascii, trap := true, true
	for _, c := range s {
		lowPrintable := false
		for i := 0; i < len(printableSet); i++ {
			if byte(c) == printableSet[i] {
				lowPrintable = true
			}
		}
		if c >= 0x80 {
			ascii = false
		}
		if !lowPrintable {
			trap = false
		}
	}
	switch {
	case ascii && trap:
		return "printable"
	case ascii:
		return "ascii-other"
	case trap:
		return "nonascii-lowbyte-printable"
	}
	return "nonascii"
}

// NameClasses returns the sorted set of "name:<class>" tags of all attribute values of n.
func NameClasses(n pkix.Name) []string {
	seen := map[string]bool{}
	for _, l := range [][]string{{n.CommonName, n.SerialNumber}, n.Organization, n.OrganizationalUnit, n.Country, n.Locality, n.Province, n.StreetAddress,
		n.PostalCode, n.DomainComponent, n.EmailAddress, n.JurisdictionLocality, n.JurisdictionProvince, n.JurisdictionCountry, n.OrganizationIDs} {
		for _, v := range l {
			if v != "" {
				seen[ValueClass(v)] = true
			}
		}
	}
	var out []string
	for _, c := range []string{"ascii-other", "nonascii", "nonascii-lowbyte-printable", "printable"} {
		if seen[c] {
			out = append(out, "name:"+c)
		}
	}
	return out
}

// RandName: a distinguished name over the attribute set pkix.Name marshals; values from AttrValue.
func RandName(r *zv.Rng) pkix.Name {
	n := pkix.Name{}
	w := func() string {
		s, _ := AttrValue(r)
		return s
	}
	if r.Chance(85) {
		n.CommonName = w()
		if r.Chance(60) {
			n.CommonName += fmt.Sprintf(" %d", r.Intn(1000))
		}
	}
	n.Organization = strList(r, 2, w)
	n.OrganizationalUnit = strList(r, 2, w)
	n.Country = strList(r, 1, func() string { return []string{"US", "DE", "FR", "JP"}[r.Intn(4)] })
	if r.Chance(30) {
		n.Locality = strList(r, 2, w)
		n.Province = strList(r, 1, w)
		n.StreetAddress = strList(r, 1, w)
		n.PostalCode = strList(r, 1, func() string { return fmt.Sprintf("%05d", r.Intn(100000)) })
	}
	if r.Chance(20) {
		n.SerialNumber = fmt.Sprintf("SN%d", r.Intn(1_000_000))
		if r.Chance(30) {
			n.SerialNumber = w()
		}
	}
	if r.Chance(10) {
		n.DomainComponent = strList(r, 2, func() string { return word(r) })
		n.EmailAddress = strList(r, 1, func() string { return word(r) + "@example.org" })
	}
	if r.Chance(8) { // EV / QWAC attributes
		n.JurisdictionLocality = strList(r, 1, w)
		n.JurisdictionProvince = strList(r, 1, w)
		n.JurisdictionCountry = strList(r, 1, func() string { return []string{"US", "DE", "PL", "TR"}[r.Intn(4)] })
		n.OrganizationIDs = strList(r, 1, w)
	}
	if n.CommonName == "" && len(n.Organization) == 0 && len(n.Country) == 0 {
		n.CommonName = "fallback"
	}
	return n
}

func RandSerial(r *zv.Rng) *big.Int {
	switch r.Intn(8) {
	case 0:
		return big.NewInt(int64(r.Intn(3))) // 0,1,2
	case 1:
		return big.NewInt(127 + int64(r.Intn(3))) // sign-bit boundary
	case 2:
		return new(big.Int).Neg(big.NewInt(1 + int64(r.Intn(1<<20)))) // negative (accepted by both APIs)
	case 3:
		return new(big.Int).SetBytes(r.Bytes(19 + r.Intn(2))) // ~150-160 bit
	case 4:
		return new(big.Int).Neg(new(big.Int).SetBytes(r.Bytes(10)))
	default:
		return new(big.Int).SetBytes(r.Bytes(1 + r.Intn(16)))
	}
}

// RandTime: second precision UTC; both the UTCTime (1950..2049) and GeneralizedTime (2050..9999) ranges and their boundaries.
func RandTime(r *zv.Rng) time.Time {
	switch r.Intn(10) {
	case 0:
		return time.Date(1950, 1, 1, 0, 0, r.Intn(3), 0, time.UTC)
	case 1:
		return time.Date(2049, 12, 31, 23, 59, 57+r.Intn(3), 0, time.UTC)
	case 2:
		return time.Date(2050, 1, 1, 0, 0, r.Intn(3), 0, time.UTC)
	case 3:
		return time.Date(9999, 12, 31, 23, 59, 59, 0, time.UTC)
	case 4:
		return time.Date(2050+r.Intn(7000), time.Month(1+r.Intn(12)), 1+r.Intn(28), r.Intn(24), r.Intn(60), r.Intn(60), 0, time.UTC)
	default:
		return time.Date(1950+r.Intn(100), time.Month(1+r.Intn(12)), 1+r.Intn(28), r.Intn(24), r.Intn(60), r.Intn(60), 0, time.UTC)
	}
}

func dns(r *zv.Rng) string {
	s := word(r) + "." + []string{"example.com", "test", "a.b.example.org"}[r.Intn(3)]
	if r.Chance(10) {
		s = "*." + s
	}
	return s
}

func RandIP(r *zv.Rng) net.IP {
	switch r.Intn(3) {
	case 0:
		return net.IP(r.Bytes(4))
	case 1:
		return net.IPv4(byte(r.U64()), byte(r.U64()), byte(r.U64()), byte(r.U64())) // IPv4 in 16-byte form
	default:
		ip := net.IP(r.Bytes(16))
		if ip.To4() != nil {
			ip[0] = 0x20
		}
		return ip
	}
}

func RandOID(r *zv.Rng) asn1.ObjectIdentifier {
	// private test arcs that are in none of zcrypto's tables
	oid := asn1.ObjectIdentifier{1, 3, 9999, 7}
	n := 1 + r.Intn(4)
	for i := 0; i < n; i++ {
		switch r.Intn(4) {
		case 0:
			oid = append(oid, r.Intn(128))
		case 1:
			oid = append(oid, 128+r.Intn(16384))
		default:
			oid = append(oid, r.Intn(1<<27))
		}
	}
	return oid
}

func url(r *zv.Rng, kind string) string {
	return fmt.Sprintf("http://%s.%s/%s%d", kind, dns(r)[0:1]+"x.example.net", word(r)[:1], r.Intn(100))
}

var KnownEKUs = []x509.ExtKeyUsage{x509.ExtKeyUsageAny, x509.ExtKeyUsageServerAuth, x509.ExtKeyUsageClientAuth, x509.ExtKeyUsageCodeSigning,
	x509.ExtKeyUsageEmailProtection, x509.ExtKeyUsageIpsecEndSystem, x509.ExtKeyUsageIpsecTunnel, x509.ExtKeyUsageIpsecUser,
	x509.ExtKeyUsageTimeStamping, x509.ExtKeyUsageOcspSigning, x509.ExtKeyUsageMicrosoftServerGatedCrypto, x509.ExtKeyUsageNetscapeServerGatedCrypto}

func randMask(r *zv.Rng, n int) net.IPMask {
	ones := r.Intn(n*8 + 1)
	return net.CIDRMask(ones, n*8)
}

// SigAlgsFor lists the SignatureAlgorithm values CreateCertificate accepts for a key kind (0 = default).
func SigAlgsFor(kind string) []x509.SignatureAlgorithm {
	switch kind {
	case "rsa":
		return []x509.SignatureAlgorithm{0, x509.SHA1WithRSA, x509.SHA256WithRSA, x509.SHA384WithRSA, x509.SHA512WithRSA,
			x509.SHA256WithRSAPSS, x509.SHA384WithRSAPSS, x509.SHA512WithRSAPSS, x509.MD5WithRSA}
	case "ecdsa":
		return []x509.SignatureAlgorithm{0, x509.ECDSAWithSHA1, x509.ECDSAWithSHA256, x509.ECDSAWithSHA384, x509.ECDSAWithSHA512}
	default:
		return []x509.SignatureAlgorithm{0, x509.Ed25519Sig}
	}
}

// RandTemplate draws a certificate template over the domain documented for CreateCertificate.
// rich=false gives small templates (few extensions).
func RandTemplate(r *zv.Rng, rich bool) *x509.Certificate {
	t := &x509.Certificate{SerialNumber: RandSerial(r), Subject: RandName(r)}
	a, b := RandTime(r), RandTime(r)
	if b.Before(a) {
		a, b = b, a
	}
	t.NotBefore, t.NotAfter = a, b
	p := 35
	if rich {
		p = 60
	}
	if r.Chance(p) {
		t.KeyUsage = x509.KeyUsage(r.Intn(512))
		if r.Chance(30) {
			t.KeyUsage = x509.KeyUsage(1 << uint(r.Intn(9)))
		}
	}
	if r.Chance(p) {
		n := r.Intn(4)
		perm := r.Intn(len(KnownEKUs))
		for i := 0; i < n; i++ {
			t.ExtKeyUsage = append(t.ExtKeyUsage, KnownEKUs[(perm+i*5)%len(KnownEKUs)])
		}
		for i := r.Intn(3); i > 0; i-- {
			t.UnknownExtKeyUsage = append(t.UnknownExtKeyUsage, RandOID(r))
		}
	}
	if r.Chance(p) {
		t.BasicConstraintsValid = true
		t.IsCA = r.Bool()
		switch r.Intn(5) {
		case 0:
			t.MaxPathLen, t.MaxPathLenZero = 0, true
		case 1:
			t.MaxPathLen, t.MaxPathLenZero = 0, false // unset
		case 2:
			t.MaxPathLen = -1
		default:
			t.MaxPathLen = 1 + r.Intn(300)
		}
	}
	if r.Chance(p) {
		t.SubjectKeyId = r.Bytes(1 + r.Intn(32))
	}
	if r.Chance(p) {
		t.AuthorityKeyId = r.Bytes(1 + r.Intn(32))
	}
	if r.Chance(p) {
		t.DNSNames = strList(r, 3, func() string { return dns(r) })
		t.EmailAddresses = strList(r, 2, func() string { return word(r)[:1] + "@" + dns(r) })
		for i := r.Intn(4); i > 0; i-- {
			t.IPAddresses = append(t.IPAddresses, RandIP(r))
		}
	}
	if r.Chance(p / 2) {
		t.OCSPServer = strList(r, 2, func() string { return url(r, "ocsp") })
		t.IssuingCertificateURL = strList(r, 2, func() string { return url(r, "ca") })
	}
	if r.Chance(p / 2) {
		t.CRLDistributionPoints = strList(r, 3, func() string { return url(r, "crl") })
	}
	if r.Chance(p / 2) {
		for i := 1 + r.Intn(3); i > 0; i-- {
			t.PolicyIdentifiers = append(t.PolicyIdentifiers, RandOID(r))
		}
	}
	if rich && r.Chance(30) {
		t.NameConstraintsCritical = r.Bool()
		for i := r.Intn(3); i > 0; i-- {
			t.PermittedDNSNames = append(t.PermittedDNSNames, x509.GeneralSubtreeString{Data: dns(r)})
		}
		for i := r.Intn(2); i > 0; i-- {
			t.ExcludedDNSNames = append(t.ExcludedDNSNames, x509.GeneralSubtreeString{Data: "." + dns(r)})
		}
		for i := r.Intn(2); i > 0; i-- {
			t.PermittedEmailAddresses = append(t.PermittedEmailAddresses, x509.GeneralSubtreeString{Data: "a@" + dns(r)})
		}
		for i := r.Intn(2); i > 0; i-- {
			t.ExcludedEmailAddresses = append(t.ExcludedEmailAddresses, x509.GeneralSubtreeString{Data: dns(r)})
		}
		for i := r.Intn(3); i > 0; i-- {
			n := 4
			if r.Bool() {
				n = 16
			}
			s := x509.GeneralSubtreeIP{Data: net.IPNet{IP: net.IP(r.Bytes(n)), Mask: randMask(r, n)}}
			if r.Bool() {
				t.PermittedIPAddresses = append(t.PermittedIPAddresses, s)
			} else {
				t.ExcludedIPAddresses = append(t.ExcludedIPAddresses, s)
			}
		}
		for i := r.Intn(2); i > 0; i-- {
			s := x509.GeneralSubtreeName{Data: RandName(r)}
			if r.Bool() {
				t.PermittedDirectoryNames = append(t.PermittedDirectoryNames, s)
			} else {
				t.ExcludedDirectoryNames = append(t.ExcludedDirectoryNames, s)
			}
		}
	}
	if r.Chance(25) {
		for i := 1 + r.Intn(2); i > 0; i-- {
			t.ExtraExtensions = append(t.ExtraExtensions, pkix.Extension{Id: RandOID(r), Critical: r.Chance(30), Value: r.Bytes(r.Intn(20))})
		}
	}
	return t
}
