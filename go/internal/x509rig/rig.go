// Package x509rig: shared helpers for the x509 property harnesses (C04, C05, C06): a per-process key pool,
// an independent DER splitter/assembler (standard library only) and independent signature primitives.
package x509rig

import (
	"crypto"
	"crypto/ecdsa"
	"crypto/ed25519"
	"crypto/elliptic"
	"crypto/md5"
	stdrsa "crypto/rsa"
	"crypto/sha1"
	"crypto/sha256"
	"crypto/sha512"
	stdasn1 "encoding/asn1"
	"errors"
	"math/big"
	"sync"

	zrsa "github.com/zmap/zcrypto/rsa"

	"zv/internal/zv"
)

type Key struct {
	Name string
	Priv crypto.Signer // zcrypto-compatible signer (*zrsa.PrivateKey, *ecdsa.PrivateKey, ed25519.PrivateKey)
	Pub  interface{}   // matching public key as zcrypto expects it in CreateCertificate
	Kind string        // "rsa" | "ecdsa" | "ed25519"
}

var (
	once sync.Once
	pool []*Key
)

// Keys returns the fixed per-process key pool: rsa1024, rsa2048, p224, p256, p384, p521, ed25519.
func Keys() []*Key {
	once.Do(func() {
		r := zv.NewRng(0x7a76_6b65_7973)
		add := func(name, kind string, priv crypto.Signer) {
			pool = append(pool, &Key{Name: name, Priv: priv, Pub: priv.Public(), Kind: kind})
		}
		for _, bits := range []int{1024, 2048} {
			k, err := zrsa.GenerateKey(r, bits)
			if err != nil {
				panic(err)
			}
			add(map[int]string{1024: "rsa1024", 2048: "rsa2048"}[bits], "rsa", k)
		}
		for _, c := range []struct {
			n string
			c elliptic.Curve
		}{{"p224", elliptic.P224()}, {"p256", elliptic.P256()}, {"p384", elliptic.P384()}, {"p521", elliptic.P521()}} {
			k, err := ecdsa.GenerateKey(c.c, r)
			if err != nil {
				panic(err)
			}
			add(c.n, "ecdsa", k)
		}
		_, ek, err := ed25519.GenerateKey(r)
		if err != nil {
			panic(err)
		}
		add("ed25519", "ed25519", ek)
	})
	return pool
}

func KeyByName(n string) *Key {
	for _, k := range Keys() {
		if k.Name == n {
			return k
		}
	}
	return nil
}

// ---- independent DER helpers (no zcrypto code) ----

// TLV encodes identifier octet + definite minimal length + body.
func TLV(tag byte, body []byte) []byte {
	n := len(body)
	var h []byte
	switch {
	case n < 0x80:
		h = []byte{tag, byte(n)}
	case n < 0x100:
		h = []byte{tag, 0x81, byte(n)}
	case n < 0x10000:
		h = []byte{tag, 0x82, byte(n >> 8), byte(n)}
	case n < 0x1000000:
		h = []byte{tag, 0x83, byte(n >> 16), byte(n >> 8), byte(n)}
	default:
		h = []byte{tag, 0x84, byte(n >> 24), byte(n >> 16), byte(n >> 8), byte(n)}
	}
	return append(h, body...)
}

func Cat(parts ...[]byte) []byte {
	var out []byte
	for _, p := range parts {
		out = append(out, p...)
	}
	return out
}

// Children splits the contents of a constructed element into the full encodings of its children
// (standard library encoding/asn1 RawValue walk).
func Children(body []byte) ([][]byte, error) {
	var out [][]byte
	for len(body) > 0 {
		var rv stdasn1.RawValue
		rest, err := stdasn1.Unmarshal(body, &rv)
		if err != nil {
			return nil, err
		}
		out = append(out, rv.FullBytes)
		body = rest
	}
	return out, nil
}

// Open returns identifier octet and contents of a single element (must span all of der).
func Open(der []byte) (tag byte, body []byte, err error) {
	var rv stdasn1.RawValue
	rest, err := stdasn1.Unmarshal(der, &rv)
	if err != nil {
		return 0, nil, err
	}
	if len(rest) != 0 {
		return 0, nil, errors.New("trailing data")
	}
	return der[0], rv.Bytes, nil
}

// CertParts is an independent structural decomposition of a certificate.
type CertParts struct {
	TBSFields [][]byte // full encodings of the TBS children, extensions wrapper excluded
	Exts      [][]byte // full encodings of the Extension SEQUENCEs (nil when there is no [3])
	HasExts   bool
	SigAlg    []byte
	SigVal    []byte
	TBS       []byte
}

func SplitCert(der []byte) (*CertParts, error) {
	_, body, err := Open(der)
	if err != nil {
		return nil, err
	}
	top, err := Children(body)
	if err != nil || len(top) != 3 {
		return nil, errors.New("certificate: want 3 children")
	}
	p := &CertParts{TBS: top[0], SigAlg: top[1], SigVal: top[2]}
	_, tb, err := Open(top[0])
	if err != nil {
		return nil, err
	}
	fs, err := Children(tb)
	if err != nil {
		return nil, err
	}
	for _, f := range fs {
		if f[0] == 0xA3 {
			_, wb, err := Open(f)
			if err != nil {
				return nil, err
			}
			_, sb, err := Open(wb)
			if err != nil {
				return nil, err
			}
			p.Exts, err = Children(sb)
			if err != nil {
				return nil, err
			}
			p.HasExts = true
			continue
		}
		p.TBSFields = append(p.TBSFields, f)
	}
	return p, nil
}

// AssembleTBS re-encodes a TBS from its fields and extension list (empty list ⇒ no [3] wrapper).
func AssembleTBS(fields [][]byte, exts [][]byte) []byte {
	body := Cat(fields...)
	if len(exts) > 0 {
		body = append(body, TLV(0xA3, TLV(0x30, Cat(exts...)))...)
	}
	return TLV(0x30, body)
}

func AssembleCert(tbs, sigAlg, sigVal []byte) []byte {
	return TLV(0x30, Cat(tbs, sigAlg, sigVal))
}

// ---- independent signature primitives (standard library) ----

func HashOf(h crypto.Hash, msg []byte) []byte {
	switch h {
	case crypto.MD5:
		s := md5.Sum(msg)
		return s[:]
	case crypto.SHA1:
		s := sha1.Sum(msg)
		return s[:]
	case crypto.SHA224:
		s := sha256.Sum224(msg)
		return s[:]
	case crypto.SHA256:
		s := sha256.Sum256(msg)
		return s[:]
	case crypto.SHA384:
		s := sha512.Sum384(msg)
		return s[:]
	case crypto.SHA512:
		s := sha512.Sum512(msg)
		return s[:]
	}
	return msg
}

// StdPub converts a zcrypto-side public key into the standard library's representation.
func StdPub(pub interface{}) interface{} {
	switch p := pub.(type) {
	case *zrsa.PublicKey:
		if p.N == nil || p.E == nil || !p.E.IsInt64() || p.E.Int64() <= 0 || p.E.Int64() > 1<<31-1 {
			return nil
		}
		return &stdrsa.PublicKey{N: p.N, E: int(p.E.Int64())}
	case *stdrsa.PublicKey:
		return p
	case *ecdsa.PublicKey:
		return p
	case ed25519.PublicKey:
		return p
	}
	return nil
}

// Verify checks sig over msg with standard-library primitives. scheme: "pkcs1", "pss", "ecdsa", "ed25519".
// ok=false,known=false when this oracle cannot decide.
func Verify(pub interface{}, scheme string, h crypto.Hash, msg, sig []byte) (ok bool, known bool) {
	switch p := StdPub(pub).(type) {
	case *stdrsa.PublicKey:
		d := HashOf(h, msg)
		switch scheme {
		case "pkcs1":
			return stdrsa.VerifyPKCS1v15(p, h, d, sig) == nil, true
		case "pss":
			return stdrsa.VerifyPSS(p, h, d, sig, &stdrsa.PSSOptions{SaltLength: stdrsa.PSSSaltLengthEqualsHash}) == nil, true
		}
	case *ecdsa.PublicKey:
		if scheme == "ecdsa" {
			return ecdsa.VerifyASN1(p, HashOf(h, msg), sig), true
		}
	case ed25519.PublicKey:
		if scheme == "ed25519" && len(p) == ed25519.PublicKeySize {
			return ed25519.Verify(p, msg, sig), true
		}
	}
	return false, false
}

// BigFromBytes: helper for serial numbers.
func BigFromBytes(b []byte, neg bool) *big.Int {
	x := new(big.Int).SetBytes(b)
	if neg {
		x.Neg(x)
	}
	return x
}
