package x509rig

// Helpers for the "inputs are not mutated / no state carried across calls" oracles (C04; usable by C05/C06):
//
//   Fingerprint(v)      canonical dump of everything reachable from v — every field (unexported ones too), every slice
//                       with its length, its capacity AND the elements in the spare capacity — as "path=value" lines.
//                       Taken before and after a call, FirstDiff names the first location the callee wrote to.
//   Copier.Into(dst,src) reflective deep copy that can hand the callee the kind of memory real callers hand in:
//                       exact-size slices, slices with spare capacity (poisoned), slices re-used from the previous
//                       round (`append(buf[:0], …)`, stale elements behind len), and byte strings carved out of shared
//                       buffers (`buf[a:b]`, capacity running into the following values).

import (
	"fmt"
	"math/big"
	"net"
	"reflect"
	"sort"
	"strconv"
	"strings"
	"time"

	"zv/internal/zv"
)

var (
	typBigInt = reflect.TypeOf(big.Int{})
	typTime   = reflect.TypeOf(time.Time{})
)

// Fingerprint returns the canonical dump of v ("path=value" lines, depth first, declaration order).
func Fingerprint(v any) []string {
	var out []string
	fpWalk(&out, "", reflect.ValueOf(v), map[fpKey]bool{}, 0)
	return out
}

type fpKey struct {
	p uintptr
	t reflect.Type
}

func fpWalk(out *[]string, path string, v reflect.Value, seen map[fpKey]bool, depth int) {
	add := func(s string) { *out = append(*out, path+"="+s) }
	if !v.IsValid() {
		add("<invalid>")
		return
	}
	if depth > 40 {
		add("<deep>")
		return
	}
	switch v.Kind() {
	case reflect.Bool:
		add(strconv.FormatBool(v.Bool()))
	case reflect.Int, reflect.Int8, reflect.Int16, reflect.Int32, reflect.Int64:
		add(strconv.FormatInt(v.Int(), 10))
	case reflect.Uint, reflect.Uint8, reflect.Uint16, reflect.Uint32, reflect.Uint64, reflect.Uintptr:
		add(strconv.FormatUint(v.Uint(), 10))
	case reflect.Float32, reflect.Float64:
		add(strconv.FormatFloat(v.Float(), 'g', -1, 64))
	case reflect.Complex64, reflect.Complex128:
		add(fmt.Sprint(v.Complex()))
	case reflect.String:
		add(strconv.Quote(v.String()))
	case reflect.Func, reflect.Chan, reflect.UnsafePointer:
		if v.IsNil() {
			add("nil")
		} else {
			add("<" + v.Kind().String() + ">")
		}
	case reflect.Ptr:
		if v.IsNil() {
			add("nil")
			return
		}
		k := fpKey{v.Pointer(), v.Type()}
		if seen[k] {
			add("<seen>")
			return
		}
		seen[k] = true
		fpWalk(out, path+"*", v.Elem(), seen, depth+1)
	case reflect.Interface:
		if v.IsNil() {
			add("nil")
			return
		}
		fpWalk(out, path+"("+v.Elem().Type().String()+")", v.Elem(), seen, depth+1)
	case reflect.Struct:
		switch v.Type() {
		case typBigInt: // sign and magnitude words in use; the spare words of the magnitude are scratch space of math/big
			abs := v.Field(1)
			var sb strings.Builder
			if v.Field(0).Bool() {
				sb.WriteByte('-')
			}
			for i := abs.Len() - 1; i >= 0; i-- {
				fmt.Fprintf(&sb, "%016x", abs.Index(i).Uint())
			}
			add("big:" + sb.String())
			return
		case typTime: // wall, ext, loc (pointer identity: the zone tables behind it are initialised lazily by package time)
			add(fmt.Sprintf("time:%d/%d/%#x", v.Field(0).Uint(), v.Field(1).Int(), v.Field(2).Pointer()))
			return
		}
		t := v.Type()
		if t.NumField() == 0 {
			add("{}")
		}
		for i := 0; i < t.NumField(); i++ {
			fpWalk(out, path+"."+t.Field(i).Name, v.Field(i), seen, depth+1)
		}
	case reflect.Array:
		for i := 0; i < v.Len(); i++ {
			fpWalk(out, path+"["+strconv.Itoa(i)+"]", v.Index(i), seen, depth+1)
		}
	case reflect.Slice:
		if v.IsNil() {
			add("nil")
			return
		}
		n, c := v.Len(), v.Cap()
		full := v.Slice(0, c)
		if v.Type().Elem().Kind() == reflect.Uint8 {
			var sb strings.Builder
			fmt.Fprintf(&sb, "len=%d cap=%d ", n, c)
			const hexd = "0123456789abcdef"
			for i := 0; i < c; i++ {
				if i == n {
					sb.WriteString(" spare:")
				}
				b := byte(full.Index(i).Uint())
				sb.WriteByte(hexd[b>>4])
				sb.WriteByte(hexd[b&15])
			}
			add(sb.String())
			return
		}
		*out = append(*out, fmt.Sprintf("%s.len=%d", path, n), fmt.Sprintf("%s.cap=%d", path, c))
		for i := 0; i < c; i++ {
			p := path + "[" + strconv.Itoa(i) + "]"
			if i >= n {
				p = path + "[spare " + strconv.Itoa(i) + "]"
			}
			fpWalk(out, p, full.Index(i), seen, depth+1)
		}
	case reflect.Map:
		if v.IsNil() {
			add("nil")
			return
		}
		type kv struct {
			k string
			v reflect.Value
		}
		var l []kv
		it := v.MapRange()
		for it.Next() {
			var ko []string
			fpWalk(&ko, "", it.Key(), seen, depth+1)
			l = append(l, kv{strings.Join(ko, ","), it.Value()})
		}
		sort.Slice(l, func(i, j int) bool { return l[i].k < l[j].k })
		*out = append(*out, fmt.Sprintf("%s.len=%d", path, len(l)))
		for _, e := range l {
			fpWalk(out, path+"{"+e.k+"}", e.v, seen, depth+1)
		}
	default:
		add("<" + v.Kind().String() + ">")
	}
}

// FirstDiff compares two fingerprints; "" when equal, otherwise "<path>: <before> -> <after>" of the first difference.
func FirstDiff(before, after []string) string {
	clip := func(s string) string {
		if len(s) > 160 {
			return s[:160] + "…"
		}
		return s
	}
	for i := 0; i < len(before) && i < len(after); i++ {
		if before[i] != after[i] {
			bp, bv, _ := strings.Cut(before[i], "=")
			ap, av, _ := strings.Cut(after[i], "=")
			if bp == ap {
				return fmt.Sprintf("%s: %s -> %s", bp, clip(bv), clip(av))
			}
			return fmt.Sprintf("%s -> %s", clip(before[i]), clip(after[i]))
		}
	}
	if len(before) != len(after) {
		return fmt.Sprintf("shape changed (%d -> %d leaves)", len(before), len(after))
	}
	return ""
}

// ---- deep copy into caller-style memory ----

const (
	MemExact = "exact" // every slice has cap == len
	MemSpare = "spare" // every slice has poisoned spare capacity; Reuse re-fills the destination's old backing arrays
	MemArena = "arena" // spare, and every byte string is a window buf[a:b] of a shared buffer (capacity runs on into the next values)
)

// Copier deep-copies values (exported fields; unexported ones are copied shallowly) with a chosen memory layout.
type Copier struct {
	Mode  string
	Reuse bool   // keep the destination's backing arrays where they are large enough (the `append(buf[:0], …)` idiom)
	R     *zv.Rng // layout choices (spare sizes, arena gaps)
	// Exact, when non-nil and true for a path, forces cap == len for the slice at that path
	Exact  func(path string) bool
	arenas [][]byte
	offs   []int
}

const poisonByte = 0xA5

func (c *Copier) carve(n int) reflect.Value {
	if len(c.arenas) == 0 {
		for i := 0; i < 3; i++ {
			a := make([]byte, 2048)
			for j := range a {
				a[j] = poisonByte
			}
			c.arenas = append(c.arenas, a)
			c.offs = append(c.offs, 0)
		}
	}
	k := c.R.Intn(len(c.arenas))
	off := c.offs[k] + c.R.Intn(3)
	if off+n > len(c.arenas[k]) {
		b := make([]byte, n, n+8)
		return reflect.ValueOf(b)
	}
	c.offs[k] = off + n
	return reflect.ValueOf(c.arenas[k][off : off+n]) // cap runs to the end of the buffer, like any buf[a:b]
}

func poison(v reflect.Value) {
	switch v.Kind() {
	case reflect.Uint8:
		v.SetUint(poisonByte)
	case reflect.Int, reflect.Int8, reflect.Int16, reflect.Int32, reflect.Int64:
		v.SetInt(0x5a)
	case reflect.Uint, reflect.Uint16, reflect.Uint32, reflect.Uint64:
		v.SetUint(0x5a)
	case reflect.String:
		v.SetString("spare.invalid")
	}
}

// Into deep-copies src into dst (a pointer to a value of the same type), e.g. c.Into(&live.DNSNames, spec.DNSNames).
func (c *Copier) Into(dst any, src any) {
	d := reflect.ValueOf(dst).Elem()
	s := reflect.ValueOf(src)
	if !s.IsValid() {
		d.Set(reflect.Zero(d.Type()))
		return
	}
	c.copyVal("", d, s)
}

// Field copies the named field of the struct *src into the same field of *dst.
func (c *Copier) Field(dst, src any, name string) {
	d := reflect.ValueOf(dst).Elem().FieldByName(name)
	s := reflect.ValueOf(src).Elem().FieldByName(name)
	c.copyVal(name, d, s)
}

func allExported(t reflect.Type) bool {
	for i := 0; i < t.NumField(); i++ {
		if !t.Field(i).IsExported() {
			return false
		}
	}
	return true
}

func (c *Copier) copyVal(path string, d, s reflect.Value) {
	switch s.Kind() {
	case reflect.Ptr:
		if s.IsNil() {
			d.Set(reflect.Zero(d.Type()))
			return
		}
		if s.Type().Elem() == typBigInt {
			d.Set(reflect.ValueOf(new(big.Int).Set(s.Interface().(*big.Int))))
			return
		}
		n := reflect.New(s.Type().Elem())
		c.copyVal(path+"*", n.Elem(), s.Elem())
		d.Set(n)
	case reflect.Interface:
		if s.IsNil() {
			d.Set(reflect.Zero(d.Type()))
			return
		}
		n := reflect.New(s.Elem().Type()).Elem()
		c.copyVal(path, n, s.Elem())
		d.Set(n)
	case reflect.Struct:
		if s.Type() == typTime || s.Type() == typBigInt || !allExported(s.Type()) {
			d.Set(s)
			if s.Type() == typTime || s.Type() == typBigInt {
				return
			}
		}
		for i := 0; i < s.NumField(); i++ {
			if s.Type().Field(i).IsExported() {
				c.copyVal(path+"."+s.Type().Field(i).Name, d.Field(i), s.Field(i))
			}
		}
	case reflect.Array:
		for i := 0; i < s.Len(); i++ {
			c.copyVal(path+"[]", d.Index(i), s.Index(i))
		}
	case reflect.Slice:
		c.copySlice(path, d, s)
	case reflect.Map:
		if s.IsNil() {
			d.Set(reflect.Zero(d.Type()))
			return
		}
		m := reflect.MakeMapWithSize(s.Type(), s.Len())
		it := s.MapRange()
		for it.Next() {
			nv := reflect.New(s.Type().Elem()).Elem()
			c.copyVal(path+"{}", nv, it.Value())
			m.SetMapIndex(it.Key(), nv)
		}
		d.Set(m)
	default:
		d.Set(s)
	}
}

func (c *Copier) copySlice(path string, d, s reflect.Value) {
	exact := c.Mode == MemExact || c.Mode == "" || (c.Exact != nil && c.Exact(path))
	if s.IsNil() {
		if !exact && c.Reuse && !d.IsNil() && c.R.Bool() {
			d.Set(d.Slice(0, 0)) // `buf = buf[:0]`: empty, non-nil, old elements still behind it
		} else {
			d.Set(reflect.Zero(d.Type()))
		}
		return
	}
	n := s.Len()
	var out reflect.Value
	isBytes := s.Type().Elem().Kind() == reflect.Uint8
	switch {
	case exact:
		out = reflect.MakeSlice(s.Type(), n, n)
	case c.Reuse && !d.IsNil() && d.Cap() >= n && d.Cap() > 0 && (c.Mode != MemArena || !isBytes || n <= d.Len()):
		// (a window of a shared buffer is re-filled only within its old length: what follows it belongs to other values)
		out = d.Slice(0, n)
	case c.Mode == MemArena && isBytes && n > 0:
		out = c.carve(n).Convert(s.Type())
	default:
		out = reflect.MakeSlice(s.Type(), n, n+1+c.R.Intn(4))
		sp := out.Slice(0, out.Cap())
		for i := n; i < sp.Len(); i++ {
			poison(sp.Index(i))
		}
	}
	if isBytes {
		reflect.Copy(out, s)
	} else {
		for i := 0; i < n; i++ {
			c.copyVal(path+"[]", out.Index(i), s.Index(i))
		}
	}
	d.Set(out)
}

// RandIPNet: a random address of n (4 or 16) octets with a random CIDR mask — one name-constraint IP range.
func RandIPNet(r *zv.Rng, n int) net.IPNet { return net.IPNet{IP: net.IP(r.Bytes(n)), Mask: randMask(r, n)} }
